// Command rcverif decides the regclient properties of /verif/properties.jsonl by static analysis
// of the repository's current working tree (see /verif/DESIGN.md).
//
//	rcverif check -property C12 [-tier quick|thorough] [-repo /repo] [-verif /verif]
//	rcverif mutant -property C12 -spec selftest/C12.json -id <mutant id>     (internal: one self-test case)
//	rcverif explain <violations.json>
//	rcverif list
package main

import (
	"encoding/json"
	"flag"
	"fmt"
	"os"
	"path/filepath"
	"runtime"
	"runtime/debug"
	"sort"
	"strconv"
	"strings"
	"time"

	"verif/internal/core"
	"verif/internal/rules"
)

func main() {
	if len(os.Args) < 2 {
		usage()
	}
	switch os.Args[1] {
	case "check":
		os.Exit(cmdCheck(os.Args[2:]))
	case "mutant":
		os.Exit(cmdMutant(os.Args[2:]))
	case "explain":
		os.Exit(cmdExplain(os.Args[2:]))
	case "list":
		for _, id := range rules.IDs() {
			fmt.Println(id)
		}
	default:
		usage()
	}
}

func usage() {
	fmt.Fprintln(os.Stderr, "usage: rcverif check -property Cxx [-tier quick|thorough] | explain <file> | list")
	os.Exit(2)
}

type runResult struct {
	Config    string
	Obls      []core.Obligation
	Rules     []*core.RuleInfo
	Notes     []string
	Packages  int
	Functions int
	ModFuncs  int
}

// runConfig loads one configuration and runs the rules of a property on it.
func runConfig(repo string, cfg core.Config, spec *rules.Spec, overlay map[string][]byte) (res *runResult, err error) {
	p, err := core.Load(repo, cfg, overlay)
	if err != nil {
		return nil, err
	}
	rep := core.NewReport(spec.ID, cfg.Name)
	func() {
		defer func() {
			if x := recover(); x != nil {
				rep.Undecided(spec.ID+".R0", "-", "rule panic", "-",
					fmt.Sprintf("the rule implementation panicked on this tree (%v): the code no longer has a shape the rule understands\n%s", x, trimStack(debug.Stack())))
			}
		}()
		spec.Run(p, rep)
	}()
	rep.Finish()
	return &runResult{Config: cfg.Name, Obls: rep.Obls, Rules: rep.Rules, Notes: rep.Notes,
		Packages: len(p.All), Functions: p.NumFuncs, ModFuncs: len(p.ModFuncs)}, nil
}

func trimStack(b []byte) string {
	lines := strings.Split(string(b), "\n")
	if len(lines) > 24 {
		lines = lines[:24]
	}
	return strings.Join(lines, "\n")
}

func cmdCheck(args []string) int {
	fs := flag.NewFlagSet("check", flag.ExitOnError)
	prop := fs.String("property", "", "property id")
	tier := fs.String("tier", os.Getenv("VERIF_TIER"), "quick or thorough")
	repo := fs.String("repo", "/repo", "repository to analyse")
	verif := fs.String("verif", "", "verif directory (default: directory above the binary)")
	noSelf := fs.Bool("no-selftest", false, "thorough: skip the mutant self-test")
	quiet := fs.Bool("q", false, "less output")
	verbose := fs.Bool("v", false, "print every obligation")
	fs.Parse(args)
	if *tier == "" {
		*tier = "quick"
	}
	if *tier != "quick" && *tier != "thorough" {
		fmt.Fprintln(os.Stderr, "bad tier", *tier)
		return 2
	}
	spec := rules.Get(*prop)
	if spec == nil {
		fmt.Fprintf(os.Stderr, "unknown property %q (have %v)\n", *prop, rules.IDs())
		return 2
	}
	vdir := verifDir(*verif)
	seed, _ := strconv.Atoi(os.Getenv("VERIF_SEED"))
	start := time.Now()
	abs, err := filepath.Abs(*repo)
	if err != nil {
		fmt.Fprintln(os.Stderr, err)
		return 2
	}
	*repo = abs

	cfgs := core.Configs[:1]
	if *tier == "thorough" {
		cfgs = core.Configs
	}
	findings, err := core.LoadFindings(filepath.Join(vdir, "known_findings.json"))
	if err != nil {
		fmt.Fprintln(os.Stderr, "known findings:", err)
		return 2
	}
	var all []core.Obligation
	var results []*runResult
	for _, cfg := range cfgs {
		res, err := runConfig(*repo, cfg, spec, nil)
		if err != nil {
			fmt.Fprintln(os.Stderr, "FATAL:", err)
			return 2
		}
		results = append(results, res)
		all = append(all, res.Obls...)
		runtime.GC()
		debug.FreeOSMemory()
	}
	core.ApplyFindings(all, findings, spec.ID)
	core.SortObls(all)

	var self *selfTestResult
	if *tier == "thorough" && !*noSelf {
		self = runSelfTest(vdir, *repo, spec.ID)
	}

	// summarise
	var bad, known []core.Obligation
	held := 0
	for _, o := range all {
		switch o.Status {
		case core.Held:
			held++
		case core.Known:
			known = append(known, o)
		default:
			bad = append(bad, o)
		}
	}
	printedKnown := map[string]bool{}
	for _, o := range known {
		k := o.Key()
		if printedKnown[k] {
			continue
		}
		printedKnown[k] = true
		fmt.Printf("KNOWN-FINDING: property=%s %s %s %s: %s\n", spec.ID, o.Rule, o.Func, o.Construct, firstLine(o.Detail))
	}
	if !*quiet {
		for _, res := range results {
			fmt.Printf("config %-20s packages=%d functions=%d (module %d) obligations=%d\n", res.Config, res.Packages, res.Functions, res.ModFuncs, len(res.Obls))
		}
		for _, ri := range results[0].Rules {
			fmt.Printf("  %-8s instances=%-4d floor=%-3d %s\n", ri.ID, ri.Count, ri.Floor, ri.Text)
		}
	}
	if *verbose {
		for _, o := range all {
			fmt.Printf("  %-9s %-8s %s | %s | %s\n      %s\n", o.Status, o.Rule, o.Pos, o.Func, o.Construct, o.Detail)
		}
	}
	violPath := filepath.Join(vdir, "evidence", spec.ID+".violations.json")
	os.Remove(violPath)
	exit := 0
	if len(bad) > 0 {
		for _, o := range bad {
			fmt.Printf("  %s %s %s | %s | %s\n      %s\n", strings.ToUpper(o.Status), o.Rule, o.Pos, o.Func, o.Construct, o.Detail)
		}
		core.WriteJSON(violPath, map[string]any{"property": spec.ID, "tier": *tier, "repo": *repo, "violations": bad})
		fmt.Printf("VIOLATION property=%s replay=%s\n", spec.ID, violPath)
		exit = 1
	}

	// evidence
	samples := make([]any, 0, len(all))
	seenKey := map[string]bool{}
	for _, o := range all {
		// one sample per obligation key (configs collapse), all of them: the obligations are the cases
		k := o.Key() + "|" + o.Status
		if seenKey[k] {
			continue
		}
		seenKey[k] = true
		samples = append(samples, o)
	}
	ruleRows := []any{}
	for _, res := range results {
		for _, ri := range res.Rules {
			ruleRows = append(ruleRows, map[string]any{"config": res.Config, "rule": ri.ID, "text": ri.Text, "instances": ri.Count, "floor": ri.Floor})
		}
	}
	cfgNames := []string{}
	pk, fnc, mfn := 0, 0, 0
	for _, res := range results {
		cfgNames = append(cfgNames, res.Config)
		if res.Packages > pk {
			pk = res.Packages
		}
		if res.Functions > fnc {
			fnc = res.Functions
		}
		if res.ModFuncs > mfn {
			mfn = res.ModFuncs
		}
	}
	notes := []string{}
	for _, res := range results {
		for _, n := range res.Notes {
			notes = append(notes, res.Config+": "+n)
		}
	}
	cov := map[string]any{
		"explanation": "Static analysis (go/packages + go/types + go/ssa + go/cfg over " + *repo + "'s working tree; nothing is executed). Decides: " + spec.Decides +
			" NOT decided: " + spec.NotCovered +
			" Every obligation is one enumerated site (function, call site, literal, loop, path) of one rule; the rule list with texts, instance counts and floors is under 'rules'.",
		"obligations":         len(all),
		"discharged":          held,
		"known_findings":      len(known),
		"exhaustive":          true,
		"samples":             samples,
		"rules":               ruleRows,
		"configs":             cfgNames,
		"packages":            pk,
		"functions":           fnc,
		"module_functions":    mfn,
		"notes":               notes,
		"checker_cmd":         "bin/rcverif check -property " + spec.ID + " -tier " + *tier,
		"evaluations":         len(all),
		"distinct_nontrivial": len(seenKey),
		"rule":                "one case = one obligation (rule, function, construct) enumerated from the type-checked program; distinct = distinct (rule, function, construct, status) keys; all are non-trivial in that each names a concrete code site the rule had to decide",
		"trusted_base":        rules.CommonAssumptions,
	}
	if self != nil {
		cov["selftest"] = self
	}
	ev := core.Evidence{
		PropertyID:  spec.ID,
		Tier:        *tier,
		Seed:        seed,
		Level:       "other",
		Coverage:    cov,
		Assumptions: append(append([]string{}, rules.CommonAssumptions...), spec.Assumptions...),
		WallS:       time.Since(start).Seconds(),
		Violations:  len(bad),
	}
	if err := core.WriteJSON(filepath.Join(vdir, "evidence", spec.ID+".json"), ev); err != nil {
		fmt.Fprintln(os.Stderr, "evidence:", err)
		return 2
	}
	fmt.Printf("property=%s tier=%s obligations=%d held=%d known=%d violated/undecided=%d wall=%.1fs\n",
		spec.ID, *tier, len(all), held, len(known), len(bad), time.Since(start).Seconds())
	if self != nil {
		fmt.Printf("selftest: %d cases, %d detected, %d silent-as-expected, %d skipped, %d FAILED\n",
			len(self.Cases), self.Detected, self.Silent, self.Skipped, self.Failed)
		if self.Failed > 0 && exit == 0 {
			for _, c := range self.Cases {
				if c.Outcome == "FAILED" {
					fmt.Printf("  selftest FAILED %s: %s\n", c.ID, c.Detail)
				}
			}
			fmt.Fprintln(os.Stderr, "self-test failed: the checker is broken (no VIOLATION is reported for this)")
			return 2
		}
	}
	return exit
}

func firstLine(s string) string {
	if i := strings.IndexByte(s, '\n'); i >= 0 {
		return s[:i]
	}
	return s
}

func verifDir(flagVal string) string {
	if flagVal != "" {
		return flagVal
	}
	if v := os.Getenv("VERIF_DIR"); v != "" {
		return v
	}
	exe, err := os.Executable()
	if err == nil {
		d := filepath.Dir(filepath.Dir(exe))
		if _, err := os.Stat(filepath.Join(d, "properties.jsonl")); err == nil {
			return d
		}
	}
	wd, _ := os.Getwd()
	return wd
}

func cmdExplain(args []string) int {
	if len(args) < 1 {
		usage()
	}
	b, err := os.ReadFile(args[0])
	if err != nil {
		fmt.Fprintln(os.Stderr, err)
		return 2
	}
	var v struct {
		Property   string            `json:"property"`
		Violations []core.Obligation `json:"violations"`
	}
	if err := json.Unmarshal(b, &v); err != nil {
		fmt.Fprintln(os.Stderr, err)
		return 2
	}
	sort.SliceStable(v.Violations, func(i, j int) bool { return v.Violations[i].Rule < v.Violations[j].Rule })
	for _, o := range v.Violations {
		fmt.Printf("%s %s at %s\n  function : %s\n  construct: %s\n  config   : %s\n  %s\n\n", strings.ToUpper(o.Status), o.Rule, o.Pos, o.Func, o.Construct, o.Config, o.Detail)
	}
	fmt.Printf("%d violation(s) of %s; re-run `bin/rcverif check -property %s` to re-derive them from the current tree\n", len(v.Violations), v.Property, v.Property)
	return 0
}

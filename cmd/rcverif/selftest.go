package main

import (
	"bytes"
	"encoding/json"
	"flag"
	"fmt"
	"os"
	"os/exec"
	"path/filepath"
	"strings"
	"sync"

	"verif/internal/core"
	"verif/internal/rules"
)

// A selfCase is one self-test case: a mutant (one construct broken; the rule must report it) or a
// benign variant (behaviour-preserving refactor; the rule must stay silent). The edit is applied in
// memory as a go/packages overlay on top of the repository's current working tree; nothing is written
// into /repo.
type selfCase struct {
	ID     string     `json:"id"`
	Kind   string     `json:"kind"` // "mutant" | "benign"
	Desc   string     `json:"desc"`
	Edits  []selfEdit `json:"edits,omitempty"`
	Patch  string     `json:"patch,omitempty"` // path relative to the verif dir of a unified diff
	Expect []expect   `json:"expect,omitempty"`
}

type selfEdit struct {
	File string `json:"file"`
	Old  string `json:"old"`
	New  string `json:"new"`
}

type expect struct {
	Rule      string `json:"rule"`
	Func      string `json:"func,omitempty"`      // substring
	Construct string `json:"construct,omitempty"` // substring
}

type caseResult struct {
	ID      string   `json:"id"`
	Kind    string   `json:"kind"`
	Desc    string   `json:"desc"`
	Outcome string   `json:"outcome"` // detected | silent | skipped | FAILED
	Detail  string   `json:"detail,omitempty"`
	Reports []string `json:"reports,omitempty"`
}

type selfTestResult struct {
	Cases    []caseResult `json:"cases"`
	Detected int          `json:"mutants_detected"`
	Silent   int          `json:"benign_silent"`
	Skipped  int          `json:"skipped"`
	Failed   int          `json:"failed"`
}

type mutantOutput struct {
	Skipped    string            `json:"skipped,omitempty"`
	LoadError  string            `json:"load_error,omitempty"`
	Violations []core.Obligation `json:"violations"`
}

func loadCases(vdir, prop string) ([]selfCase, string, error) {
	path := filepath.Join(vdir, "selftest", prop+".json")
	b, err := os.ReadFile(path)
	if err != nil {
		if os.IsNotExist(err) {
			return nil, path, nil
		}
		return nil, path, err
	}
	var cs []selfCase
	if err := json.Unmarshal(b, &cs); err != nil {
		return nil, path, fmt.Errorf("%s: %w", path, err)
	}
	return cs, path, nil
}

// buildOverlay turns a case into an overlay. A non-empty skip reason means the anchor text of the
// case is no longer present in the (edited) tree.
func buildOverlay(vdir, repo string, c selfCase) (map[string][]byte, string, error) {
	ov := map[string][]byte{}
	for _, e := range c.Edits {
		fn := filepath.Join(repo, e.File)
		cur, ok := ov[fn]
		if !ok {
			b, err := os.ReadFile(fn)
			if err != nil {
				return nil, "file missing: " + e.File, nil
			}
			cur = b
		}
		n := bytes.Count(cur, []byte(e.Old))
		if n == 0 {
			return nil, "anchor snippet no longer present in " + e.File, nil
		}
		if n > 1 {
			return nil, "", fmt.Errorf("case %s: snippet matches %d times in %s", c.ID, n, e.File)
		}
		ov[fn] = bytes.Replace(cur, []byte(e.Old), []byte(e.New), 1)
	}
	if c.Patch != "" {
		pfile := filepath.Join(vdir, c.Patch)
		pb, err := os.ReadFile(pfile)
		if err != nil {
			return nil, "", err
		}
		var files []string
		for _, line := range strings.Split(string(pb), "\n") {
			if strings.HasPrefix(line, "+++ b/") {
				files = append(files, strings.TrimSpace(strings.TrimPrefix(line, "+++ b/")))
			}
			if strings.HasPrefix(line, "+++ /dev/null") {
				return nil, "patch deletes a file (cannot be expressed as an overlay)", nil
			}
		}
		tmp, err := os.MkdirTemp("", "rcverif-patch-")
		if err != nil {
			return nil, "", err
		}
		defer os.RemoveAll(tmp)
		for _, f := range files {
			src := filepath.Join(repo, f)
			b, err := os.ReadFile(src)
			if err != nil {
				continue // new file created by the patch
			}
			dst := filepath.Join(tmp, f)
			os.MkdirAll(filepath.Dir(dst), 0o755)
			if err := os.WriteFile(dst, b, 0o644); err != nil {
				return nil, "", err
			}
		}
		cmd := exec.Command("git", "apply", "--whitespace=nowarn", pfile)
		cmd.Dir = tmp
		cmd.Env = append(os.Environ(), "GIT_CEILING_DIRECTORIES="+filepath.Dir(tmp))
		if out, err := cmd.CombinedOutput(); err != nil {
			return nil, "patch does not apply to the current tree: " + strings.TrimSpace(string(out)), nil
		}
		for _, f := range files {
			b, err := os.ReadFile(filepath.Join(tmp, f))
			if err != nil {
				return nil, "", err
			}
			ov[filepath.Join(repo, f)] = b
		}
	}
	if len(ov) == 0 {
		return nil, "", fmt.Errorf("case %s has no edits", c.ID)
	}
	return ov, "", nil
}

// cmdMutant runs one self-test case in this process and prints a mutantOutput as JSON.
func cmdMutant(args []string) int {
	fs := flag.NewFlagSet("mutant", flag.ExitOnError)
	prop := fs.String("property", "", "property id")
	id := fs.String("id", "", "case id")
	repo := fs.String("repo", "/repo", "repository")
	verif := fs.String("verif", "", "verif dir")
	patch := fs.String("patch", "", "ad-hoc: run the property's rules on the tree with this patch applied (no case file)")
	fs.Parse(args)
	vdir := verifDir(*verif)
	spec := rules.Get(*prop)
	if spec == nil {
		fmt.Fprintln(os.Stderr, "unknown property")
		return 2
	}
	var c *selfCase
	if *patch != "" {
		abs, _ := filepath.Abs(*patch)
		rel, err := filepath.Rel(vdir, abs)
		if err != nil {
			rel = abs
		}
		c = &selfCase{ID: "adhoc", Kind: "mutant", Patch: rel}
	} else {
		cases, _, err := loadCases(vdir, *prop)
		if err != nil {
			fmt.Fprintln(os.Stderr, err)
			return 2
		}
		for i := range cases {
			if cases[i].ID == *id {
				c = &cases[i]
			}
		}
	}
	if c == nil {
		fmt.Fprintln(os.Stderr, "no such case", *id)
		return 2
	}
	out := mutantOutput{Violations: []core.Obligation{}}
	ov, skip, err := buildOverlay(vdir, *repo, *c)
	if err != nil {
		fmt.Fprintln(os.Stderr, err)
		return 2
	}
	if skip != "" {
		out.Skipped = skip
	} else {
		res, err := runConfig(*repo, core.Configs[0], spec, ov)
		if err != nil {
			out.LoadError = err.Error()
		} else {
			findings, _ := core.LoadFindings(filepath.Join(vdir, "known_findings.json"))
			core.ApplyFindings(res.Obls, findings, spec.ID)
			for _, o := range res.Obls {
				if o.Status == core.Violated || o.Status == core.Undecided {
					out.Violations = append(out.Violations, o)
				}
			}
		}
	}
	b, _ := json.MarshalIndent(out, "", " ")
	fmt.Println(string(b))
	return 0
}

// runSelfTest runs every case of the property in a subprocess each (bounded parallelism; each
// subprocess loads the tree with the case's overlay) and judges the outcomes.
func runSelfTest(vdir, repo, prop string) *selfTestResult {
	res := &selfTestResult{Cases: []caseResult{}}
	cases, _, err := loadCases(vdir, prop)
	if err != nil {
		res.Cases = append(res.Cases, caseResult{ID: "-", Outcome: "FAILED", Detail: err.Error()})
		res.Failed++
		return res
	}
	exe, _ := os.Executable()
	results := make([]caseResult, len(cases))
	sem := make(chan struct{}, 4)
	var wg sync.WaitGroup
	for i, c := range cases {
		wg.Add(1)
		go func(i int, c selfCase) {
			defer wg.Done()
			sem <- struct{}{}
			defer func() { <-sem }()
			cr := caseResult{ID: c.ID, Kind: c.Kind, Desc: c.Desc}
			cmd := exec.Command(exe, "mutant", "-property", prop, "-id", c.ID, "-repo", repo, "-verif", vdir)
			var stdout, stderr bytes.Buffer
			cmd.Stdout, cmd.Stderr = &stdout, &stderr
			if err := cmd.Run(); err != nil {
				cr.Outcome, cr.Detail = "FAILED", "subprocess: "+err.Error()+" "+stderr.String()
				results[i] = cr
				return
			}
			var mo mutantOutput
			if err := json.Unmarshal(stdout.Bytes(), &mo); err != nil {
				cr.Outcome, cr.Detail = "FAILED", "bad subprocess output: "+err.Error()
				results[i] = cr
				return
			}
			switch {
			case mo.Skipped != "":
				cr.Outcome, cr.Detail = "skipped", mo.Skipped
			case mo.LoadError != "":
				cr.Outcome, cr.Detail = "FAILED", "variant does not compile: "+mo.LoadError
			case c.Kind == "benign":
				if len(mo.Violations) == 0 {
					cr.Outcome = "silent"
				} else {
					cr.Outcome, cr.Detail = "FAILED", "rule fired on a behaviour-preserving variant"
				}
			default:
				hit := false
				for _, v := range mo.Violations {
					if len(c.Expect) == 0 {
						hit = true
					}
					for _, e := range c.Expect {
						if v.Rule == e.Rule && strings.Contains(v.Func, e.Func) && strings.Contains(v.Construct, e.Construct) {
							hit = true
						}
					}
				}
				if hit {
					cr.Outcome = "detected"
				} else {
					cr.Outcome, cr.Detail = "FAILED", fmt.Sprintf("mutant not reported at the expected construct (%d other reports)", len(mo.Violations))
				}
			}
			for _, v := range mo.Violations {
				cr.Reports = append(cr.Reports, v.Rule+" | "+v.Func+" | "+v.Construct+" | "+v.Pos)
			}
			results[i] = cr
		}(i, c)
	}
	wg.Wait()
	for _, cr := range results {
		res.Cases = append(res.Cases, cr)
		switch cr.Outcome {
		case "detected":
			res.Detected++
		case "silent":
			res.Silent++
		case "skipped":
			res.Skipped++
		default:
			res.Failed++
		}
	}
	return res
}

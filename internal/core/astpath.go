package core

import (
	"go/ast"
	"go/token"
	"go/types"

	"golang.org/x/tools/go/cfg"
)

// Path counting over go/cfg (statement-level rules, DESIGN.md P3/C04): two saturating counters and
// one tracked boolean flag are propagated along every CFG path; the set of states reaching each exit
// is the result. The state space is finite (3*3*3 per block), so the analysis is exact for CFG paths
// and loop-safe.

// PState is a path state.
type PState struct {
	A, B int8 // event counts, saturating at 2
	Flag int8 // 0 unknown, 1 true, 2 false
}

// PathSpec configures the analysis.
type PathSpec struct {
	Info *types.Info
	// CountA / CountB: number of A / B events in a simple statement or expression node.
	CountA func(n ast.Node) int
	CountB func(n ast.Node) int
	// EdgeA: A events attributed to entering a block (used for select clause communications).
	EdgeA func(b *cfg.Block) int
	// FlagObj: a local bool variable whose constant assignments are tracked (may be nil).
	FlagObj types.Object
	// SkipComm: nodes that are the communication of a select clause (evaluated by go/cfg before the
	// clause is chosen); their events are attributed through EdgeA instead.
	SkipComm map[ast.Node]bool
}

func sat(x int8, d int) int8 {
	v := int(x) + d
	if v > 2 {
		v = 2
	}
	return int8(v)
}

// ExitStates runs the analysis over the CFG and returns, for every exit block (no successors, live),
// the set of states, plus the states at "return" exits and "fall off the end" exits together.
func (ps PathSpec) ExitStates(g *cfg.CFG, entry PState) map[*cfg.Block]map[PState]bool {
	type item struct {
		b *cfg.Block
		s PState
	}
	seen := map[item]bool{}
	exits := map[*cfg.Block]map[PState]bool{}
	if len(g.Blocks) == 0 {
		return exits
	}
	work := []item{{g.Blocks[0], entry}}
	for len(work) > 0 {
		it := work[len(work)-1]
		work = work[:len(work)-1]
		if seen[it] {
			continue
		}
		seen[it] = true
		s := it.s
		if ps.EdgeA != nil {
			s.A = sat(s.A, ps.EdgeA(it.b))
		}
		for _, n := range it.b.Nodes {
			if ps.SkipComm[n] {
				continue
			}
			if ps.CountA != nil {
				s.A = sat(s.A, ps.CountA(n))
			}
			if ps.CountB != nil {
				s.B = sat(s.B, ps.CountB(n))
			}
			if ps.FlagObj != nil {
				s.Flag = ps.flagAfter(n, s.Flag)
			}
		}
		if len(it.b.Succs) == 0 {
			if exits[it.b] == nil {
				exits[it.b] = map[PState]bool{}
			}
			exits[it.b][s] = true
			continue
		}
		succs := it.b.Succs
		if len(succs) == 2 && ps.FlagObj != nil && len(it.b.Nodes) > 0 && s.Flag != 0 {
			// go/cfg keeps an if condition as one expression node; evaluate `flag` / `!flag`
			if e, ok := it.b.Nodes[len(it.b.Nodes)-1].(ast.Expr); ok {
				neg := false
				for {
					e = ast.Unparen(e)
					u, isNot := e.(*ast.UnaryExpr)
					if !isNot || u.Op != token.NOT {
						break
					}
					neg = !neg
					e = u.X
				}
				if id, ok := e.(*ast.Ident); ok && ps.Info.Uses[id] == ps.FlagObj {
					val := s.Flag == 1
					if neg {
						val = !val
					}
					if val {
						succs = succs[:1]
					} else {
						succs = succs[1:]
					}
				}
			}
		}
		for _, sc := range succs {
			work = append(work, item{sc, s})
		}
	}
	return exits
}

// StatesFrom propagates from the entry of start and returns the states with which each stop block is
// entered (stop blocks are not processed) and the states at exit blocks (no successors). Entering
// start again counts as reaching a stop block when reenter is true (a loop without a condition block).
func (ps PathSpec) StatesFrom(start *cfg.Block, entry PState, stop map[*cfg.Block]bool, reenter bool) (atStop map[*cfg.Block]map[PState]bool, atExit map[*cfg.Block]map[PState]bool) {
	type item struct {
		b *cfg.Block
		s PState
	}
	seen := map[item]bool{}
	atStop = map[*cfg.Block]map[PState]bool{}
	atExit = map[*cfg.Block]map[PState]bool{}
	add := func(m map[*cfg.Block]map[PState]bool, b *cfg.Block, s PState) {
		if m[b] == nil {
			m[b] = map[PState]bool{}
		}
		m[b][s] = true
	}
	first := true
	work := []item{{start, entry}}
	for len(work) > 0 {
		it := work[len(work)-1]
		work = work[:len(work)-1]
		if !first && (stop[it.b] || (reenter && it.b == start)) {
			add(atStop, it.b, it.s)
			continue
		}
		first = false
		if seen[it] {
			continue
		}
		seen[it] = true
		s := it.s
		if ps.EdgeA != nil {
			s.A = sat(s.A, ps.EdgeA(it.b))
		}
		for _, n := range it.b.Nodes {
			if ps.SkipComm[n] {
				continue
			}
			if ps.CountA != nil {
				s.A = sat(s.A, ps.CountA(n))
			}
			if ps.CountB != nil {
				s.B = sat(s.B, ps.CountB(n))
			}
			if ps.FlagObj != nil {
				s.Flag = ps.flagAfter(n, s.Flag)
			}
		}
		if len(it.b.Succs) == 0 {
			add(atExit, it.b, s)
			continue
		}
		succs := it.b.Succs
		if len(succs) == 2 && ps.FlagObj != nil && len(it.b.Nodes) > 0 && s.Flag != 0 {
			if e, ok := it.b.Nodes[len(it.b.Nodes)-1].(ast.Expr); ok {
				neg := false
				for {
					e = ast.Unparen(e)
					u, isNot := e.(*ast.UnaryExpr)
					if !isNot || u.Op != token.NOT {
						break
					}
					neg = !neg
					e = u.X
				}
				if id, ok := e.(*ast.Ident); ok && ps.Info.Uses[id] == ps.FlagObj {
					val := s.Flag == 1
					if neg {
						val = !val
					}
					if val {
						succs = succs[:1]
					} else {
						succs = succs[1:]
					}
				}
			}
		}
		for _, sc := range succs {
			work = append(work, item{sc, s})
		}
	}
	return atStop, atExit
}

func (ps PathSpec) flagAfter(n ast.Node, cur int8) int8 {
	as, ok := n.(*ast.AssignStmt)
	if !ok {
		// declarations: var done bool / done := false are AssignStmt or DeclStmt specs
		if vs, ok := n.(*ast.ValueSpec); ok {
			for i, name := range vs.Names {
				if ps.Info.Defs[name] == ps.FlagObj {
					if i < len(vs.Values) {
						return constBool(vs.Values[i])
					}
					return 2
				}
			}
		}
		return cur
	}
	for i, l := range as.Lhs {
		id, ok := l.(*ast.Ident)
		if !ok {
			continue
		}
		if ps.Info.Uses[id] == ps.FlagObj || ps.Info.Defs[id] == ps.FlagObj {
			if len(as.Rhs) == len(as.Lhs) {
				return constBool(as.Rhs[i])
			}
			return 0
		}
	}
	return cur
}

func constBool(e ast.Expr) int8 {
	if id, ok := e.(*ast.Ident); ok {
		switch id.Name {
		case "true":
			return 1
		case "false":
			return 2
		}
	}
	return 0
}

// InspectNoLit walks n without descending into function literals.
func InspectNoLit(n ast.Node, f func(ast.Node) bool) {
	ast.Inspect(n, func(x ast.Node) bool {
		if _, ok := x.(*ast.FuncLit); ok && x != n {
			return false
		}
		return f(x)
	})
}

// RecvHelper, when set, decides whether a call that is handed the channel obj stands for exactly one
// receive from it (a helper that performs one receive on every path and returns what it received or
// what to keep).
var RecvHelper func(info *types.Info, call *ast.CallExpr, argIdx int) bool

// IsRecvFrom reports whether e is `<-ch` with ch denoting obj (or a call of a one-receive helper that
// is given ch).
func IsRecvFrom(info *types.Info, e ast.Node, obj types.Object) bool {
	if call, isCall := e.(*ast.CallExpr); isCall && RecvHelper != nil {
		for i, a := range call.Args {
			if id, ok := ast.Unparen(a).(*ast.Ident); ok && info.Uses[id] == obj && RecvHelper(info, call, i) {
				return true
			}
		}
		return false
	}
	u, ok := e.(*ast.UnaryExpr)
	if !ok || u.Op != token.ARROW {
		return false
	}
	id, ok := ast.Unparen(u.X).(*ast.Ident)
	return ok && info.Uses[id] == obj
}

// CountRecv counts receives from obj inside node n (function literals excluded).
func CountRecv(info *types.Info, n ast.Node, obj types.Object) int {
	c := 0
	InspectNoLit(n, func(x ast.Node) bool {
		if IsRecvFrom(info, x, obj) {
			c++
		}
		return true
	})
	return c
}

// CountSend counts sends on obj inside node n (function literals excluded).
func CountSend(info *types.Info, n ast.Node, obj types.Object) int {
	c := 0
	InspectNoLit(n, func(x ast.Node) bool {
		if s, ok := x.(*ast.SendStmt); ok {
			if id, ok := ast.Unparen(s.Chan).(*ast.Ident); ok && info.Uses[id] == obj {
				c++
			}
		}
		return true
	})
	return c
}

// CountIncDec counts `obj++` (tok INC) or `obj--` (tok DEC) statements in n, including `obj -= 1`.
func CountIncDec(info *types.Info, n ast.Node, obj types.Object, tok token.Token) int {
	c := 0
	InspectNoLit(n, func(x ast.Node) bool {
		switch s := x.(type) {
		case *ast.IncDecStmt:
			if id, ok := ast.Unparen(s.X).(*ast.Ident); ok && info.Uses[id] == obj && s.Tok == tok {
				c++
			}
		case *ast.AssignStmt:
			want := token.ADD_ASSIGN
			if tok == token.DEC {
				want = token.SUB_ASSIGN
			}
			if s.Tok == want && len(s.Lhs) == 1 {
				if id, ok := ast.Unparen(s.Lhs[0]).(*ast.Ident); ok && info.Uses[id] == obj {
					if bl, ok := s.Rhs[0].(*ast.BasicLit); ok && bl.Value == "1" {
						c++
					} else {
						c += 2 // unknown step: treated as "not exactly one"
					}
				}
			}
		}
		return true
	})
	return c
}

// SelectComms returns the set of communication statements of all select clauses under n, and a map
// from clause to its communication.
func SelectComms(n ast.Node) map[ast.Node]bool {
	out := map[ast.Node]bool{}
	ast.Inspect(n, func(x ast.Node) bool {
		if cc, ok := x.(*ast.CommClause); ok && cc.Comm != nil {
			out[cc.Comm] = true
		}
		return true
	})
	return out
}

// MayReturn is the go/cfg callback: every call may return (panics are not modelled).
func MayReturn(*ast.CallExpr) bool { return true }

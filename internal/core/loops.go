package core

import (
	"sort"

	"golang.org/x/tools/go/ssa"
)

// Loop is a natural loop of an SSA function.
type Loop struct {
	Fn     *ssa.Function
	Header *ssa.BasicBlock
	Blocks map[*ssa.BasicBlock]bool
	Latch  []*ssa.BasicBlock // sources of back edges
}

// Loops returns the natural loops of fn (one per header; back edges to the same header merged).
func Loops(fn *ssa.Function) []*Loop {
	byHeader := map[*ssa.BasicBlock]*Loop{}
	for _, b := range fn.Blocks {
		for _, s := range b.Succs {
			if s.Dominates(b) { // back edge b -> s
				l := byHeader[s]
				if l == nil {
					l = &Loop{Fn: fn, Header: s, Blocks: map[*ssa.BasicBlock]bool{s: true}}
					byHeader[s] = l
				}
				l.Latch = append(l.Latch, b)
				// collect the body: nodes reaching b without passing the header
				stack := []*ssa.BasicBlock{b}
				for len(stack) > 0 {
					x := stack[len(stack)-1]
					stack = stack[:len(stack)-1]
					if l.Blocks[x] {
						continue
					}
					l.Blocks[x] = true
					stack = append(stack, x.Preds...)
				}
			}
		}
	}
	var out []*Loop
	for _, l := range byHeader {
		out = append(out, l)
	}
	sort.Slice(out, func(i, j int) bool { return out[i].Header.Index < out[j].Header.Index })
	return out
}

// Exits returns the edges leaving the loop.
func (l *Loop) Exits() [][2]*ssa.BasicBlock {
	var out [][2]*ssa.BasicBlock
	for b := range l.Blocks {
		for _, s := range b.Succs {
			if !l.Blocks[s] {
				out = append(out, [2]*ssa.BasicBlock{b, s})
			}
		}
	}
	sort.Slice(out, func(i, j int) bool {
		if out[i][0].Index != out[j][0].Index {
			return out[i][0].Index < out[j][0].Index
		}
		return out[i][1].Index < out[j][1].Index
	})
	return out
}

// Instrs iterates over the instructions of the loop body in block order.
func (l *Loop) Instrs(f func(ssa.Instruction)) {
	var bs []*ssa.BasicBlock
	for b := range l.Blocks {
		bs = append(bs, b)
	}
	sort.Slice(bs, func(i, j int) bool { return bs[i].Index < bs[j].Index })
	for _, b := range bs {
		for _, in := range b.Instrs {
			f(in)
		}
	}
}

// IsRange reports whether the loop is a range loop over a slice, array, map, string or integer and
// returns the ranged value. go/ssa lowers slice ranges to an index loop `i < len(x)` whose header
// compares a phi with len(x); map and string ranges use Range/Next.
func (l *Loop) IsRange() (ssa.Value, bool) {
	// map/string/channel form: header (or a body block) has a Next instruction on a Range created outside the loop
	for b := range l.Blocks {
		for _, in := range b.Instrs {
			if nx, ok := in.(*ssa.Next); ok {
				if rg, ok := nx.Iter.(*ssa.Range); ok && !l.Blocks[rg.Block()] {
					return rg.X, true
				}
			}
		}
	}
	// slice/array form: the exiting condition is `phi < len(x)` (or `phi < n` for integer range) where
	// phi is incremented by exactly one constant step on the back edge and has no other update.
	for _, e := range l.Exits() {
		ifi, ok := lastInstr(e[0]).(*ssa.If)
		if !ok {
			continue
		}
		bo, ok := ifi.Cond.(*ssa.BinOp)
		if !ok {
			continue
		}
		phi, ok := bo.X.(*ssa.Phi)
		if !ok || phi.Block() != l.Header {
			// rotated form: the compared value is the incremented one
			if inc, ok2 := bo.X.(*ssa.BinOp); ok2 {
				if ph2, ok3 := inc.X.(*ssa.Phi); ok3 && ph2.Block() == l.Header {
					phi = ph2
					ok = true
				}
			}
			if !ok || phi == nil {
				continue
			}
		}
		if phi.Comment != "rangeindex" {
			continue
		}
		switch y := bo.Y.(type) {
		case *ssa.Call:
			if b, ok := y.Common().Value.(*ssa.Builtin); ok && b.Name() == "len" && !l.Blocks[y.Block()] {
				return y.Common().Args[0], true
			}
		default:
			_ = y
		}
		if v, ok := bo.Y.(ssa.Instruction); ok && l.Blocks[v.Block()] {
			continue
		}
		return bo.Y, true
	}
	return nil, false
}

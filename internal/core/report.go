package core

import (
	"encoding/json"
	"fmt"
	"os"
	"path/filepath"
	"sort"
	"strings"
)

// Obligation status values.
const (
	Held      = "held"
	Violated  = "violated"
	Undecided = "undecided"
	Known     = "known"
)

// Obligation is one enumerated site of one rule.
type Obligation struct {
	Rule      string `json:"rule"`
	Func      string `json:"func"`      // package-qualified function (no line)
	Construct string `json:"construct"` // label of the construct inside the function
	Status    string `json:"status"`
	Pos       string `json:"pos,omitempty"`
	Detail    string `json:"detail,omitempty"`
	Config    string `json:"config,omitempty"`
}

// Key identifies an obligation independent of lines.
func (o Obligation) Key() string { return o.Rule + " | " + o.Func + " | " + o.Construct }

// RuleInfo documents a rule in the evidence.
type RuleInfo struct {
	ID    string `json:"id"`
	Text  string `json:"text"`
	Floor int    `json:"floor"`
	Count int    `json:"instances"`
}

// Report collects the obligations of one property under one configuration.
type Report struct {
	Property string
	Config   string
	Obls     []Obligation
	Rules    []*RuleInfo
	rules    map[string]*RuleInfo
	Notes    []string
	Fatal    []string // floor failures, unresolved anchors: checker broken or tree unrecognisable
}

// NewReport creates a report.
func NewReport(property, config string) *Report {
	return &Report{Property: property, Config: config, rules: map[string]*RuleInfo{}}
}

// Rule declares a rule with its text and instance floor.
func (r *Report) Rule(id, text string, floor int) {
	// Floors guard against a rule that silently matches nothing. They are not a census: merging two
	// sites into one helper, or splitting one, must not raise an alarm, so the floor is capped low.
	if floor > 2 {
		floor = 2
	}
	if ri, ok := r.rules[id]; ok {
		ri.Text, ri.Floor = text, floor
		return
	}
	ri := &RuleInfo{ID: id, Text: text, Floor: floor}
	r.rules[id] = ri
	r.Rules = append(r.Rules, ri)
}

func (r *Report) add(rule, fn, construct, status, pos, detail string) {
	if _, ok := r.rules[rule]; !ok {
		r.Rule(rule, "", 0)
	}
	r.rules[rule].Count++
	r.Obls = append(r.Obls, Obligation{Rule: rule, Func: fn, Construct: construct, Status: status, Pos: pos, Detail: detail, Config: r.Config})
}

// Held records a discharged obligation.
func (r *Report) Held(rule, fn, construct, pos, detail string) {
	r.add(rule, fn, construct, Held, pos, detail)
}

// Violated records a violated obligation.
func (r *Report) Violated(rule, fn, construct, pos, detail string) {
	r.add(rule, fn, construct, Violated, pos, detail)
}

// Undecided records an obligation the rule could not decide (unrecognised idiom); it fails the check.
func (r *Report) Undecided(rule, fn, construct, pos, detail string) {
	r.add(rule, fn, construct, Undecided, pos, detail)
}

// Check records held or violated depending on ok.
func (r *Report) Check(ok bool, rule, fn, construct, pos, detail string) bool {
	if ok {
		r.Held(rule, fn, construct, pos, detail)
	} else {
		r.Violated(rule, fn, construct, pos, detail)
	}
	return ok
}

// MissingAnchor records that a named anchor could not be resolved: reported as a violation of the
// rule (the code that the rule speaks about no longer has the shape the rule can find).
func (r *Report) MissingAnchor(rule, anchor string) {
	r.add(rule, anchor, "anchor", Undecided, "-", "anchor not found in the loaded program: the rule cannot locate its subject")
}

// Note adds a free-text note to the evidence.
func (r *Report) Note(format string, a ...any) { r.Notes = append(r.Notes, fmt.Sprintf(format, a...)) }

// Finish checks the instance floors.
func (r *Report) Finish() {
	for _, ri := range r.Rules {
		if ri.Count < ri.Floor {
			r.add(ri.ID, "-", "floor", Undecided, "-",
				fmt.Sprintf("rule matched %d instances, fewer than the %d confirmed by hand: the rule no longer finds its sites", ri.Count, ri.Floor))
			ri.Count-- // the floor obligation itself is not an instance
		}
	}
}

// ---------------------------------------------------------------------------------------------
// known findings

// Finding is one entry of known_findings.json.
type Finding struct {
	Property  string `json:"property"`
	Rule      string `json:"rule"`
	Func      string `json:"func"`
	Construct string `json:"construct"`
	Status    string `json:"status"` // "known" or "fixed"
	Commit    string `json:"commit,omitempty"`
	ID        string `json:"id,omitempty"`
	What      string `json:"what"`
}

// LoadFindings reads the known-findings file.
func LoadFindings(path string) ([]Finding, error) {
	b, err := os.ReadFile(path)
	if err != nil {
		if os.IsNotExist(err) {
			return nil, nil
		}
		return nil, err
	}
	var fs []Finding
	if err := json.Unmarshal(b, &fs); err != nil {
		return nil, fmt.Errorf("%s: %w", path, err)
	}
	return fs, nil
}

// ApplyFindings turns violated obligations that match a "known" finding into Known. "fixed"
// entries suppress nothing.
func ApplyFindings(obls []Obligation, fs []Finding, property string) {
	for i := range obls {
		o := &obls[i]
		if o.Status != Violated {
			continue
		}
		for _, f := range fs {
			if f.Status != "known" || f.Property != property {
				continue
			}
			// the function of a finding may be given as "<package path>.*": the construct is found by its
			// role, and a refactoring that moves it to another function of the package does not make it a
			// different defect
			funcOK := f.Func == o.Func
			if strings.HasSuffix(f.Func, ".*") && strings.HasPrefix(o.Func, strings.TrimSuffix(f.Func, "*")) {
				funcOK = true
			}
			if f.Rule == o.Rule && funcOK && f.Construct == o.Construct {
				o.Status = Known
				o.Detail = o.Detail + " [known finding " + f.ID + ": " + f.What + "]"
			}
		}
	}
}

// ---------------------------------------------------------------------------------------------
// evidence

// Evidence mirrors EVIDENCE.schema.json.
type Evidence struct {
	PropertyID  string         `json:"property_id"`
	Tier        string         `json:"tier"`
	Seed        int            `json:"seed"`
	Level       string         `json:"level"`
	Coverage    map[string]any `json:"coverage"`
	Assumptions []string       `json:"assumptions"`
	WallS       float64        `json:"wall_s"`
	Violations  int            `json:"violations"`
}

// WriteJSON writes v to path atomically.
func WriteJSON(path string, v any) error {
	b, err := json.MarshalIndent(v, "", " ")
	if err != nil {
		return err
	}
	if err := os.MkdirAll(filepath.Dir(path), 0o755); err != nil {
		return err
	}
	tmp := path + ".tmp"
	if err := os.WriteFile(tmp, append(b, '\n'), 0o644); err != nil {
		return err
	}
	return os.Rename(tmp, path)
}

// SortObls sorts obligations by rule, function, construct, config.
func SortObls(obls []Obligation) {
	sort.SliceStable(obls, func(i, j int) bool {
		a, b := obls[i], obls[j]
		if a.Rule != b.Rule {
			return ruleLess(a.Rule, b.Rule)
		}
		if a.Func != b.Func {
			return a.Func < b.Func
		}
		if a.Construct != b.Construct {
			return a.Construct < b.Construct
		}
		return a.Config < b.Config
	})
}

func ruleLess(a, b string) bool {
	// C12.R10 after C12.R9
	pa, pb := strings.SplitN(a, ".R", 2), strings.SplitN(b, ".R", 2)
	if len(pa) == 2 && len(pb) == 2 && pa[0] == pb[0] {
		var x, y int
		fmt.Sscanf(pa[1], "%d", &x)
		fmt.Sscanf(pb[1], "%d", &y)
		if x != y {
			return x < y
		}
	}
	return a < b
}

// Package core holds the loader, the analysis primitives (P1–P9 of DESIGN.md) and the reporting
// plumbing shared by all rules.
package core

import (
	"fmt"
	"go/ast"
	"go/token"
	"go/types"
	"os"
	"sort"
	"strings"

	"golang.org/x/tools/go/packages"
	"golang.org/x/tools/go/ssa"
	"golang.org/x/tools/go/ssa/ssautil"
)

// ModPath is the module analysed.
const ModPath = "github.com/regclient/regclient"

// Config is one build configuration of the matrix.
type Config struct {
	Name   string
	GOOS   string
	GOARCH string
	Tags   string
}

// Configs is the matrix of DESIGN.md §2.2. The first entry is the quick configuration.
var Configs = []Config{
	{Name: "linux/amd64", GOOS: "linux", GOARCH: "amd64"},
	{Name: "linux/amd64+legacy", GOOS: "linux", GOARCH: "amd64", Tags: "legacy"},
	{Name: "windows/amd64", GOOS: "windows", GOARCH: "amd64"},
	{Name: "darwin/arm64", GOOS: "darwin", GOARCH: "arm64"},
	{Name: "linux/386", GOOS: "linux", GOARCH: "386"},
}

// MinPackages is the sanity floor on the number of module packages loaded.
const MinPackages = 51

// Prog is a loaded, type-checked program in SSA form.
type Prog struct {
	Repo     string
	Cfg      Config
	Fset     *token.FileSet
	All      []*packages.Package          // module packages, sorted by path
	byPath   map[string]*packages.Package // import path -> package (all deps)
	SSA      *ssa.Program
	AllFuncs map[*ssa.Function]bool
	// Resolve, when set, finds a function by its role after the lookup by name failed (rel = module-
	// relative package, typ = receiver type or "", name = the name the rules know it by).
	Resolve  func(rel, typ, name string) *ssa.Function
	ModFuncs []*ssa.Function // functions (incl. anonymous and instances) of the module
	declOf   map[*types.Func]*FuncSyntax
	litOf    map[token.Pos]*FuncSyntax
	refGraph map[*ssa.Function][]RefEdge
	impls    map[*types.Func][]*ssa.Function
	NumFuncs int
}

// FuncSyntax is the syntax of a function together with the package it belongs to.
type FuncSyntax struct {
	Decl *ast.FuncDecl
	Lit  *ast.FuncLit
	Pkg  *packages.Package
	File *ast.File
}

// Body returns the function body.
func (fs *FuncSyntax) Body() *ast.BlockStmt {
	if fs.Decl != nil {
		return fs.Decl.Body
	}
	return fs.Lit.Body
}

// Load loads the repository under the given configuration. overlay maps absolute file names to
// replacement contents (used by the self-test mutants).
func Load(repo string, cfg Config, overlay map[string][]byte) (*Prog, error) {
	env := os.Environ()
	clean := env[:0:0]
	for _, e := range env {
		k := strings.SplitN(e, "=", 2)[0]
		switch k {
		case "GOWORK", "GOFLAGS", "GOPROXY", "GOSUMDB", "GOTOOLCHAIN", "GOOS", "GOARCH", "CGO_ENABLED":
			continue
		}
		clean = append(clean, e)
	}
	clean = append(clean,
		"GOWORK=off", "GOFLAGS=-mod=mod", "GOPROXY=off", "GOSUMDB=off", "GOTOOLCHAIN=local",
		"GOOS="+cfg.GOOS, "GOARCH="+cfg.GOARCH, "CGO_ENABLED=0")
	pc := &packages.Config{
		Mode:    packages.LoadAllSyntax,
		Dir:     repo,
		Env:     clean,
		Tests:   false,
		Overlay: overlay,
	}
	if cfg.Tags != "" {
		pc.BuildFlags = []string{"-tags=" + cfg.Tags}
	}
	pkgs, err := packages.Load(pc, "./...")
	if err != nil {
		return nil, fmt.Errorf("load %s: %w", cfg.Name, err)
	}
	p := &Prog{Repo: repo, Cfg: cfg, byPath: map[string]*packages.Package{}}
	var errs []string
	packages.Visit(pkgs, nil, func(pkg *packages.Package) {
		p.byPath[pkg.PkgPath] = pkg
		for _, e := range pkg.Errors {
			errs = append(errs, e.Error())
		}
		if pkg.PkgPath == ModPath || strings.HasPrefix(pkg.PkgPath, ModPath+"/") {
			p.All = append(p.All, pkg)
		}
	})
	if len(errs) > 0 {
		sort.Strings(errs)
		if len(errs) > 10 {
			errs = errs[:10]
		}
		return nil, fmt.Errorf("load %s: type or list errors:\n  %s", cfg.Name, strings.Join(errs, "\n  "))
	}
	sort.Slice(p.All, func(i, j int) bool { return p.All[i].PkgPath < p.All[j].PkgPath })
	if len(p.All) < MinPackages {
		return nil, fmt.Errorf("load %s: only %d module packages (floor %d)", cfg.Name, len(p.All), MinPackages)
	}
	if len(pkgs) > 0 {
		p.Fset = pkgs[0].Fset
	}
	prog, _ := ssautil.AllPackages(pkgs, ssa.InstantiateGenerics)
	prog.Build()
	p.SSA = prog
	p.AllFuncs = ssautil.AllFunctions(prog)
	p.NumFuncs = len(p.AllFuncs)
	for fn := range p.AllFuncs {
		if p.InModule(fn) {
			p.ModFuncs = append(p.ModFuncs, fn)
		}
	}
	sort.Slice(p.ModFuncs, func(i, j int) bool {
		a, b := p.ModFuncs[i], p.ModFuncs[j]
		if a.Pos() != b.Pos() {
			return a.Pos() < b.Pos()
		}
		return a.String() < b.String()
	})
	p.indexSyntax()
	return p, nil
}

// InModule reports whether fn belongs to a package of the analysed module (closures, bound
// methods, wrappers and generic instances included).
func (p *Prog) InModule(fn *ssa.Function) bool {
	pkg := FuncPkg(fn)
	if pkg == nil {
		return false
	}
	pp := pkg.Path()
	return pp == ModPath || strings.HasPrefix(pp, ModPath+"/")
}

// FuncPkg returns the types.Package a function belongs to, looking through closures, instances
// and synthetic wrappers.
func FuncPkg(fn *ssa.Function) *types.Package {
	for f := fn; f != nil; f = f.Parent() {
		if f.Pkg != nil {
			return f.Pkg.Pkg
		}
		if o := f.Origin(); o != nil && o.Pkg != nil {
			return o.Pkg.Pkg
		}
		if f.Object() != nil && f.Object().Pkg() != nil {
			return f.Object().Pkg()
		}
	}
	return nil
}

// Rel returns the module-relative path of a package path ("" for the root package).
func Rel(pkgPath string) string {
	if pkgPath == ModPath {
		return "."
	}
	return strings.TrimPrefix(pkgPath, ModPath+"/")
}

// Pkg returns the module package with the given module-relative path ("." is the root).
func (p *Prog) Pkg(rel string) *packages.Package {
	if rel == "." || rel == "" {
		return p.byPath[ModPath]
	}
	return p.byPath[ModPath+"/"+rel]
}

// AnyPkg returns any loaded package by import path.
func (p *Prog) AnyPkg(path string) *packages.Package { return p.byPath[path] }

// SSAPkg returns the SSA package for a module-relative path.
func (p *Prog) SSAPkg(rel string) *ssa.Package {
	pkg := p.Pkg(rel)
	if pkg == nil {
		return nil
	}
	return p.SSA.Package(pkg.Types)
}

// Func returns a package-level function. When no function has that name and a resolver is installed,
// the function is looked up by its role (a renamed function is still the same anchor).
func (p *Prog) Func(rel, name string) *ssa.Function {
	sp := p.SSAPkg(rel)
	if sp == nil {
		return nil
	}
	if f := sp.Func(name); f != nil {
		return f
	}
	if p.Resolve != nil {
		return p.Resolve(rel, "", name)
	}
	return nil
}

// Named returns a named type of a module package.
func (p *Prog) Named(rel, name string) *types.Named {
	pkg := p.Pkg(rel)
	if pkg == nil {
		return nil
	}
	o := pkg.Types.Scope().Lookup(name)
	if o == nil {
		// a renamed type the role resolver has found
		for k, v := range TypeAlias {
			if v == name && strings.HasPrefix(k, pkg.Types.Path()+".") {
				o = pkg.Types.Scope().Lookup(strings.TrimPrefix(k, pkg.Types.Path()+"."))
			}
		}
	}
	if o == nil {
		return nil
	}
	n, _ := o.Type().(*types.Named)
	return n
}

// ExtNamed returns a named type from any loaded package.
func (p *Prog) ExtNamed(path, name string) *types.Named {
	pkg := p.byPath[path]
	if pkg == nil {
		return nil
	}
	o := pkg.Types.Scope().Lookup(name)
	if o == nil {
		return nil
	}
	n, _ := o.Type().(*types.Named)
	return n
}

// ExtFunc returns the types.Func of a package-level function of any loaded package.
func (p *Prog) ExtFunc(path, name string) *types.Func {
	pkg := p.byPath[path]
	if pkg == nil {
		return nil
	}
	f, _ := pkg.Types.Scope().Lookup(name).(*types.Func)
	return f
}

// Method returns the method (pointer or value receiver) of a named type of a module package.
func (p *Prog) Method(rel, typ, name string) *ssa.Function {
	n := p.Named(rel, typ)
	if n == nil {
		return nil
	}
	if f := p.MethodOf(n, name); f != nil {
		return f
	}
	if p.Resolve != nil {
		return p.Resolve(rel, typ, name)
	}
	return nil
}

// MethodOf returns the SSA function of method name on named type n (value or pointer receiver).
func (p *Prog) MethodOf(n *types.Named, name string) *ssa.Function {
	for _, t := range []types.Type{n, types.NewPointer(n)} {
		ms := p.SSA.MethodSets.MethodSet(t)
		for i := 0; i < ms.Len(); i++ {
			sel := ms.At(i)
			if sel.Obj().Name() == name {
				if fn := p.SSA.MethodValue(sel); fn != nil {
					// skip promoted-method wrappers: return the declared function when possible
					if fn.Synthetic != "" {
						if decl := p.SSA.FuncValue(sel.Obj().(*types.Func)); decl != nil {
							return decl
						}
					}
					return fn
				}
			}
		}
	}
	return nil
}

// MethodObj returns the types.Func of a method of a named type (any package).
func MethodObj(n *types.Named, name string) *types.Func {
	if n == nil {
		return nil
	}
	if it, ok := n.Underlying().(*types.Interface); ok {
		for i := 0; i < it.NumMethods(); i++ {
			if it.Method(i).Name() == name {
				return it.Method(i)
			}
		}
		return nil
	}
	for i := 0; i < n.NumMethods(); i++ {
		if n.Method(i).Name() == name {
			return n.Method(i)
		}
	}
	return nil
}

func (p *Prog) indexSyntax() {
	p.declOf = map[*types.Func]*FuncSyntax{}
	p.litOf = map[token.Pos]*FuncSyntax{}
	for _, pkg := range p.All {
		for _, f := range pkg.Syntax {
			file := f
			ast.Inspect(f, func(n ast.Node) bool {
				switch n := n.(type) {
				case *ast.FuncDecl:
					if o, ok := pkg.TypesInfo.Defs[n.Name].(*types.Func); ok && n.Body != nil {
						p.declOf[o] = &FuncSyntax{Decl: n, Pkg: pkg, File: file}
					}
				case *ast.FuncLit:
					p.litOf[n.Pos()] = &FuncSyntax{Lit: n, Pkg: pkg, File: file}
				}
				return true
			})
		}
	}
}

// Syntax returns the syntax of an SSA function of the module (declared function or literal).
func (p *Prog) Syntax(fn *ssa.Function) *FuncSyntax {
	if fn == nil {
		return nil
	}
	if o := fn.Origin(); o != nil {
		fn = o
	}
	if obj, ok := fn.Object().(*types.Func); ok && obj != nil {
		if s := p.declOf[obj]; s != nil {
			return s
		}
		if s := p.declOf[obj.Origin()]; s != nil {
			return s
		}
	}
	if lit, ok := fn.Syntax().(*ast.FuncLit); ok {
		return p.litOf[lit.Pos()]
	}
	return nil
}

// Pos formats a position relative to the repository root.
func (p *Prog) Pos(pos token.Pos) string {
	if !pos.IsValid() {
		return "-"
	}
	ps := p.Fset.Position(pos)
	fn := strings.TrimPrefix(ps.Filename, p.Repo+"/")
	return fmt.Sprintf("%s:%d", fn, ps.Line)
}

// FuncName gives a short, stable, line-free name: "scheme/reg.(*Reg).BlobDelete" or
// "regclient.(*RegClient).imageCopyOpt$3".
func (p *Prog) FuncName(fn *ssa.Function) string {
	if fn == nil {
		return "<nil>"
	}
	return ShortName(fn.String())
}

// ShortName rewrites go/ssa's function string "(*mod/pkg.T).M$1" into "pkg.(*T).M$1" with
// module-relative package paths (the root package is called "regclient").
func ShortName(s string) string {
	s = strings.ReplaceAll(s, ModPath+"/", "")
	s = strings.ReplaceAll(s, ModPath, "regclient")
	if strings.HasPrefix(s, "(") {
		if end := strings.Index(s, ")"); end > 0 {
			recv := s[1:end]
			star := ""
			if strings.HasPrefix(recv, "*") {
				star, recv = "*", recv[1:]
			}
			// generic instances carry type arguments with dots in brackets: split before '['
			base, targs := recv, ""
			if i := strings.Index(recv, "["); i >= 0 {
				base, targs = recv[:i], recv[i:]
			}
			if dot := strings.LastIndex(base, "."); dot >= 0 {
				return base[:dot] + ".(" + star + base[dot+1:] + targs + ")" + s[end+1:]
			}
		}
	}
	return s
}

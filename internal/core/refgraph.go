package core

import (
	"go/types"
	"sort"

	"golang.org/x/tools/go/ssa"
)

// RefEdge is an edge of the module-internal reference graph (P6): function From references
// function To at instruction Site (static call, closure creation, function value operand, or an
// interface invoke resolved over module-defined implementing types).
type RefEdge struct {
	To     *ssa.Function
	Site   ssa.Instruction
	Invoke bool
}

// RefEdges returns the outgoing reference edges of fn (module functions only; everything else is
// a leaf).
func (p *Prog) RefEdges(fn *ssa.Function) []RefEdge {
	if p.refGraph == nil {
		p.refGraph = map[*ssa.Function][]RefEdge{}
	}
	if es, ok := p.refGraph[fn]; ok {
		return es
	}
	var es []RefEdge
	add := func(to *ssa.Function, site ssa.Instruction, inv bool) {
		if to == nil || !p.InModule(to) {
			return
		}
		es = append(es, RefEdge{To: to, Site: site, Invoke: inv})
	}
	for _, b := range fn.Blocks {
		for _, in := range b.Instrs {
			if c, ok := in.(ssa.CallInstruction); ok && c.Common().IsInvoke() {
				for _, impl := range p.Implementations(c.Common().Method) {
					add(impl, in, true)
				}
			}
			for _, op := range in.Operands(nil) {
				if op == nil || *op == nil {
					continue
				}
				switch v := (*op).(type) {
				case *ssa.Function:
					add(v, in, false)
				case *ssa.MakeClosure:
					// the MakeClosure instruction itself carries the function operand
				}
			}
		}
	}
	p.refGraph[fn] = es
	return es
}

// Implementations returns the methods of module-defined types that implement the interface
// method m (class-hierarchy resolution restricted to the module).
func (p *Prog) Implementations(m *types.Func) []*ssa.Function {
	if p.impls == nil {
		p.impls = map[*types.Func][]*ssa.Function{}
	}
	if r, ok := p.impls[m]; ok {
		return r
	}
	var out []*ssa.Function
	sig := m.Type().(*types.Signature)
	recv := sig.Recv()
	if recv == nil {
		p.impls[m] = nil
		return nil
	}
	iface, _ := recv.Type().Underlying().(*types.Interface)
	if iface == nil {
		p.impls[m] = nil
		return nil
	}
	seen := map[*ssa.Function]bool{}
	for _, pkg := range p.All {
		sc := pkg.Types.Scope()
		for _, name := range sc.Names() {
			tn, ok := sc.Lookup(name).(*types.TypeName)
			if !ok || tn.IsAlias() {
				continue
			}
			n, ok := tn.Type().(*types.Named)
			if !ok || n.TypeParams().Len() > 0 {
				continue
			}
			if _, isI := n.Underlying().(*types.Interface); isI {
				continue
			}
			for _, t := range []types.Type{n, types.NewPointer(n)} {
				if !types.Implements(t, iface) {
					continue
				}
				ms := p.SSA.MethodSets.MethodSet(t)
				sel := ms.Lookup(m.Pkg(), m.Name())
				if sel == nil {
					continue
				}
				f := p.SSA.MethodValue(sel)
				if f != nil && !seen[f] {
					seen[f] = true
					out = append(out, f)
				}
			}
		}
	}
	// Generic instances of module types (Queue[T], Cache[K,V]) are found among the built functions.
	for _, fn := range p.ModFuncs {
		if fn.Signature.Recv() == nil || fn.Name() != m.Name() || seen[fn] {
			continue
		}
		if len(fn.TypeArgs()) == 0 {
			continue
		}
		if types.Implements(fn.Signature.Recv().Type(), iface) {
			seen[fn] = true
			out = append(out, fn)
		}
	}
	sort.Slice(out, func(i, j int) bool { return out[i].String() < out[j].String() })
	p.impls[m] = out
	return out
}

// ReachQuery is a reachability query over the reference graph.
type ReachQuery struct {
	// SkipEdge removes an edge (for instance because its site is behind a guard).
	SkipEdge func(from *ssa.Function, e RefEdge) bool
	// IsSink marks sink functions; the search records a path and does not descend into them.
	IsSink func(fn *ssa.Function) bool
	// Prune stops the descent into a function (not a sink).
	Prune func(fn *ssa.Function) bool
}

// PathStep is one hop of a reported call chain.
type PathStep struct {
	From *ssa.Function
	Site ssa.Instruction
	To   *ssa.Function
}

// SinkHit is a sink reached from an entry together with one (shortest) chain.
type SinkHit struct {
	Sink *ssa.Function
	Path []PathStep
}

// Reachable runs a BFS from entry and returns all sinks hit with a shortest chain each, and the
// number of functions visited.
func (p *Prog) Reachable(entry *ssa.Function, q ReachQuery) ([]SinkHit, int) {
	type pred struct {
		from *ssa.Function
		site ssa.Instruction
	}
	prev := map[*ssa.Function]pred{entry: {}}
	queue := []*ssa.Function{entry}
	var hits []SinkHit
	for len(queue) > 0 {
		fn := queue[0]
		queue = queue[1:]
		for _, e := range p.RefEdges(fn) {
			if q.SkipEdge != nil && q.SkipEdge(fn, e) {
				continue
			}
			if _, ok := prev[e.To]; ok {
				continue
			}
			prev[e.To] = pred{fn, e.Site}
			if q.IsSink != nil && q.IsSink(e.To) {
				var path []PathStep
				for cur := e.To; cur != entry; {
					pr := prev[cur]
					path = append([]PathStep{{From: pr.from, Site: pr.site, To: cur}}, path...)
					cur = pr.from
				}
				hits = append(hits, SinkHit{Sink: e.To, Path: path})
				continue
			}
			if q.Prune != nil && q.Prune(e.To) {
				continue
			}
			queue = append(queue, e.To)
		}
	}
	return hits, len(prev)
}

// ReachSet returns every function reachable from entry.
func (p *Prog) ReachSet(entry *ssa.Function, q ReachQuery) map[*ssa.Function]bool {
	seen := map[*ssa.Function]bool{entry: true}
	queue := []*ssa.Function{entry}
	for len(queue) > 0 {
		fn := queue[0]
		queue = queue[1:]
		for _, e := range p.RefEdges(fn) {
			if q.SkipEdge != nil && q.SkipEdge(fn, e) {
				continue
			}
			if seen[e.To] {
				continue
			}
			seen[e.To] = true
			if q.Prune != nil && q.Prune(e.To) {
				continue
			}
			queue = append(queue, e.To)
		}
	}
	return seen
}

// Callers returns, for every module function, the reference edges pointing at target.
func (p *Prog) Callers(target *ssa.Function) []PathStep {
	var out []PathStep
	for _, fn := range p.ModFuncs {
		for _, e := range p.RefEdges(fn) {
			if e.To == target {
				out = append(out, PathStep{From: fn, Site: e.Site, To: target})
			}
		}
	}
	return out
}

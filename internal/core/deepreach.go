package core

import (
	"go/token"
	"go/types"

	"golang.org/x/tools/go/ssa"
)

// DeepReach is Reach over a small supergraph: the functions of Scope are treated as one program.
// A call of an in-scope function descends into it (and continues after the call only if one of its
// returns is reachable); a walk that reaches a return of a function it did not enter through a call
// continues after every call of that function inside the scope. Stop / StopEdge / StopPhi have the
// meaning they have in Reach. The walk is context-insensitive beyond call/return matching of the
// descents it makes itself, which is exact for the helper-extraction refactorings it exists for
// (a helper called from one or two places) and an over-approximation of reachability otherwise.
type DeepReach struct {
	Reach
	Scope map[*ssa.Function]bool
}

// Helpers returns fn together with the functions it can be considered one unit with: the static
// callees (transitively, bounded) that live in the same package, are not exported, have a body and
// are not recursive back into the set's root.
func Helpers(fn *ssa.Function, maxDepth int) map[*ssa.Function]bool {
	return HelpersExcept(fn, maxDepth, nil)
}

// HelpersExcept is Helpers that neither includes nor descends into the functions for which stop
// reports true.
func HelpersExcept(fn *ssa.Function, maxDepth int, stop func(*ssa.Function) bool) map[*ssa.Function]bool {
	out := map[*ssa.Function]bool{fn: true}
	var walk func(f *ssa.Function, d int)
	walk = func(f *ssa.Function, d int) {
		if d >= maxDepth {
			return
		}
		Calls(f, func(c ssa.CallInstruction) {
			g := CalleeFn(c)
			if g != nil && len(g.Blocks) == 0 || g != nil && g.Pkg == nil {
				// a method of a generic type called from a generic body: go/ssa names an instantiation;
				// the body that is analysed is the generic original
				if obj := Callee(c); obj != nil {
					if og := f.Prog.FuncValue(obj.Origin()); og != nil {
						g = og
					}
				}
			}
			if g == nil || out[g] || len(g.Blocks) == 0 || (stop != nil && stop(g)) {
				return
			}
			if fp, gp := FuncPkg(fn), FuncPkg(g); fp == nil || gp == nil || fp.Path() != gp.Path() {
				return
			}
			if g.Object() != nil && g.Object().Exported() {
				// exported methods of unexported types are helpers too; exported API is not
				if recv := g.Signature.Recv(); recv == nil {
					return
				} else if n := NamedOf(recv.Type()); n == nil || n.Obj().Exported() {
					return
				}
			}
			out[g] = true
			walk(g, d+1)
		})
	}
	walk(fn, 0)
	return out
}

type deepSummary struct {
	seen    map[ssa.Instruction]bool
	returns bool
}

// From walks from the instruction after start.
func (r DeepReach) FromInstr(start ssa.Instruction) map[ssa.Instruction]bool {
	st := &deepState{r: r, seen: map[ssa.Instruction]bool{}, sum: map[*ssa.Function]*deepSummary{}, asc: map[ascKey]bool{}}
	st.walkFrom(start.Block(), InstrIndex(start)+1, nil, true, nil, 0)
	return st.seen
}

// FromEdge walks from a CFG edge.
func (r DeepReach) FromEdge(from, to *ssa.BasicBlock) map[ssa.Instruction]bool {
	st := &deepState{r: r, seen: map[ssa.Instruction]bool{}, sum: map[*ssa.Function]*deepSummary{}, asc: map[ascKey]bool{}}
	if r.StopEdge != nil && r.StopEdge(from, to) {
		return st.seen
	}
	st.walkFrom(to, 0, from, true, nil, 0)
	return st.seen
}

// FromEntry walks from the entry of fn.
func (r DeepReach) FromEntry(fn *ssa.Function) map[ssa.Instruction]bool {
	st := &deepState{r: r, seen: map[ssa.Instruction]bool{}, sum: map[*ssa.Function]*deepSummary{}, asc: map[ascKey]bool{}}
	if len(fn.Blocks) > 0 {
		st.walkFrom(fn.Blocks[0], 0, nil, false, nil, 0)
	}
	return st.seen
}

type deepState struct {
	r    DeepReach
	seen map[ssa.Instruction]bool
	sum  map[*ssa.Function]*deepSummary // balanced summaries of callees (in progress: returns=false)
	asc  map[ascKey]bool                // (function, error knowledge) whose callers were already continued
}

type ascKey struct {
	fn  *ssa.Function
	err int8
}

// summary walks callee g from its entry (balanced) and reports whether a return is reachable.
func (st *deepState) summary(g *ssa.Function) bool {
	if s, ok := st.sum[g]; ok {
		return s.returns
	}
	s := &deepSummary{}
	st.sum[g] = s // recursion: treated as not returning while in progress
	if len(g.Blocks) > 0 {
		s.returns = st.walkFrom(g.Blocks[0], 0, nil, false, nil, 0)
	}
	return s.returns
}

// walkFrom walks one function body; ascend says whether reaching a return continues in the callers.
// It reports whether a return instruction was reached.
//
// errCall/errKnown: the walk continues after the call errCall whose error result is known to be
// non-nil (1) or nil (2): branches on that result only follow the matching edge.
func (st *deepState) walkFrom(b *ssa.BasicBlock, from int, pred *ssa.BasicBlock, ascend bool, errCall *ssa.Call, errKnown int8) bool {
	type item struct {
		b    *ssa.BasicBlock
		from int
		pred *ssa.BasicBlock
		env  phiEnv // flags (bool phis, phis compared with one constant) whose value is known on this path
	}
	type key struct {
		b, pred *ssa.BasicBlock
		env     string
	}
	vis := map[key]bool{}
	returned := false
	work := []item{{b, from, pred, nil}}
	if from == 0 {
		work[0].env = phiEnv{}.enter(b, pred, st.r.Assume)
	}
	for len(work) > 0 {
		it := work[len(work)-1]
		work = work[:len(work)-1]
		phiBranch := phiDecidedBranch(it.b)
		if it.from == 0 {
			k := key{it.b, nil, it.env.key()}
			if phiBranch != nil {
				k.pred = it.pred
			}
			if vis[k] {
				continue
			}
			vis[k] = true
		}
		stopped := false
		for i := it.from; i < len(it.b.Instrs); i++ {
			in := it.b.Instrs[i]
			st.seen[in] = true
			if st.r.Stop != nil && st.r.Stop(in) {
				stopped = true
				break
			}
			if c, ok := in.(*ssa.Call); ok {
				g := c.Call.StaticCallee()
				if g != nil && !st.r.Scope[g] {
					if obj := Callee(c); obj != nil {
						if og := in.Parent().Prog.FuncValue(obj.Origin()); og != nil {
							g = og
						}
					}
				}
				if g != nil && st.r.Scope[g] && g != in.Parent() {
					if !st.summary(g) {
						stopped = true // every path through the helper is stopped (or it never returns)
						break
					}
				}
			}
			if _, ok := in.(*ssa.Return); ok {
				returned = true
				if ascend {
					st.ascend(in.Parent(), returnErrState(in.(*ssa.Return)))
				}
			}
		}
		if stopped {
			continue
		}
		// a branch on a flag whose value is known on this path
		known, kv := false, false
		if ifi, ok := lastInstr(it.b).(*ssa.If); ok {
			c, pol := StripNot(ifi.Cond, true)
			if ph, ok := c.(*ssa.Phi); ok {
				if v, ok := it.env[ph]; ok {
					known, kv = true, v == pol
				}
			}
			if v, ok := st.r.Assume[c]; ok {
				known, kv = true, v == pol
			}
			if ph, k := cmpPhiOf(c); ph != nil && !known {
				if k0, isCmp := cmpPhis(it.b.Parent())[ph]; isCmp && sameConst(k0, k) {
					if eq, ok := it.env[ph]; ok {
						truth := eq == (c.(*ssa.BinOp).Op == token.EQL)
						known, kv = true, truth == pol
					}
				}
			}
		}
		for si, s := range it.b.Succs {
			if st.r.StopEdge != nil && st.r.StopEdge(it.b, s) {
				continue
			}
			if known && ((kv && si != 0) || (!kv && si != 1)) {
				continue
			}
			if errCall != nil && errKnown != 0 {
				if nilSucc, ok := errBranch(it.b, errCall); ok {
					if (errKnown == 1 && si == nilSucc) || (errKnown == 2 && si != nilSucc) {
						continue
					}
				}
			}
			if !known && phiBranch != nil && it.pred != nil && it.from == 0 {
				if v, ok := phiConstFrom(phiBranch, it.b, it.pred); ok {
					if (v && si != 0) || (!v && si != 1) {
						continue
					}
				} else if st.r.StopPhi != nil {
					ifi := lastInstr(it.b).(*ssa.If)
					_, pol := StripNot(ifi.Cond, true)
					skip := false
					for pi, p := range it.b.Preds {
						if p == it.pred && pi < len(phiBranch.Edges) && st.r.StopPhi(phiBranch.Edges[pi], (si == 0) == pol) {
							skip = true
						}
					}
					if skip {
						continue
					}
				}
			}
			work = append(work, item{s, 0, it.b, it.env.enter(s, it.b, st.r.Assume)})
		}
	}
	return returned
}

// ascend continues after every in-scope call of fn.
func (st *deepState) ascend(fn *ssa.Function, errState int8) {
	k := ascKey{fn, errState}
	if st.asc[k] {
		return
	}
	st.asc[k] = true
	for caller := range st.r.Scope {
		if caller == fn {
			continue
		}
		for _, b := range caller.Blocks {
			for i, in := range b.Instrs {
				c, ok := in.(*ssa.Call)
				if !ok || c.Call.StaticCallee() != fn {
					continue
				}
				st.walkFrom(b, i+1, nil, true, c, errState)
			}
		}
	}
}

var errorType = types.Universe.Lookup("error").Type()

// returnErrState classifies the error result of a return: 1 = certainly non-nil (a freshly built
// error, a package-level error value, or a value returned from the non-nil edge of a test of it),
// 2 = the nil constant, 0 = unknown or no error result.
func returnErrState(ret *ssa.Return) int8 {
	fn := ret.Parent()
	res := fn.Signature.Results()
	if res.Len() == 0 || !types.Identical(res.At(res.Len()-1).Type(), errorType) {
		return 0
	}
	v := ReturnOperand(ret, res.Len()-1)
	if v == nil {
		return 0
	}
	if IsNilConst(v) {
		return 2
	}
	switch x := v.(type) {
	case *ssa.Call:
		if f := Callee(x); f != nil && f.Pkg() != nil && ((f.Pkg().Path() == "fmt" && f.Name() == "Errorf") || (f.Pkg().Path() == "errors" && (f.Name() == "New" || f.Name() == "Join"))) {
			return 1
		}
	case *ssa.UnOp:
		if _, isG := x.X.(*ssa.Global); isG && x.Op == token.MUL {
			return 1
		}
	case *ssa.MakeInterface:
		return 1
	}
	for _, g := range Guards(ret.Block()) {
		c, pol := StripNot(g.Cond, g.Polarity)
		if bo, ok := c.(*ssa.BinOp); ok && (bo.Op == token.NEQ || bo.Op == token.EQL) {
			var other ssa.Value
			switch {
			case IsNilConst(bo.Y):
				other = bo.X
			case IsNilConst(bo.X):
				other = bo.Y
			default:
				continue
			}
			if other == v && (bo.Op == token.NEQ) == pol {
				return 1
			}
		}
	}
	return 0
}

// errBranch: block b ends in a test of the error result of call c against nil; it returns the index
// of the successor taken when the error is nil.
func errBranch(b *ssa.BasicBlock, c *ssa.Call) (int, bool) {
	ifi, ok := lastInstr(b).(*ssa.If)
	if !ok {
		return 0, false
	}
	cnd, pol := StripNot(ifi.Cond, true)
	bo, ok := cnd.(*ssa.BinOp)
	if !ok || (bo.Op != token.NEQ && bo.Op != token.EQL) {
		return 0, false
	}
	var other ssa.Value
	switch {
	case IsNilConst(bo.Y):
		other = bo.X
	case IsNilConst(bo.X):
		other = bo.Y
	default:
		return 0, false
	}
	if !types.Identical(other.Type(), errorType) {
		return 0, false
	}
	match := false
	for _, o := range Origins(other, SliceOpts{}) {
		if o.Kind == OCall && o.Call == c {
			match = true
		} else {
			return 0, false // the tested value may come from elsewhere
		}
	}
	if !match {
		return 0, false
	}
	// cond true means: (op == EQL) ? err == nil : err != nil ; adjusted by polarity
	nilWhenTrue := (bo.Op == token.EQL) == pol
	if nilWhenTrue {
		return 0, true
	}
	return 1, true
}

package core

import (
	"fmt"
	"go/constant"
	"go/token"
	"go/types"
	"sort"
	"strings"

	"golang.org/x/tools/go/ssa"
)

// Callee returns the types.Func a call instruction resolves to: the static callee's object, the
// interface method for invoke-mode calls, or nil for calls of function values and builtins.
func Callee(c ssa.CallInstruction) *types.Func {
	cc := c.Common()
	if cc.IsInvoke() {
		return cc.Method
	}
	if sc := cc.StaticCallee(); sc != nil {
		if o, ok := sc.Object().(*types.Func); ok && o != nil {
			return o.Origin()
		}
		if og := sc.Origin(); og != nil {
			if o, ok := og.Object().(*types.Func); ok && o != nil {
				return o.Origin()
			}
		}
	}
	return nil
}

// CalleeFn returns the statically called SSA function (nil for invoke / dynamic calls).
func CalleeFn(c ssa.CallInstruction) *ssa.Function {
	return c.Common().StaticCallee()
}

// IsFunc reports whether f is the package-level function pkgPath.name.
func IsFunc(f *types.Func, pkgPath, name string) bool {
	if f == nil || f.Pkg() == nil {
		return false
	}
	if f.Name() != name || f.Pkg().Path() != pkgPath {
		return false
	}
	sig := f.Type().(*types.Signature)
	return sig.Recv() == nil
}

// IsMethod reports whether f is method name of the named type pkgPath.typ (value or pointer
// receiver, or interface method).
func IsMethod(f *types.Func, pkgPath, typ, name string) bool {
	if f == nil || f.Name() != name {
		return false
	}
	sig, ok := f.Type().(*types.Signature)
	if !ok || sig.Recv() == nil {
		return false
	}
	n := NamedOf(sig.Recv().Type())
	if n == nil || n.Obj().Pkg() == nil {
		return false
	}
	return n.Obj().Name() == typ && n.Obj().Pkg().Path() == pkgPath
}

// IsModMethod is IsMethod for a module-relative package path.
func IsModMethod(f *types.Func, rel, typ, name string) bool {
	return IsMethod(f, modPkgPath(rel), typ, name)
}

// IsClientOp: f is the RegClient method of that name or the method of that name of an interface of
// package scheme (the client's wrappers only look the scheme up and call the same-named method with
// the same arguments, so code that has the scheme at hand may call it directly).
func IsClientOp(f *types.Func, name string) bool {
	if f == nil || f.Name() != name {
		return false
	}
	if IsModMethod(f, ".", "RegClient", name) {
		return true
	}
	if f.Pkg() == nil || f.Pkg().Path() != modPkgPath("scheme") {
		return false
	}
	sig, ok := f.Type().(*types.Signature)
	if !ok || sig.Recv() == nil {
		return false
	}
	_, isIface := sig.Recv().Type().Underlying().(*types.Interface)
	return isIface
}

// IsModFunc is IsFunc for a module-relative package path.
func IsModFunc(f *types.Func, rel, name string) bool {
	return IsFunc(f, modPkgPath(rel), name)
}

func modPkgPath(rel string) string {
	if rel == "." || rel == "" {
		return ModPath
	}
	return ModPath + "/" + rel
}

// NamedOf strips pointers and returns the named type, if any.
func NamedOf(t types.Type) *types.Named {
	for {
		switch tt := t.(type) {
		case *types.Pointer:
			t = tt.Elem()
		case *types.Named:
			return tt
		case *types.Alias:
			t = types.Unalias(tt)
		default:
			return nil
		}
	}
}

// IsNamed reports whether t (through pointers) is the named type pkgPath.name.
func IsNamed(t types.Type, pkgPath, name string) bool {
	n := NamedOf(t)
	if n == nil || n.Obj().Pkg() == nil {
		return false
	}
	if n.Obj().Pkg().Path() != pkgPath {
		return false
	}
	return n.Obj().Name() == name || TypeAlias[pkgPath+"."+n.Obj().Name()] == name
}

// TypeAlias maps "package path.current name" of a renamed unexported type to the name the rules know
// it by (filled by the rules' role resolver; empty on a tree where nothing was renamed).
var TypeAlias = map[string]string{}

// TypeCanon returns the name the rules know a named type by.
func TypeCanon(n *types.Named) string {
	if n == nil || n.Obj().Pkg() == nil {
		return ""
	}
	if a, ok := TypeAlias[n.Obj().Pkg().Path()+"."+n.Obj().Name()]; ok {
		return a
	}
	return n.Obj().Name()
}

// IsModNamed is IsNamed with a module-relative package path.
func IsModNamed(t types.Type, rel, name string) bool { return IsNamed(t, modPkgPath(rel), name) }

// Calls iterates over every call instruction (call, go, defer) of fn.
func Calls(fn *ssa.Function, f func(c ssa.CallInstruction)) {
	for _, b := range fn.Blocks {
		for _, in := range b.Instrs {
			if c, ok := in.(ssa.CallInstruction); ok {
				f(c)
			}
		}
	}
}

// CallsTo returns the call instructions in fn whose resolved callee satisfies pred.
func CallsTo(fn *ssa.Function, pred func(*types.Func) bool) []ssa.CallInstruction {
	var out []ssa.CallInstruction
	Calls(fn, func(c ssa.CallInstruction) {
		if cal := Callee(c); cal != nil && pred(cal) {
			out = append(out, c)
		}
	})
	return out
}

// WithAnon returns fn and all function literals nested in it.
func WithAnon(fn *ssa.Function) []*ssa.Function {
	out := []*ssa.Function{fn}
	for _, a := range fn.AnonFuncs {
		out = append(out, WithAnon(a)...)
	}
	return out
}

// ConstString returns the constant string value of v, if it is one.
func ConstString(v ssa.Value) (string, bool) {
	c, ok := v.(*ssa.Const)
	if !ok || c.Value == nil || c.Value.Kind() != constant.String {
		return "", false
	}
	return constant.StringVal(c.Value), true
}

// ConstBool returns the constant bool value of v.
func ConstBool(v ssa.Value) (bool, bool) {
	c, ok := v.(*ssa.Const)
	if !ok || c.Value == nil || c.Value.Kind() != constant.Bool {
		return false, false
	}
	return constant.BoolVal(c.Value), true
}

// ConstInt returns the constant integer value of v.
func ConstInt(v ssa.Value) (int64, bool) {
	c, ok := v.(*ssa.Const)
	if !ok || c.Value == nil || c.Value.Kind() != constant.Int {
		return 0, false
	}
	i, ok := constant.Int64Val(c.Value)
	return i, ok
}

// IsNilConst reports whether v is the nil constant.
func IsNilConst(v ssa.Value) bool {
	c, ok := v.(*ssa.Const)
	return ok && c.Value == nil
}

// ---------------------------------------------------------------------------------------------
// P2: guards

// Guard is a dominating branch edge: the instruction executes only if Cond evaluated to Polarity.
type Guard struct {
	Cond     ssa.Value
	Polarity bool
	If       *ssa.If
}

// Guards returns the branch edges that dominate block b: for every If block d that dominates b
// where exactly one successor s of d dominates b and s has d as its only predecessor.
func Guards(b *ssa.BasicBlock) []Guard {
	var out []Guard
	for d := b.Idom(); d != nil; d = d.Idom() {
		ifi, ok := lastInstr(d).(*ssa.If)
		if !ok {
			continue
		}
		for k, s := range d.Succs {
			other := d.Succs[1-k]
			if s == other {
				continue
			}
			if len(s.Preds) == 1 && s.Dominates(b) {
				g := Guard{Cond: ifi.Cond, Polarity: k == 0, If: ifi}
				out = append(out, g)
				out = append(out, impliedGuards(g, 0)...)
				out = append(out, phiGuards(g, 0)...)
			}
		}
	}
	return out
}

// phiGuards: the branch condition is a short-circuit value (`a && b`, `a || b` lowered to a bool phi).
// When every edge of the phi but one carries the constant opposite to the truth taken, control came
// through that one edge: its value has the truth taken and everything that guards its predecessor
// block held as well.
func phiGuards(g Guard, depth int) []Guard {
	if depth > 3 {
		return nil
	}
	c, pol := StripNot(g.Cond, g.Polarity)
	ph, ok := c.(*ssa.Phi)
	if !ok {
		return nil
	}
	live := -1
	for i, e := range ph.Edges {
		if b, isConst := ConstBool(e); isConst {
			if b == pol {
				return nil // a constant edge with the truth taken: nothing is known
			}
			continue
		}
		if live >= 0 {
			return nil
		}
		live = i
	}
	if live < 0 {
		return nil
	}
	pred := ph.Block().Preds[live]
	var out []Guard
	sub := Guard{Cond: ph.Edges[live], Polarity: pol, If: g.If}
	out = append(out, sub)
	out = append(out, phiGuards(sub, depth+1)...)
	for _, pg := range Guards(pred) {
		out = append(out, pg)
	}
	return out
}

// impliedGuards: the branch condition is the boolean result of a function of the analysed module (a
// predicate helper such as `func (s *T) skip() bool { return s.flag }` or `ok && x.n == 0`). Taking
// the branch with that result establishes what the helper's body established on its way to returning
// that value: the conditions returned are values of the helper, so they can be matched by what they
// are (a load of a given field, a comparison with a constant) but not against values of the caller.
func impliedGuards(g Guard, depth int) []Guard {
	if depth > 2 {
		return nil
	}
	c, pol := StripNot(g.Cond, g.Polarity)
	call, ok := c.(*ssa.Call)
	if !ok {
		return nil
	}
	h := call.Call.StaticCallee()
	if h == nil || len(h.Blocks) == 0 || h.Pkg == nil || call.Parent().Pkg == nil {
		return nil
	}
	if !sameModule(h, call.Parent()) {
		return nil
	}
	res := h.Signature.Results()
	if res.Len() != 1 || !types.Identical(res.At(0).Type().Underlying(), types.Typ[types.Bool]) {
		return nil
	}
	// returns that can yield the value `pol`
	type cand struct {
		blk *ssa.BasicBlock // block whose dominating guards hold when this value is produced
		val ssa.Value       // non-constant value that must equal pol (nil if the value is the constant)
	}
	var cands []cand
	for _, ret := range Returns(h) {
		v := ReturnOperand(ret, 0)
		if b, isC := ConstBool(v); isC {
			if b == pol {
				cands = append(cands, cand{ret.Block(), nil})
			}
			continue
		}
		if ph, isPhi := v.(*ssa.Phi); isPhi {
			for i, e := range ph.Edges {
				if i >= len(ph.Block().Preds) {
					continue
				}
				if b, isC := ConstBool(e); isC {
					if b == pol {
						cands = append(cands, cand{ph.Block().Preds[i], nil})
					}
					continue
				}
				cands = append(cands, cand{ph.Block().Preds[i], e})
			}
			continue
		}
		cands = append(cands, cand{ret.Block(), v})
	}
	if len(cands) != 1 {
		return nil // a disjunction of ways to produce the value: nothing is implied
	}
	var out []Guard
	cd := cands[0]
	// the guards of the block (plus the branch of the block's own dominator chain)
	for _, g2 := range guardsNoExpand(cd.blk) {
		out = append(out, g2)
		out = append(out, impliedGuards(g2, depth+1)...)
	}
	if cd.val != nil {
		g2 := Guard{Cond: cd.val, Polarity: pol}
		out = append(out, g2)
		out = append(out, impliedGuards(g2, depth+1)...)
	}
	return out
}

// ImpliedGuards is the exported form of impliedGuards (what a predicate helper's result establishes).
func ImpliedGuards(g Guard) []Guard { return impliedGuards(g, 0) }

func guardsNoExpand(b *ssa.BasicBlock) []Guard {
	var out []Guard
	// include the edge into b itself when b has a single predecessor ending in an If
	for d := b.Idom(); d != nil; d = d.Idom() {
		ifi, ok := lastInstr(d).(*ssa.If)
		if !ok {
			continue
		}
		for k, s := range d.Succs {
			other := d.Succs[1-k]
			if s == other {
				continue
			}
			if len(s.Preds) == 1 && (s == b || s.Dominates(b)) {
				out = append(out, Guard{Cond: ifi.Cond, Polarity: k == 0, If: ifi})
			}
		}
	}
	return out
}

func sameModule(a, b *ssa.Function) bool {
	pa, pb := FuncPkg(a), FuncPkg(b)
	if pa == nil || pb == nil {
		return false
	}
	return strings.HasPrefix(pa.Path(), ModPath) && strings.HasPrefix(pb.Path(), ModPath)
}

// EdgeGuards returns the guards that hold when control flows along the edge from -> to (the
// guards of from, plus the branch of from itself).
func EdgeGuards(from, to *ssa.BasicBlock) []Guard {
	out := Guards(from)
	if ifi, ok := lastInstr(from).(*ssa.If); ok && from.Succs[0] != from.Succs[1] {
		if from.Succs[0] == to {
			out = append(out, Guard{Cond: ifi.Cond, Polarity: true, If: ifi})
		} else if from.Succs[1] == to {
			out = append(out, Guard{Cond: ifi.Cond, Polarity: false, If: ifi})
		}
	}
	return out
}

func lastInstr(b *ssa.BasicBlock) ssa.Instruction {
	if len(b.Instrs) == 0 {
		return nil
	}
	return b.Instrs[len(b.Instrs)-1]
}

// LastInstr exposes lastInstr.
func LastInstr(b *ssa.BasicBlock) ssa.Instruction { return lastInstr(b) }

// StripNot removes leading negations from a condition, flipping the polarity.
func StripNot(v ssa.Value, pol bool) (ssa.Value, bool) {
	for {
		u, ok := v.(*ssa.UnOp)
		if !ok || u.Op != token.NOT {
			return v, pol
		}
		v = u.X
		pol = !pol
	}
}

// ---------------------------------------------------------------------------------------------
// P3: reachability inside one function

// InstrIndex returns the index of in within its block.
func InstrIndex(in ssa.Instruction) int {
	for i, x := range in.Block().Instrs {
		if x == in {
			return i
		}
	}
	return -1
}

// Reach describes a reachability query over the instructions of one function.
type Reach struct {
	// Stop: paths end (without reaching anything further) at these instructions.
	Stop func(ssa.Instruction) bool
	// StopEdge: these CFG edges are removed.
	StopEdge func(from, to *ssa.BasicBlock) bool
	// StopPhi: a block whose branch is decided by a bool phi of its own (`x := a || b; if x`) is
	// entered from a predecessor on which the phi has the non-constant value val; the successor on
	// which val is `truth` is not followed when StopPhi(val, truth) is true.
	StopPhi func(val ssa.Value, truth bool) bool
	// Assume: bool values taken to have the given truth value on every path walked (a comparison that
	// is stored into a flag and branched on later is followed as if it had that value).
	Assume map[ssa.Value]bool
}

// FromInstr returns the set of instructions reachable strictly after start.
func (r Reach) FromInstr(start ssa.Instruction) map[ssa.Instruction]bool {
	seen := map[ssa.Instruction]bool{}
	r.walk(start.Block(), InstrIndex(start)+1, seen, map[*ssa.BasicBlock]bool{})
	return seen
}

// FromEdge returns the set of instructions reachable after taking the edge from->to.
func (r Reach) FromEdge(from, to *ssa.BasicBlock) map[ssa.Instruction]bool {
	seen := map[ssa.Instruction]bool{}
	if r.StopEdge != nil && r.StopEdge(from, to) {
		return seen
	}
	r.walkFrom(to, 0, from, seen, map[*ssa.BasicBlock]bool{})
	return seen
}

// FromEntry returns the set of instructions reachable from the function entry.
func (r Reach) FromEntry(fn *ssa.Function) map[ssa.Instruction]bool {
	seen := map[ssa.Instruction]bool{}
	if len(fn.Blocks) == 0 {
		return seen
	}
	r.walk(fn.Blocks[0], 0, seen, map[*ssa.BasicBlock]bool{})
	return seen
}

func (r Reach) walk(b *ssa.BasicBlock, from int, seen map[ssa.Instruction]bool, vis map[*ssa.BasicBlock]bool) {
	r.walkFrom(b, from, nil, seen, vis)
}

// phiEnv is the set of bool phis whose value is known on the path walked so far (a flag such as
// `ok := false; if c { ok = x == 0 }; if !ok { return }` is a chain of such phis).
type phiEnv map[*ssa.Phi]bool

func (e phiEnv) key() string {
	if len(e) == 0 {
		return ""
	}
	var ks []string
	for p, v := range e {
		ks = append(ks, fmt.Sprintf("%s=%v", p.Name(), v))
	}
	sort.Strings(ks)
	return strings.Join(ks, ",")
}

// boolPhisOfInterest: the bool phis of fn that decide a branch, directly or through other phis.
var boolPhiCache = map[*ssa.Function]map[*ssa.Phi]bool{}

func boolPhisOfInterest(fn *ssa.Function) map[*ssa.Phi]bool {
	if m, ok := boolPhiCache[fn]; ok {
		return m
	}
	m := map[*ssa.Phi]bool{}
	var add func(v ssa.Value, d int)
	add = func(v ssa.Value, d int) {
		if d > 6 {
			return
		}
		v, _ = StripNot(v, true)
		ph, ok := v.(*ssa.Phi)
		if !ok || m[ph] {
			return
		}
		if bt, ok := ph.Type().Underlying().(*types.Basic); !ok || bt.Info()&types.IsBoolean == 0 {
			return
		}
		m[ph] = true
		for _, e := range ph.Edges {
			add(e, d+1)
		}
	}
	for _, b := range fn.Blocks {
		if ifi, ok := lastInstr(b).(*ssa.If); ok {
			add(ifi.Cond, 0)
		}
	}
	boolPhiCache[fn] = m
	return m
}

// cmpPhis: the non-bool phis of fn that branches compare with one constant (`msg := ""; …; if msg != ""`),
// with that constant. The environment records for them whether the phi equals the constant.
var cmpPhiCache = map[*ssa.Function]map[*ssa.Phi]*ssa.Const{}

func cmpPhis(fn *ssa.Function) map[*ssa.Phi]*ssa.Const {
	if m, ok := cmpPhiCache[fn]; ok {
		return m
	}
	m := map[*ssa.Phi]*ssa.Const{}
	bad := map[*ssa.Phi]bool{}
	for _, b := range fn.Blocks {
		ifi, ok := lastInstr(b).(*ssa.If)
		if !ok {
			continue
		}
		c, _ := StripNot(ifi.Cond, true)
		ph, k := cmpPhiOf(c)
		if ph == nil {
			continue
		}
		if old, had := m[ph]; had && !sameConst(old, k) {
			bad[ph] = true
		}
		m[ph] = k
	}
	for ph := range bad {
		delete(m, ph)
	}
	cmpPhiCache[fn] = m
	return m
}

func sameConst(a, b *ssa.Const) bool {
	if a.Value == nil || b.Value == nil {
		return a.Value == nil && b.Value == nil
	}
	return a.Value.Kind() == b.Value.Kind() && constant.Compare(a.Value, token.EQL, b.Value)
}

// cmpPhiOf: c is `phi == K` or `phi != K` (either operand order) for a non-bool phi and a constant.
func cmpPhiOf(c ssa.Value) (*ssa.Phi, *ssa.Const) {
	bo, ok := c.(*ssa.BinOp)
	if !ok || (bo.Op != token.EQL && bo.Op != token.NEQ) {
		return nil, nil
	}
	if ph, ok := bo.X.(*ssa.Phi); ok {
		if k, ok := bo.Y.(*ssa.Const); ok {
			return ph, k
		}
	}
	if ph, ok := bo.Y.(*ssa.Phi); ok {
		if k, ok := bo.X.(*ssa.Const); ok {
			return ph, k
		}
	}
	return nil, nil
}

// enter computes the environment after entering block b from pred with environment env.
func (e phiEnv) enter(b, pred *ssa.BasicBlock, assume map[ssa.Value]bool) phiEnv {
	if pred == nil {
		return e
	}
	interest := boolPhisOfInterest(b.Parent())
	cmps := cmpPhis(b.Parent())
	if len(interest) == 0 && len(cmps) == 0 {
		return e
	}
	idx := -1
	for i, p := range b.Preds {
		if p == pred {
			idx = i
		}
	}
	var out phiEnv
	set := func(p *ssa.Phi, v, known bool) {
		if old, had := e[p]; had == known && (!known || old == v) {
			return
		}
		if out == nil {
			out = phiEnv{}
			for k, x := range e {
				out[k] = x
			}
		}
		if known {
			out[p] = v
		} else {
			delete(out, p)
		}
	}
	for _, in := range b.Instrs {
		ph, ok := in.(*ssa.Phi)
		if !ok {
			break
		}
		if k, isCmp := cmps[ph]; isCmp && idx >= 0 && idx < len(ph.Edges) {
			switch ev := ph.Edges[idx].(type) {
			case *ssa.Const:
				set(ph, sameConst(ev, k), true)
			case *ssa.Phi:
				cur := e
				if out != nil {
					cur = out
				}
				if k2, ok := cmps[ev]; ok && sameConst(k, k2) && ev != ph {
					if qv, known := cur[ev]; known {
						set(ph, qv, true)
						continue
					}
				}
				set(ph, false, false)
			default:
				set(ph, false, false)
			}
			continue
		}
		if !interest[ph] || idx < 0 || idx >= len(ph.Edges) {
			continue
		}
		v, pol := StripNot(ph.Edges[idx], true)
		if c, ok := ConstBool(v); ok {
			set(ph, c == pol, true)
		} else if a, ok := assume[v]; ok {
			set(ph, a == pol, true)
		} else if q, ok := v.(*ssa.Phi); ok {
			cur := e
			if out != nil {
				cur = out
			}
			if qv, known := cur[q]; known && q != ph {
				set(ph, qv == pol, true)
			} else {
				set(ph, false, false)
			}
		} else {
			set(ph, false, false)
		}
	}
	if out == nil {
		return e
	}
	return out
}

func (r Reach) walkFrom(b *ssa.BasicBlock, from int, pred0 *ssa.BasicBlock, seen map[ssa.Instruction]bool, vis map[*ssa.BasicBlock]bool) {
	type item struct {
		b    *ssa.BasicBlock
		from int
		pred *ssa.BasicBlock // the block we came from (nil at the start)
		env  phiEnv
	}
	// visited keys: a block is visited once per environment of known flag values, and a block whose
	// branch is decided by a bool phi of its own once per predecessor as well
	type key struct {
		b, pred *ssa.BasicBlock
		env     string
	}
	visK := map[key]bool{}
	work := []item{{b, from, pred0, phiEnv{}.enter(b, pred0, r.Assume)}}
	if from != 0 {
		work[0].env = nil
	}
	for len(work) > 0 {
		it := work[len(work)-1]
		work = work[:len(work)-1]
		phiBranch := phiDecidedBranch(it.b)
		if it.from == 0 {
			k := key{it.b, nil, it.env.key()}
			if phiBranch != nil {
				k.pred = it.pred
			}
			if visK[k] {
				continue
			}
			visK[k] = true
			vis[it.b] = true
		}
		stopped := false
		for i := it.from; i < len(it.b.Instrs); i++ {
			in := it.b.Instrs[i]
			seen[in] = true
			if r.Stop != nil && r.Stop(in) {
				stopped = true
				break
			}
		}
		if stopped {
			continue
		}
		// a branch on a flag whose value is known on this path
		known, kv := false, false
		if ifi, ok := lastInstr(it.b).(*ssa.If); ok {
			c, pol := StripNot(ifi.Cond, true)
			if ph, ok := c.(*ssa.Phi); ok {
				if v, ok := it.env[ph]; ok {
					known, kv = true, v == pol
				}
			}
			if v, ok := r.Assume[c]; ok {
				known, kv = true, v == pol
			}
			if ph, k := cmpPhiOf(c); ph != nil && !known {
				if k0, isCmp := cmpPhis(it.b.Parent())[ph]; isCmp && sameConst(k0, k) {
					if eq, ok := it.env[ph]; ok {
						truth := eq == (c.(*ssa.BinOp).Op == token.EQL)
						known, kv = true, truth == pol
					}
				}
			}
		}
		for si, s := range it.b.Succs {
			if r.StopEdge != nil && r.StopEdge(it.b, s) {
				continue
			}
			if known && ((kv && si != 0) || (!kv && si != 1)) {
				continue
			}
			// `x := a || b; if x {…}`: the value of the phi on the edge we came in by decides the branch
			if !known && phiBranch != nil && it.pred != nil && it.from == 0 {
				if v, ok := phiConstFrom(phiBranch, it.b, it.pred); ok {
					if (v && si != 0) || (!v && si != 1) {
						continue
					}
				} else if r.StopPhi != nil {
					ifi := lastInstr(it.b).(*ssa.If)
					_, pol := StripNot(ifi.Cond, true)
					for pi, p := range it.b.Preds {
						if p == it.pred && pi < len(phiBranch.Edges) {
							if r.StopPhi(phiBranch.Edges[pi], (si == 0) == pol) {
								goto nextSucc
							}
						}
					}
				}
			}
			work = append(work, item{s, 0, it.b, it.env.enter(s, it.b, r.Assume)})
		nextSucc:
		}
	}
}

// phiDecidedBranch returns the bool phi that decides the If terminating b when that phi is defined
// in b itself (the SSA form of `x := a || b; if x`), else nil.
func phiDecidedBranch(b *ssa.BasicBlock) *ssa.Phi {
	ifi, ok := lastInstr(b).(*ssa.If)
	if !ok {
		return nil
	}
	c, _ := StripNot(ifi.Cond, true)
	ph, ok := c.(*ssa.Phi)
	if !ok || ph.Block() != b {
		return nil
	}
	return ph
}

// phiConstFrom: the constant truth value of the branch condition of b (decided by phi ph, possibly
// negated) when b is entered from pred.
func phiConstFrom(ph *ssa.Phi, b, pred *ssa.BasicBlock) (bool, bool) {
	ifi := lastInstr(b).(*ssa.If)
	_, pol := StripNot(ifi.Cond, true)
	for i, p := range b.Preds {
		if p == pred && i < len(ph.Edges) {
			if v, ok := ConstBool(ph.Edges[i]); ok {
				return v == pol, true
			}
		}
	}
	return false, false
}

// Returns lists the return instructions of fn.
func Returns(fn *ssa.Function) []*ssa.Return {
	var out []*ssa.Return
	for _, b := range fn.Blocks {
		if r, ok := lastInstr(b).(*ssa.Return); ok {
			out = append(out, r)
		}
	}
	return out
}

// DominatesInstr reports whether instruction a dominates instruction b (same function).
func DominatesInstr(a, b ssa.Instruction) bool {
	if a.Block() == b.Block() {
		return InstrIndex(a) < InstrIndex(b)
	}
	return a.Block().Dominates(b.Block())
}

// ---------------------------------------------------------------------------------------------
// P4: value origins

// Origin kinds.
const (
	OParam   = "param"
	OCall    = "call"
	OConst   = "const"
	OGlobal  = "global"
	OField   = "field"
	OAlloc   = "alloc"
	OFree    = "freevar"
	OOther   = "other"
	OClosure = "closure"
	OBinOp   = "binop"
)

// Origin is one leaf of a backward slice.
type Origin struct {
	Kind  string
	Val   ssa.Value
	Param *ssa.Parameter
	Call  *ssa.Call
	Res   int // result index for calls (-1 = whole)
	Field string
	Of    *Origin // for fields: origin of the base (single-step)
}

// SliceOpts tunes Origins.
type SliceOpts struct {
	// Through: calls treated as pass-through of given argument indices (receiver = 0 for methods).
	Through func(c *ssa.Call) []int
	// FieldsThrough: if true, field loads x.f continue into x (recording nothing); default records
	// a field origin and stops.
	FieldsThrough bool
	// MaxNodes bounds the walk.
	MaxNodes int
	// Helpers: functions treated as one unit with the function under analysis (see Helpers): the
	// result of a call of one of them continues into its returned values, a parameter of one of them
	// continues into the arguments at its call sites inside the set.
	Helpers map[*ssa.Function]bool
	// Callers: the functions searched for call sites of a helper whose parameter is looked through
	// (default: Helpers).
	Callers map[*ssa.Function]bool
}

// Origins computes the origin set of v by walking backwards through phis, conversions,
// extractions, interface boxing, and loads of local cells (resolved to all stores to the cell).
func Origins(v ssa.Value, opt SliceOpts) []Origin {
	var out []Origin
	seen := map[ssa.Value]bool{}
	max := opt.MaxNodes
	if max == 0 {
		max = 4000
	}
	var walk func(v ssa.Value, res int)
	walk = func(v ssa.Value, res int) {
		if v == nil || seen[v] {
			return
		}
		if len(seen) > max {
			out = append(out, Origin{Kind: OOther, Val: v})
			return
		}
		seen[v] = true
		switch x := v.(type) {
		case *ssa.Phi:
			for _, e := range x.Edges {
				walk(e, res)
			}
		case *ssa.Extract:
			if c, ok := x.Tuple.(*ssa.Call); ok {
				if opt.Through != nil {
					if idx := opt.Through(c); idx != nil {
						for _, i := range idx {
							walk(callArg(c, i), -1)
						}
						return
					}
				}
				if g := c.Call.StaticCallee(); g != nil && opt.Helpers[g] && len(g.Blocks) > 0 {
					for _, ret := range Returns(g) {
						if x.Index < len(ret.Results) {
							walk(ReturnOperand(ret, x.Index), -1)
						}
					}
					return
				}
				out = append(out, Origin{Kind: OCall, Val: v, Call: c, Res: x.Index})
				return
			}
			walk(x.Tuple, x.Index)
		case *ssa.ChangeType:
			walk(x.X, res)
		case *ssa.Convert:
			walk(x.X, res)
		case *ssa.ChangeInterface:
			walk(x.X, res)
		case *ssa.MakeInterface:
			walk(x.X, res)
		case *ssa.TypeAssert:
			walk(x.X, res)
		case *ssa.Slice:
			walk(x.X, res)
		case *ssa.SliceToArrayPointer:
			walk(x.X, res)
		case *ssa.UnOp:
			if x.Op == token.MUL {
				// load
				switch a := x.X.(type) {
				case *ssa.Alloc:
					n := 0
					for _, st := range reachingStores(x, a) {
						walk(st.Val, res)
						n++
					}
					if n == 0 {
						out = append(out, Origin{Kind: OAlloc, Val: a})
					}
				case *ssa.FreeVar:
					// resolve through the enclosing function's binding when it is a cell
					if cell := freeVarBinding(a); cell != nil {
						if al, ok := cell.(*ssa.Alloc); ok {
							n := 0
							for _, st := range storesToAnywhere(al) {
								walk(st.Val, res)
								n++
							}
							if n == 0 {
								out = append(out, Origin{Kind: OAlloc, Val: al})
							}
							return
						}
						walk(cell, res)
						return
					}
					out = append(out, Origin{Kind: OFree, Val: a})
				case *ssa.Global:
					out = append(out, Origin{Kind: OGlobal, Val: a})
				case *ssa.FieldAddr:
					if opt.FieldsThrough {
						walk(x.X, res)
						return
					}
					out = append(out, Origin{Kind: OField, Val: v, Field: fieldName(a.X.Type(), a.Field)})
				case *ssa.IndexAddr:
					walk(a.X, res)
				default:
					walk(x.X, res)
				}
				return
			}
			walk(x.X, res)
		case *ssa.FieldAddr:
			if opt.FieldsThrough {
				walk(x.X, res)
				return
			}
			out = append(out, Origin{Kind: OField, Val: v, Field: fieldName(x.X.Type(), x.Field)})
		case *ssa.Field:
			if opt.FieldsThrough {
				walk(x.X, res)
				return
			}
			out = append(out, Origin{Kind: OField, Val: v, Field: fieldName(x.X.Type(), x.Field)})
		case *ssa.IndexAddr:
			walk(x.X, res)
		case *ssa.Index:
			walk(x.X, res)
		case *ssa.Lookup:
			walk(x.X, res)
		case *ssa.Alloc:
			n := 0
			for _, st := range storesTo(x) {
				walk(st.Val, res)
				n++
			}
			if n == 0 {
				out = append(out, Origin{Kind: OAlloc, Val: x})
			}
		case *ssa.Call:
			if opt.Through != nil {
				if idx := opt.Through(x); idx != nil {
					for _, i := range idx {
						walk(callArg(x, i), -1)
					}
					return
				}
			}
			if g := x.Call.StaticCallee(); g != nil && opt.Helpers[g] && len(g.Blocks) > 0 && g.Signature.Results().Len() == 1 {
				for _, ret := range Returns(g) {
					if len(ret.Results) == 1 {
						walk(ReturnOperand(ret, 0), -1)
					}
				}
				return
			}
			out = append(out, Origin{Kind: OCall, Val: v, Call: x, Res: res})
		case *ssa.Parameter:
			if h := x.Parent(); h != nil && opt.Helpers[h] {
				idx := -1
				for i, q := range h.Params {
					if q == x {
						idx = i
					}
				}
				n := 0
				callers := opt.Callers
				if callers == nil {
					callers = opt.Helpers
				}
				for f := range callers {
					if f == h {
						continue
					}
					for _, b := range f.Blocks {
						for _, in := range b.Instrs {
							if c, ok := in.(*ssa.Call); ok && c.Call.StaticCallee() == h && idx >= 0 {
								walk(callArg(c, idx), -1)
								n++
							}
						}
					}
				}
				if n > 0 {
					return
				}
			}
			out = append(out, Origin{Kind: OParam, Val: v, Param: x})
		case *ssa.FreeVar:
			if cell := freeVarBinding(x); cell != nil {
				walk(cell, res)
				return
			}
			out = append(out, Origin{Kind: OFree, Val: v})
		case *ssa.Const:
			out = append(out, Origin{Kind: OConst, Val: v})
		case *ssa.Global:
			out = append(out, Origin{Kind: OGlobal, Val: v})
		case *ssa.MakeClosure:
			out = append(out, Origin{Kind: OClosure, Val: v})
		case *ssa.Function:
			out = append(out, Origin{Kind: OClosure, Val: v})
		case *ssa.BinOp:
			out = append(out, Origin{Kind: OBinOp, Val: v})
		default:
			out = append(out, Origin{Kind: OOther, Val: v})
		}
	}
	walk(v, -1)
	return out
}

// callArg returns argument i of a call where for invoke-mode calls index 0 is the receiver.
func callArg(c *ssa.Call, i int) ssa.Value {
	cc := c.Common()
	if cc.IsInvoke() {
		if i == 0 {
			return cc.Value
		}
		i--
	}
	if i < len(cc.Args) {
		return cc.Args[i]
	}
	return nil
}

// CallArg exposes callArg for any call instruction (receiver = index 0 for methods).
func CallArg(c ssa.CallInstruction, i int) ssa.Value {
	cc := c.Common()
	if cc.IsInvoke() {
		if i == 0 {
			return cc.Value
		}
		i--
	}
	if i >= 0 && i < len(cc.Args) {
		return cc.Args[i]
	}
	return nil
}

// storesTo returns the stores whose address is exactly the alloc (whole-cell stores) in the
// alloc's function.
func storesTo(a *ssa.Alloc) []*ssa.Store {
	var out []*ssa.Store
	for _, r := range *a.Referrers() {
		if st, ok := r.(*ssa.Store); ok && st.Addr == a {
			out = append(out, st)
		}
	}
	return out
}

// storesToAnywhere also finds stores made by nested closures through free variables.
func storesToAnywhere(a *ssa.Alloc) []*ssa.Store {
	out := storesTo(a)
	for _, r := range *a.Referrers() {
		if mc, ok := r.(*ssa.MakeClosure); ok {
			fn := mc.Fn.(*ssa.Function)
			for i, b := range mc.Bindings {
				if b == a && i < len(fn.FreeVars) {
					out = append(out, freeVarStores(fn, fn.FreeVars[i])...)
				}
			}
		}
	}
	return out
}

func freeVarStores(fn *ssa.Function, fv *ssa.FreeVar) []*ssa.Store {
	var out []*ssa.Store
	for _, r := range *fv.Referrers() {
		switch x := r.(type) {
		case *ssa.Store:
			if x.Addr == fv {
				out = append(out, x)
			}
		case *ssa.MakeClosure:
			inner := x.Fn.(*ssa.Function)
			for i, b := range x.Bindings {
				if b == fv && i < len(inner.FreeVars) {
					out = append(out, freeVarStores(inner, inner.FreeVars[i])...)
				}
			}
		}
	}
	return out
}

// StoresToCell returns every store to a local cell including those made by closures.
func StoresToCell(a *ssa.Alloc) []*ssa.Store { return storesToAnywhere(a) }

// freeVarBinding returns the value bound to a free variable when the enclosing function has
// exactly one MakeClosure for the literal.
func freeVarBinding(fv *ssa.FreeVar) ssa.Value {
	fn := fv.Parent()
	par := fn.Parent()
	if par == nil {
		return nil
	}
	idx := -1
	for i, f := range fn.FreeVars {
		if f == fv {
			idx = i
		}
	}
	if idx < 0 {
		return nil
	}
	var found ssa.Value
	n := 0
	for _, b := range par.Blocks {
		for _, in := range b.Instrs {
			if mc, ok := in.(*ssa.MakeClosure); ok && mc.Fn == fn {
				n++
				if idx < len(mc.Bindings) {
					found = mc.Bindings[idx]
				}
			}
		}
	}
	if n == 1 {
		return found
	}
	return nil
}

// FreeVarBinding exposes freeVarBinding.
func FreeVarBinding(fv *ssa.FreeVar) ssa.Value { return freeVarBinding(fv) }

func fieldName(t types.Type, idx int) string {
	if p, ok := t.Underlying().(*types.Pointer); ok {
		t = p.Elem()
	}
	st, ok := t.Underlying().(*types.Struct)
	if !ok || idx >= st.NumFields() {
		return "?"
	}
	name := st.Field(idx).Name()
	if len(FieldAlias) > 0 {
		if n := NamedOf(t); n != nil && n.Obj().Pkg() != nil {
			if a, ok := FieldAlias[n.Obj().Pkg().Path()+"."+TypeCanon(n)+"."+name]; ok {
				return a
			}
		}
	}
	return name
}

// FieldAlias maps "package path.Type.current field name" of a renamed unexported field to the name
// the rules know it by (filled by the rules' role resolver).
var FieldAlias = map[string]string{}

// FieldName returns the name of field idx of the struct (or pointer-to-struct) type t.
func FieldName(t types.Type, idx int) string { return fieldName(t, idx) }

// FieldAddrInfo describes a field address: the struct's named type and the field name.
func FieldAddrInfo(fa *ssa.FieldAddr) (*types.Named, string) {
	t := fa.X.Type()
	if p, ok := t.Underlying().(*types.Pointer); ok {
		t = p.Elem()
	}
	return NamedOf(t), fieldName(fa.X.Type(), fa.Field)
}

// HasOrigin reports whether any origin satisfies pred.
func HasOrigin(os []Origin, pred func(Origin) bool) bool {
	for _, o := range os {
		if pred(o) {
			return true
		}
	}
	return false
}

// AllOrigins reports whether all origins satisfy pred (and there is at least one).
func AllOrigins(os []Origin, pred func(Origin) bool) bool {
	if len(os) == 0 {
		return false
	}
	for _, o := range os {
		if !pred(o) {
			return false
		}
	}
	return true
}

// OriginCallee returns the callee of a call origin.
func (o Origin) Callee() *types.Func {
	if o.Kind != OCall || o.Call == nil {
		return nil
	}
	return Callee(o.Call)
}

// Describe renders an origin for reports.
func (o Origin) Describe() string {
	switch o.Kind {
	case OParam:
		return "param " + o.Param.Name()
	case OCall:
		if c := o.Callee(); c != nil {
			return "call " + shortFunc(c)
		}
		return "call <dynamic>"
	case OConst:
		return "const " + o.Val.String()
	case OField:
		return "field " + o.Field
	case OGlobal:
		return "global " + o.Val.Name()
	default:
		return o.Kind + " " + o.Val.String()
	}
}

func shortFunc(f *types.Func) string {
	s := f.FullName()
	s = strings.ReplaceAll(s, ModPath+"/", "")
	return s
}

// ShortFunc renders a types.Func without the module prefix.
func ShortFunc(f *types.Func) string { return shortFunc(f) }

// ReturnOperand resolves result i of a return instruction. go/ssa spills the results of functions
// that defer closures through result cells (`*t = v; rundefers; r = *t; return r`); the value stored
// last in the returning block is returned instead of the load.
func ReturnOperand(ret *ssa.Return, i int) ssa.Value {
	if i >= len(ret.Results) {
		return nil
	}
	v := ret.Results[i]
	u, ok := v.(*ssa.UnOp)
	if !ok || u.Op != token.MUL {
		return v
	}
	cell, ok := u.X.(*ssa.Alloc)
	if !ok {
		return v
	}
	instrs := ret.Block().Instrs
	for k := len(instrs) - 1; k >= 0; k-- {
		if st, ok := instrs[k].(*ssa.Store); ok && st.Addr == cell {
			return st.Val
		}
	}
	return v
}

// acyclicReach returns the blocks reachable from b when back edges (edges to a dominator) are
// removed: "later in the same loop iteration".
func acyclicReach(b *ssa.BasicBlock) map[*ssa.BasicBlock]bool {
	seen := map[*ssa.BasicBlock]bool{}
	stack := []*ssa.BasicBlock{b}
	for len(stack) > 0 {
		x := stack[len(stack)-1]
		stack = stack[:len(stack)-1]
		if seen[x] {
			continue
		}
		seen[x] = true
		for _, s := range x.Succs {
			if s.Dominates(x) {
				continue // back edge
			}
			stack = append(stack, s)
		}
	}
	return seen
}

// ControlDeps returns the If instructions on which the execution of `in` depends within one loop
// iteration: branches with one successor from which in's block is reachable (back edges removed) and
// one from which it is not.
func ControlDeps(in ssa.Instruction) []*ssa.If {
	var out []*ssa.If
	target := in.Block()
	for _, b := range in.Parent().Blocks {
		ifi, ok := lastInstr(b).(*ssa.If)
		if !ok || len(b.Succs) != 2 || b.Succs[0] == b.Succs[1] {
			continue
		}
		r0 := !b.Succs[0].Dominates(b) && acyclicReach(b.Succs[0])[target]
		r1 := !b.Succs[1].Dominates(b) && acyclicReach(b.Succs[1])[target]
		if r0 != r1 {
			out = append(out, ifi)
		}
	}
	return out
}

// reachingStores returns the whole-cell stores to local cell a that can reach the load `at`
// (flow-sensitive reaching definitions). If the cell escapes (captured by a closure or its address
// passed to a call) every store is returned.
func reachingStores(at ssa.Instruction, a *ssa.Alloc) []*ssa.Store {
	all := storesTo(a)
	for _, r := range *a.Referrers() {
		switch x := r.(type) {
		case *ssa.Store:
			if x.Val == ssa.Value(a) {
				return storesToAnywhere(a) // address stored somewhere
			}
		case *ssa.UnOp, *ssa.FieldAddr, *ssa.IndexAddr, *ssa.DebugRef:
		default:
			return storesToAnywhere(a) // call argument, closure binding, …
		}
	}
	isStore := map[ssa.Instruction]*ssa.Store{}
	for _, st := range all {
		isStore[st] = st
	}
	var out []*ssa.Store
	seenB := map[*ssa.BasicBlock]bool{}
	var back func(b *ssa.BasicBlock, from int)
	back = func(b *ssa.BasicBlock, from int) {
		for i := from; i >= 0; i-- {
			if st := isStore[b.Instrs[i]]; st != nil {
				out = append(out, st)
				return
			}
		}
		for _, p := range b.Preds {
			if seenB[p] {
				continue
			}
			seenB[p] = true
			back(p, len(p.Instrs)-1)
		}
	}
	back(at.Block(), InstrIndex(at)-1)
	return out
}

// ReachingStores is the exported form of reachingStores.
func ReachingStores(at ssa.Instruction, a *ssa.Alloc) []*ssa.Store { return reachingStores(at, a) }

// BlockPath is a sequence of blocks.
type BlockPath []*ssa.BasicBlock

// EnumPaths enumerates the acyclic block paths that start with the edge from->to and end in a block
// whose last instruction is a Return. It gives up (ok=false) beyond max paths or when a cycle is met.
func EnumPaths(from, to *ssa.BasicBlock, max int) (paths []BlockPath, ok bool) {
	ok = true
	var cur BlockPath
	onPath := map[*ssa.BasicBlock]bool{}
	var walk func(b *ssa.BasicBlock)
	walk = func(b *ssa.BasicBlock) {
		if !ok {
			return
		}
		if onPath[b] {
			ok = false // cycle
			return
		}
		cur = append(cur, b)
		onPath[b] = true
		if _, isRet := lastInstr(b).(*ssa.Return); isRet {
			cp := make(BlockPath, len(cur))
			copy(cp, cur)
			paths = append(paths, cp)
			if len(paths) > max {
				ok = false
			}
		} else {
			for _, s := range b.Succs {
				walk(s)
			}
		}
		onPath[b] = false
		cur = cur[:len(cur)-1]
	}
	cur = append(cur, from)
	onPath[from] = true
	walk(to)
	return paths, ok
}

// PhiOnPath resolves value v along a block path: phis are replaced by the edge value selected by
// the predecessor on the path (repeatedly); a load of a local cell (a named result that a defer
// forces into memory) is replaced by the value of the last store to the cell on the path.
func PhiOnPath(v ssa.Value, path BlockPath) ssa.Value {
	for i := 0; i < 16; i++ {
		if ld, isLoad := v.(*ssa.UnOp); isLoad && ld.Op == token.MUL {
			if cell, isCell := ld.X.(*ssa.Alloc); isCell {
				if sv := lastStoreOnPath(cell, ld, path); sv != nil {
					v = sv
					continue
				}
			}
			return v
		}
		phi, ok := v.(*ssa.Phi)
		if !ok {
			return v
		}
		idx := -1
		for k, b := range path {
			if b == phi.Block() {
				idx = k
			}
		}
		if idx <= 0 {
			return v
		}
		pred := path[idx-1]
		found := false
		for k, pb := range phi.Block().Preds {
			if pb == pred {
				v = phi.Edges[k]
				found = true
				break
			}
		}
		if !found {
			return v
		}
	}
	return v
}

// EdgeTaken reports, for an If-terminated block on the path, which successor index the path takes
// (-1 if the block is not on the path or is last).
func EdgeTaken(path BlockPath, b *ssa.BasicBlock) int {
	for k, x := range path {
		if x == b && k+1 < len(path) {
			for i, s := range b.Succs {
				if s == path[k+1] {
					return i
				}
			}
		}
	}
	return -1
}

// lastStoreOnPath: the value of the last whole-cell store to cell that precedes the load on the path
// (nil when there is none on the path).
func lastStoreOnPath(cell *ssa.Alloc, load ssa.Instruction, path BlockPath) ssa.Value {
	end := -1
	for k, b := range path {
		if b == load.Block() {
			end = k
		}
	}
	if end < 0 {
		return nil
	}
	for k := end; k >= 0; k-- {
		instrs := path[k].Instrs
		hi := len(instrs)
		if k == end {
			hi = InstrIndex(load)
		}
		for j := hi - 1; j >= 0; j-- {
			if st, ok := instrs[j].(*ssa.Store); ok && st.Addr == ssa.Value(cell) {
				return st.Val
			}
		}
	}
	return nil
}

// StoresToCellFields returns the values stored into fields of a local struct cell (a composite
// literal under construction): every `cell.f = v`.
func StoresToCellFields(a *ssa.Alloc) []ssa.Value {
	var out []ssa.Value
	if a.Referrers() == nil {
		return nil
	}
	for _, r := range *a.Referrers() {
		fa, ok := r.(*ssa.FieldAddr)
		if !ok || fa.Referrers() == nil {
			continue
		}
		for _, u := range *fa.Referrers() {
			if st, ok := u.(*ssa.Store); ok && st.Addr == ssa.Value(fa) {
				out = append(out, st.Val)
			}
		}
	}
	return out
}

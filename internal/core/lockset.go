package core

import (
	"fmt"
	"go/token"
	"go/types"
	"os"
	"sort"

	"golang.org/x/tools/go/ssa"
)

// P7: must-hold analysis for one mutex identity (struct type, field).

// LockID identifies a mutex by the struct type that embeds it and the field name. All users in this
// code base reach the mutex through their own receiver, so the instance is not tracked.
type LockID struct {
	T     *types.Named
	Field string
}

// Same compares two lock identities; generic types are compared by their origin (every method of a
// generic type has its own type parameter, hence its own instantiation of the receiver type).
func (l LockID) Same(o LockID) bool {
	if l.T == nil || o.T == nil {
		return false
	}
	return l.Field == o.Field && l.T.Origin() == o.T.Origin()
}

func (l LockID) String() string {
	if l.T == nil {
		return "?"
	}
	return l.T.Obj().Name() + "." + l.Field
}

// MutexOp classifies a call instruction as an operation on a sync.Mutex / sync.RWMutex field.
// op is "lock", "unlock" or "".
func MutexOp(c ssa.CallInstruction) (LockID, string) {
	cal := Callee(c)
	if cal == nil || cal.Pkg() == nil || cal.Pkg().Path() != "sync" {
		return LockID{}, ""
	}
	op := ""
	switch cal.Name() {
	case "Lock", "RLock":
		op = "lock"
	case "Unlock", "RUnlock":
		op = "unlock"
	default:
		return LockID{}, ""
	}
	if !IsMethod(cal, "sync", "Mutex", cal.Name()) && !IsMethod(cal, "sync", "RWMutex", cal.Name()) {
		return LockID{}, ""
	}
	recv := CallArg(c, 0)
	fa, ok := recv.(*ssa.FieldAddr)
	if !ok {
		return LockID{}, ""
	}
	n, f := FieldAddrInfo(fa)
	if n == nil {
		return LockID{}, ""
	}
	return LockID{T: n, Field: f}, op
}

// LState is the lock state at a program point.
type LState int

// Lock states.
const (
	LUnreached LState = iota
	LNotHeld
	LHeld
	LMixed
)

func (s LState) String() string {
	return [...]string{"unreached", "not-held", "held", "maybe-held"}[s]
}

func joinL(a, b LState) LState {
	switch {
	case a == LUnreached:
		return b
	case b == LUnreached:
		return a
	case a == b:
		return a
	}
	return LMixed
}

// LockProblem is a finding of the lock analysis.
type LockProblem struct {
	Kind   string // "unprotected", "double-lock", "acquire-while-held", "unlock-in-required", "leak", "undecided-flag"
	Fn     *ssa.Function
	At     ssa.Instruction
	Detail string
}

// LockSpec configures the analysis.
type LockSpec struct {
	ID LockID
	// Funcs is the scope (usually all functions of one package, closures included).
	Funcs []*ssa.Function
	// Protected marks base operations that need the lock.
	Protected func(in ssa.Instruction) (string, bool)
	// Entry marks functions that must not require the lock from their callers (API entry points).
	Entry func(fn *ssa.Function) bool
}

// scopeCallee resolves the statically called function of c to a function of the analysed scope;
// calls that go through generic instantiation wrappers are mapped back by their method object.
func (li *LockInfo) scopeCallee(c ssa.CallInstruction, inScope map[*ssa.Function]bool) *ssa.Function {
	g := c.Common().StaticCallee()
	if g == nil {
		return nil
	}
	if inScope[g] {
		return g
	}
	if o := g.Origin(); o != nil && inScope[o] {
		return o
	}
	if cal := Callee(c); cal != nil {
		if f := li.byObj[cal]; f != nil {
			return f
		}
	}
	return nil
}

// LockInfo is the result.
type LockInfo struct {
	byObj    map[*types.Func]*ssa.Function
	Spec     LockSpec
	Requires map[*ssa.Function]bool // function must be called with the lock held
	Acquires map[*ssa.Function]bool // function takes the lock itself (on some path) when entered without it
	FlagOf   map[*ssa.Function]*ssa.Parameter
	// Handoff: functions that take the lock and hand its release to the caller: they return (with the
	// lock held) a function value that unlocks it — `func (x *T) lock() func() { x.mu.Lock(); return x.mu.Unlock }`.
	Handoff  map[*ssa.Function]bool
	states   map[lockCtx]map[ssa.Instruction]LState
	Problems []LockProblem
	// Ops lists every protected operation found with the state it executes in (final contexts).
	Ops []LockOp
}

// LockOp is one protected operation with its decided state.
type LockOp struct {
	Fn    *ssa.Function
	At    ssa.Instruction
	What  string
	State LState
	Ctx   string
}

type lockCtx struct {
	fn   *ssa.Function
	flag int  // -1: no flag parameter; 0: flag=false; 1: flag=true
	held bool // entry state
}

// AnalyzeLocks runs the analysis.
func AnalyzeLocks(spec LockSpec) *LockInfo {
	li := &LockInfo{Spec: spec, Requires: map[*ssa.Function]bool{}, Acquires: map[*ssa.Function]bool{},
		FlagOf: map[*ssa.Function]*ssa.Parameter{}, Handoff: map[*ssa.Function]bool{}, states: map[lockCtx]map[ssa.Instruction]LState{}}
	inScope := map[*ssa.Function]bool{}
	li.byObj = map[*types.Func]*ssa.Function{}
	for _, f := range spec.Funcs {
		inScope[f] = true
		if o, ok := f.Object().(*types.Func); ok && o != nil && f.Parent() == nil {
			li.byObj[o.Origin()] = f
		}
	}
	// 1. flag parameters: a bool parameter p with a Lock(L) call guarded by (p == false)
	for _, f := range spec.Funcs {
		for _, b := range f.Blocks {
			for _, in := range b.Instrs {
				c, ok := in.(ssa.CallInstruction)
				if !ok {
					continue
				}
				id, op := MutexOp(c)
				if op != "lock" || !id.Same(spec.ID) {
					continue
				}
				li.Acquires[f] = true
				for _, g := range Guards(b) {
					cnd, pol := StripNot(g.Cond, g.Polarity)
					if pr, ok := cnd.(*ssa.Parameter); ok && !pol {
						if bt, ok := pr.Type().Underlying().(*types.Basic); ok && bt.Kind() == types.Bool {
							li.FlagOf[f] = pr
						}
					}
				}
			}
		}
	}
	// 1a. forwarding: a function that hands its own bool parameter on as the flag of a flag function
	// has that parameter as its flag (`func (o *T) lookup(r, locked bool) { … o.readIndex(r, locked) … }`)
	for changed := true; changed; {
		changed = false
		for _, f := range spec.Funcs {
			if li.FlagOf[f] != nil {
				continue
			}
			for _, b := range f.Blocks {
				for _, in := range b.Instrs {
					c, ok := in.(ssa.CallInstruction)
					if !ok {
						continue
					}
					g := li.scopeCallee(c, inScope)
					if g == nil || g == f {
						continue
					}
					fp := li.FlagOf[g]
					if fp == nil {
						continue
					}
					for i, q := range g.Params {
						if q != fp || i >= len(c.Common().Args) {
							continue
						}
						if pr, ok := c.Common().Args[i].(*ssa.Parameter); ok && pr.Parent() == f {
							li.FlagOf[f] = pr
							changed = true
						}
					}
				}
			}
		}
	}
	// 1b. hand-off wrappers
	for _, f := range spec.Funcs {
		if li.Acquires[f] && li.FlagOf[f] == nil && isHandoff(f, spec.ID) {
			li.Handoff[f] = true
		}
	}
	// 2. fixpoint on Requires for non-flag functions
	for changed := true; changed; {
		changed = false
		for _, f := range spec.Funcs {
			if li.FlagOf[f] != nil || li.Requires[f] || li.isEntry(f) {
				continue
			}
			st := li.run(lockCtx{fn: f, flag: -1, held: false}, inScope, nil)
			need := false
			li.forOps(f, lockCtx{fn: f, flag: -1}, inScope, func(in ssa.Instruction, what string) {
				if st[in] != LHeld && st[in] != LUnreached {
					need = true
					if os.Getenv("RCVERIF_DEBUG_LOCK") != "" {
						fmt.Fprintln(os.Stderr, "lock-need", f.Name(), what, st[in], in)
					}
				}
			})
			if need {
				li.Requires[f] = true
				changed = true
			}
		}
	}
	// 3. final pass: problems and op table
	for _, f := range spec.Funcs {
		var ctxs []lockCtx
		switch {
		case li.FlagOf[f] != nil:
			ctxs = []lockCtx{{fn: f, flag: 0, held: false}, {fn: f, flag: 1, held: true}}
		case li.Requires[f]:
			ctxs = []lockCtx{{fn: f, flag: -1, held: true}}
		default:
			ctxs = []lockCtx{{fn: f, flag: -1, held: false}}
		}
		for _, cx := range ctxs {
			st := li.run(cx, inScope, &li.Problems)
			li.states[cx] = st
			cname := "entry " + map[bool]string{true: "held", false: "not held"}[cx.held]
			if cx.flag >= 0 {
				cname += ", " + li.FlagOf[f].Name() + "=" + map[int]string{0: "false", 1: "true"}[cx.flag]
			}
			li.forOps(f, cx, inScope, func(in ssa.Instruction, what string) {
				s := st[in]
				if s == LUnreached {
					return
				}
				li.Ops = append(li.Ops, LockOp{Fn: f, At: in, What: what, State: s, Ctx: cname})
				if s != LHeld {
					li.Problems = append(li.Problems, LockProblem{Kind: "unprotected", Fn: f, At: in,
						Detail: what + " executes with " + spec.ID.String() + " " + s.String() + " (" + cname + ")"})
				}
			})
		}
	}
	sort.SliceStable(li.Problems, func(i, j int) bool { return li.Problems[i].At.Pos() < li.Problems[j].At.Pos() })
	return li
}

// isEntry: API entry points and function literals (which run at an arbitrary later time) cannot rely
// on a caller holding the lock; their unprotected operations are reported where they occur.
func (li *LockInfo) isEntry(f *ssa.Function) bool {
	if f.Parent() != nil {
		return true
	}
	return li.Spec.Entry != nil && li.Spec.Entry(f)
}

func firstInstr(f *ssa.Function) ssa.Instruction {
	for _, b := range f.Blocks {
		for _, in := range b.Instrs {
			return in
		}
	}
	return nil
}

// forOps enumerates the protected operations of f under context cx: base operations, calls with
// flag=true, calls of functions that require the lock.
func (li *LockInfo) forOps(f *ssa.Function, cx lockCtx, inScope map[*ssa.Function]bool, visit func(in ssa.Instruction, what string)) {
	for _, b := range f.Blocks {
		for _, in := range b.Instrs {
			if li.Spec.Protected != nil {
				if what, ok := li.Spec.Protected(in); ok {
					visit(in, what)
				}
			}
			c, ok := in.(ssa.CallInstruction)
			if !ok {
				continue
			}
			if _, isGo := in.(*ssa.Go); isGo {
				continue
			}
			g := li.scopeCallee(c, inScope)
			if g == nil {
				continue
			}
			if fp := li.FlagOf[g]; fp != nil {
				v, known := li.flagArg(c, g, fp, cx)
				if known && v {
					visit(in, "call "+g.Name()+"("+fp.Name()+"=true)")
				}
			} else if li.Requires[g] {
				visit(in, "call "+g.Name()+" (requires the lock)")
			}
		}
	}
}

// flagArg evaluates the flag argument of a call under the caller's context.
func (li *LockInfo) flagArg(c ssa.CallInstruction, g *ssa.Function, fp *ssa.Parameter, cx lockCtx) (bool, bool) {
	idx := -1
	for i, p := range g.Params {
		if p == fp {
			idx = i
		}
	}
	if idx < 0 || idx >= len(c.Common().Args) {
		return false, false
	}
	a := c.Common().Args[idx]
	if v, ok := ConstBool(a); ok {
		return v, true
	}
	if pr, ok := a.(*ssa.Parameter); ok && li.FlagOf[cx.fn] == pr && cx.flag >= 0 {
		return cx.flag == 1, true
	}
	return false, false
}

// run computes the state before every instruction of cx.fn.
func (li *LockInfo) run(cx lockCtx, inScope map[*ssa.Function]bool, problems *[]LockProblem) map[ssa.Instruction]LState {
	f := cx.fn
	st := map[ssa.Instruction]LState{}
	if len(f.Blocks) == 0 {
		return st
	}
	in := make([]LState, len(f.Blocks))
	out := make([]LState, len(f.Blocks))
	// inDef[b]: a deferred unlock has been registered on every (unpruned) path to the entry of b
	inDef := make([]bool, len(f.Blocks))
	entry := LNotHeld
	if cx.held {
		entry = LHeld
	}
	pruned := func(from, to *ssa.BasicBlock) bool {
		if cx.flag < 0 {
			return false
		}
		ifi, ok := lastInstr(from).(*ssa.If)
		if !ok || from.Succs[0] == from.Succs[1] {
			return false
		}
		cnd, pol := StripNot(ifi.Cond, true)
		if cnd != ssa.Value(li.FlagOf[f]) {
			return false
		}
		// cond (after stripping) == flag; branch taken to Succs[0] iff (flag == pol)
		val := cx.flag == 1
		takeTrue := val == pol
		if to == from.Succs[0] {
			return !takeTrue
		}
		return takeTrue
	}
	report := func(p LockProblem) {
		if problems != nil {
			*problems = append(*problems, p)
		}
	}
	reported := map[ssa.Instruction]bool{}
	work := []*ssa.BasicBlock{f.Blocks[0]}
	in[0] = entry
	inited := map[int]bool{0: true}
	for iter := 0; len(work) > 0 && iter < 20000; iter++ {
		b := work[0]
		work = work[1:]
		s := in[b.Index]
		def := inDef[b.Index]
		for _, ins := range b.Instrs {
			st[ins] = joinL(st[ins], s)
			c, ok := ins.(ssa.CallInstruction)
			if !ok {
				continue
			}
			if _, isGo := ins.(*ssa.Go); isGo {
				continue
			}
			if id, op := MutexOp(c); op != "" && id.Same(li.Spec.ID) {
				if _, isDefer := ins.(*ssa.Defer); isDefer {
					if op == "unlock" {
						def = true
					}
					continue
				}
				if op == "lock" {
					if s == LHeld && !reported[ins] {
						reported[ins] = true
						report(LockProblem{Kind: "double-lock", Fn: f, At: ins, Detail: li.Spec.ID.String() + " locked while already held (sync.Mutex is not re-entrant)"})
					}
					s = LHeld
				} else {
					if cx.held && cx.flag != 0 && !reported[ins] {
						reported[ins] = true
						report(LockProblem{Kind: "unlock-in-required", Fn: f, At: ins, Detail: "function that runs under its caller's " + li.Spec.ID.String() + " releases it: the caller's critical section is split"})
					}
					s = LNotHeld
				}
				continue
			}
			// the release function handed out by a hand-off wrapper is called or deferred
			if !c.Common().IsInvoke() && c.Common().StaticCallee() == nil {
				if li.fromHandoff(c.Common().Value, inScope) {
					if _, isDefer := ins.(*ssa.Defer); isDefer {
						def = true
					} else {
						s = LNotHeld
					}
					continue
				}
			}
			g := li.scopeCallee(c, inScope)
			if g == nil {
				continue
			}
			if _, isDefer := ins.(*ssa.Defer); isDefer {
				continue
			}
			if li.Handoff[g] {
				if s == LHeld && !reported[ins] {
					reported[ins] = true
					report(LockProblem{Kind: "acquire-while-held", Fn: f, At: ins, Detail: g.Name() + " takes " + li.Spec.ID.String() + " which is already held: self-deadlock"})
				}
				s = LHeld
				continue
			}
			if fp := li.FlagOf[g]; fp != nil {
				v, known := li.flagArg(c, g, fp, cx)
				if !known {
					if !reported[ins] {
						reported[ins] = true
						report(LockProblem{Kind: "undecided-flag", Fn: f, At: ins, Detail: "non-constant '" + fp.Name() + "' argument in call of " + g.Name()})
					}
				} else if !v && s == LHeld && !reported[ins] {
					reported[ins] = true
					report(LockProblem{Kind: "acquire-while-held", Fn: f, At: ins, Detail: g.Name() + "(" + fp.Name() + "=false) takes " + li.Spec.ID.String() + " which is already held: self-deadlock"})
				}
			} else if li.Acquires[g] && !li.Requires[g] && s == LHeld && !reported[ins] {
				reported[ins] = true
				report(LockProblem{Kind: "acquire-while-held", Fn: f, At: ins, Detail: g.Name() + " takes " + li.Spec.ID.String() + " which is already held: self-deadlock"})
			}
		}
		if _, isRet := lastInstr(b).(*ssa.Return); isRet && problems != nil {
			if s == LHeld && !cx.held && !def && !li.Handoff[f] {
				ret := lastInstr(b)
				if !reported[ret] {
					reported[ret] = true
					report(LockProblem{Kind: "leak", Fn: f, At: ret, Detail: "returns with " + li.Spec.ID.String() + " held and no deferred unlock"})
				}
			}
		}
		out[b.Index] = s
		for _, succ := range b.Succs {
			if pruned(b, succ) {
				continue
			}
			ns := joinL(in[succ.Index], s)
			nd := def
			if inited[succ.Index] {
				nd = inDef[succ.Index] && def
			}
			if !inited[succ.Index] || ns != in[succ.Index] || nd != inDef[succ.Index] {
				inited[succ.Index] = true
				in[succ.Index] = ns
				inDef[succ.Index] = nd
				work = append(work, succ)
			}
		}
	}
	return st
}

// StateAt returns the lock state before instruction in, joined over the final contexts of its
// function in which the instruction is reachable.
func (li *LockInfo) StateAt(in ssa.Instruction) LState {
	s := LUnreached
	for cx, m := range li.states {
		if cx.fn == in.Parent() {
			s = joinL(s, m[in])
		}
	}
	return s
}

// StateAtCtx returns the state before in for the context where the flag parameter has value flag.
func (li *LockInfo) StateAtCtx(in ssa.Instruction, flag bool) LState {
	for cx, m := range li.states {
		if cx.fn == in.Parent() && cx.flag >= 0 && (cx.flag == 1) == flag {
			return m[in]
		}
	}
	return li.StateAt(in)
}

// UnlockBetween reports an Unlock(L) that is reachable from a and from which b is reachable.
func (li *LockInfo) UnlockBetween(a, b ssa.Instruction) ssa.Instruction {
	fromA := Reach{}.FromInstr(a)
	for in := range fromA {
		c, ok := in.(ssa.CallInstruction)
		if !ok {
			continue
		}
		if _, isDefer := in.(*ssa.Defer); isDefer {
			continue
		}
		if id, op := MutexOp(c); op == "unlock" && id.Same(li.Spec.ID) {
			if (Reach{}).FromInstr(in)[b] {
				return in
			}
		}
	}
	return nil
}

// IsFieldAccess reports whether in loads from or stores to (or takes the address for a map update
// of) field `field` of named type n.
func IsFieldAccess(in ssa.Instruction, n *types.Named, field string) bool {
	fa, ok := in.(*ssa.FieldAddr)
	if ok {
		n2, f2 := FieldAddrInfo(fa)
		return n2 == n && f2 == field
	}
	if fl, ok := in.(*ssa.Field); ok {
		return NamedOf(fl.X.Type()) == n && FieldName(fl.X.Type(), fl.Field) == field
	}
	return false
}

var _ = token.NoPos

// isHandoff: f locks id, never unlocks it, and every return hands back a function value that
// unlocks it (the bound Unlock method of the same mutex field, or a literal that calls it).
func isHandoff(f *ssa.Function, id LockID) bool {
	unlocksID := func(fn *ssa.Function) bool {
		found := false
		Calls(fn, func(c ssa.CallInstruction) {
			if l, op := MutexOp(c); op == "unlock" && l.Same(id) {
				found = true
			}
		})
		return found
	}
	if unlocksID(f) {
		return false
	}
	rets := Returns(f)
	if len(rets) == 0 {
		return false
	}
	for _, ret := range rets {
		ok := false
		for i := range ret.Results {
			mc, isMC := ReturnOperand(ret, i).(*ssa.MakeClosure)
			if !isMC {
				continue
			}
			lit, _ := mc.Fn.(*ssa.Function)
			if lit == nil {
				continue
			}
			if lit.Synthetic != "" {
				// bound method value x.mu.Unlock: the wrapper forwards to (*sync.Mutex).Unlock with the bound receiver
				boundOK := false
				for _, b := range mc.Bindings {
					if fa, isFA := b.(*ssa.FieldAddr); isFA {
						if n, fld := FieldAddrInfo(fa); n != nil && (LockID{T: n, Field: fld}).Same(id) {
							boundOK = true
						}
					}
				}
				unl := false
				Calls(lit, func(c ssa.CallInstruction) {
					if cal := Callee(c); cal != nil && cal.Pkg() != nil && cal.Pkg().Path() == "sync" && (cal.Name() == "Unlock" || cal.Name() == "RUnlock") {
						unl = true
					}
				})
				if boundOK && unl {
					ok = true
				}
			} else if unlocksID(lit) {
				ok = true
			}
		}
		if !ok {
			return false
		}
	}
	return true
}

// fromHandoff: the function value originates from the result of a call of a hand-off wrapper.
func (li *LockInfo) fromHandoff(v ssa.Value, inScope map[*ssa.Function]bool) bool {
	for _, o := range Origins(v, SliceOpts{}) {
		if o.Kind != OCall {
			continue
		}
		if g := li.scopeCallee(o.Call, inScope); g != nil && li.Handoff[g] {
			return true
		}
	}
	return false
}

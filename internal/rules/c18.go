package rules

import (
	"fmt"
	"go/token"
	"go/types"
	"os"
	"regexp/syntax"
	"slices"
	"sort"
	"strings"

	"golang.org/x/tools/go/ssa"

	"verif/internal/core"
)

func init() {
	register(&Spec{
		ID: "C18",
		Decides: "from the check-only entry point no function that issues a state-changing request or writes a layout is reachable in the reference graph once call sites behind the 'action is not check' edge are removed, and the action value is passed unchanged down the chain; " +
			"every allow/deny expression is compiled from one filter at a time into a pattern that, instantiated and parsed with regexp/syntax, is anchored at both ends in every alternative; both lists are consulted; " +
			"the backup copy takes the target as its source, sits behind the backup-configured test and every path from that test to the overwriting copy passes it; " +
			"every entry stored in a process-wide cache of the sync tool is keyed by a value computed from every by-value parameter the cached value is computed from (the platform digest cache cannot answer for another platform); the in-place filter is only given listings nobody else holds; the catalog pager decides its end and its marker from the raw page.",
		NotCovered: "the full before/after comparison of registries, platform resolution itself, tag movement between runs, template expansion.",
		Run:        runC18,
	})
}

func runC18(p *core.Prog, r *core.Report) {
	c18R1(p, r)
	c18R2(p, r)
	c18R3(p, r)
	c18R4(p, r)
	c18R5(p, r)
	c18R6(p, r)
	lossyKeyRule(p, r, "C18.R7")
	// a layout target resolves the tag it was just given exactly (shared with C06.R6)
	c06R6(p, r, "C18.R8")
	c18R9(p, r)
	// the filters see every tag the source lists: pages are merged without an order assumption (shared with C06.R11)
	c06R11(p, r, "C18.R12")
}

// lossyKeyRule: a cache key that stands for a structured value by a rendering of it (a String()
// method) is only sound when the rendering shows every field the cached computation reads.
func lossyKeyRule(p *core.Prog, r *core.Report, rule string) {
	r.Rule(rule, "a rendered key shows what the value depends on: where the key of a process-wide cache of cmd/regsync contains the result of a string method of a module struct type, every field of that type that is read by the functions the same value is handed to (transitively, inside the module) is also read by the method", 0)
	fieldsRead := func(roots []*ssa.Function, t *types.Named) map[string]bool {
		out := map[string]bool{}
		seen := map[*ssa.Function]bool{}
		for _, root := range roots {
			for f := range p.ReachSet(root, core.ReachQuery{}) {
				seen[f] = true
			}
			seen[root] = true
		}
		for f := range seen {
			for _, b := range f.Blocks {
				for _, in := range b.Instrs {
					switch x := in.(type) {
					case *ssa.FieldAddr:
						if core.NamedOf(x.X.Type()) == t {
							// read when the address is loaded from
							for _, ref := range *x.Referrers() {
								if u, ok := ref.(*ssa.UnOp); ok && u.Op == token.MUL {
									out[core.FieldName(x.X.Type(), x.Field)] = true
								}
							}
						}
					case *ssa.Field:
						if core.NamedOf(x.X.Type()) == t {
							out[core.FieldName(x.X.Type(), x.Field)] = true
						}
					}
				}
			}
		}
		return out
	}
	n := 0
	for _, fn := range pkgFuncs(p, "cmd/regsync") {
		lab := labeler{}
		for _, b := range fn.Blocks {
			for _, in := range b.Instrs {
				mu, ok := in.(*ssa.MapUpdate)
				if !ok || globalMap(mu.Map) == nil {
					continue
				}
				// string methods of module struct types in the backward slice of the key
				type rend struct {
					t *types.Named
					m *ssa.Function
				}
				var rends []rend
				seen := map[ssa.Value]bool{}
				var walk func(v ssa.Value, d int)
				walk = func(v ssa.Value, d int) {
					if v == nil || seen[v] || d > 12 {
						return
					}
					seen[v] = true
					switch x := v.(type) {
					case *ssa.BinOp:
						walk(x.X, d+1)
						walk(x.Y, d+1)
					case *ssa.Phi:
						for _, e := range x.Edges {
							walk(e, d+1)
						}
					case *ssa.Convert:
						walk(x.X, d+1)
					case *ssa.UnOp:
						if al, ok := x.X.(*ssa.Alloc); ok {
							for _, st := range core.ReachingStores(x, al) {
								walk(st.Val, d+1)
							}
						}
					case *ssa.Call:
						g := core.CalleeFn(x)
						if g != nil && p.InModule(g) && g.Signature.Recv() != nil && g.Signature.Results().Len() == 1 && isStringType(g.Signature.Results().At(0).Type()) {
							if t := core.NamedOf(g.Signature.Recv().Type()); t != nil {
								if _, isStruct := t.Underlying().(*types.Struct); isStruct {
									rends = append(rends, rend{t, g})
									return
								}
							}
						}
						for _, a := range x.Call.Args {
							walk(a, d+1)
						}
					}
				}
				walk(mu.Key, 0)
				for _, rd := range rends {
					n++
					label := lab.next("key rendered by " + rd.t.Obj().Name() + "." + rd.m.Name())
					inKey := fieldsRead([]*ssa.Function{rd.m}, rd.t)
					// the functions of the module that fn hands a value of that type to
					var users []*ssa.Function
					core.Calls(fn, func(c ssa.CallInstruction) {
						g := core.CalleeFn(c)
						if g == nil || !p.InModule(g) || g == rd.m {
							return
						}
						for _, a := range c.Common().Args {
							if core.NamedOf(a.Type()) == rd.t {
								users = append(users, g)
							}
						}
					})
					used := fieldsRead(users, rd.t)
					var missing []string
					for f := range used {
						if !inKey[f] {
							missing = append(missing, f)
						}
					}
					sort.Strings(missing)
					r.Check(len(missing) == 0, rule, p.FuncName(fn), label, p.Pos(mu.Pos()), "the key shows the value only through "+rd.m.Name()+"(), which does not look at "+strings.Join(missing, ", ")+"; the computation that is cached reads them: two requests that differ only there get the same entry")
				}
			}
		}
	}
	if n == 0 {
		r.Held(rule, "cmd/regsync", "no rendered key", "-", "no cache key of cmd/regsync contains a string rendering of a structured value")
	}
}

func c18R1(p *core.Prog, r *core.Report) {
	const rule = "C18.R1"
	r.Rule(rule, "check-only writes nothing: no mutator reachable from runCheck except behind a test of the action parameter against the check constant; the action is passed down unchanged", 5)
	entry := p.Method("cmd/regsync", "rootOpts", "runCheck")
	if entry == nil {
		r.MissingAnchor(rule, "cmd/regsync.(*rootOpts).runCheck")
		return
	}
	// the check constant: the constant of the action type passed by runCheck
	var actT types.Type
	var checkVal int64 = -1
	core.Calls(entry, func(c ssa.CallInstruction) {
		g := core.CalleeFn(c)
		if g == nil || !p.InModule(g) {
			return
		}
		for _, a := range c.Common().Args {
			if k, ok := core.ConstInt(a); ok {
				if n := core.NamedOf(a.Type()); n != nil && n.Obj().Pkg() != nil && n.Obj().Pkg().Path() == modPath("cmd/regsync") {
					actT, checkVal = a.Type(), k
				}
			}
		}
	})
	if actT == nil {
		r.Undecided(rule, p.FuncName(entry), "check constant", p.Pos(entry.Pos()), "runCheck does not pass a constant of the action type")
		return
	}
	isActionParam := func(v ssa.Value) bool {
		pr, ok := v.(*ssa.Parameter)
		return ok && types.Identical(pr.Type(), actT)
	}
	gated := func(site ssa.Instruction) bool {
		return anyGuard(site.Block(), func(c ssa.Value, pol bool) bool {
			bo, ok := c.(*ssa.BinOp)
			if !ok || (bo.Op != token.EQL && bo.Op != token.NEQ) {
				return false
			}
			var k int64
			var isK bool
			switch {
			case isActionParam(bo.X):
				k, isK = core.ConstInt(bo.Y)
			case isActionParam(bo.Y):
				k, isK = core.ConstInt(bo.X)
			default:
				return false
			}
			if !isK || k != checkVal {
				return false
			}
			// not-check edge: (== false) or (!= true)
			return (bo.Op == token.EQL && !pol) || (bo.Op == token.NEQ && pol)
		})
	}
	prim := primitiveMutators(p)
	hits, visited := p.Reachable(entry, core.ReachQuery{
		SkipEdge: func(from *ssa.Function, e core.RefEdge) bool { return gated(e.Site) },
		IsSink: func(fn *ssa.Function) bool {
			if _, inert := gcInert[p.FuncName(fn)]; inert {
				return false
			}
			_, ok := prim[fn]
			return ok
		},
		Prune: func(fn *ssa.Function) bool { _, inert := gcInert[p.FuncName(fn)]; return inert },
	})
	if len(hits) == 0 {
		r.Held(rule, p.FuncName(entry), "no write reachable in check mode", p.Pos(entry.Pos()), fmt.Sprintf("%d functions visited", visited))
	}
	seen := map[string]bool{}
	for _, h := range hits {
		// report the last step inside cmd/regsync
		var last core.PathStep
		for _, st := range h.Path {
			if pk := core.FuncPkg(st.From); pk != nil && pk.Path() == modPath("cmd/regsync") {
				last = st
			}
		}
		key := p.FuncName(last.From) + "|" + p.FuncName(last.To)
		if seen[key] {
			continue
		}
		seen[key] = true
		r.Violated(rule, p.FuncName(last.From), "ungated call of "+shortRecv(p.FuncName(last.To)), p.Pos(last.Site.Pos()),
			"a check-only run reaches "+prim[h.Sink]+" in "+p.FuncName(h.Sink)+": "+chain(p, h.Path))
	}
	// the action value is passed down unchanged
	reach := p.ReachSet(entry, core.ReachQuery{Prune: func(fn *ssa.Function) bool {
		pk := core.FuncPkg(fn)
		return pk == nil || pk.Path() != modPath("cmd/regsync")
	}})
	lab := map[string]labeler{}
	for fn := range reach {
		if pk := core.FuncPkg(fn); pk == nil || pk.Path() != modPath("cmd/regsync") {
			continue
		}
		core.Calls(fn, func(c ssa.CallInstruction) {
			g := core.CalleeFn(c)
			if g == nil || !p.InModule(g) {
				return
			}
			for _, a := range c.Common().Args {
				if !types.Identical(a.Type(), actT) {
					continue
				}
				fname := p.FuncName(fn)
				if lab[fname] == nil {
					lab[fname] = labeler{}
				}
				k, isK := core.ConstInt(a)
				ok := isActionParam(a)
				if fn == entry {
					ok = isK && k == checkVal
				}
				r.Check(ok, rule, fname, lab[fname].next("action passed to "+g.Name()), p.Pos(c.Pos()), "the action tested by the gate is the caller's own action (or the check constant in runCheck)")
			}
		})
	}
}

// ---------------------------------------------------------------------------------------------
// R2 filters

// strEval evaluates a string-building expression to representative instances: list elements become
// "a", strings.Join(list, sep) becomes "a"+sep+"b"+sep+"c".
var strEvalProg *core.Prog

func strEval(v ssa.Value, depth int) ([]string, bool) {
	if depth > 12 || v == nil {
		return nil, false
	}
	switch x := v.(type) {
	case *ssa.Const:
		s, ok := core.ConstString(x)
		return []string{s}, ok
	case *ssa.Parameter:
		// a helper that is given the pattern or the filter: evaluated at every call site
		fn := x.Parent()
		if strEvalProg == nil || fn == nil {
			return nil, false
		}
		idx := -1
		for i, pr := range fn.Params {
			if pr == x {
				idx = i
			}
		}
		var out []string
		for _, st := range strEvalProg.Callers(fn) {
			c, ok := st.Site.(ssa.CallInstruction)
			if !ok || core.CalleeFn(c) != fn || idx < 0 || idx >= len(c.Common().Args) {
				return nil, false
			}
			s, ok := strEval(c.Common().Args[idx], depth+1)
			if !ok {
				return nil, false
			}
			out = append(out, s...)
		}
		return out, len(out) > 0
	case *ssa.BinOp:
		if x.Op != token.ADD {
			return nil, false
		}
		a, ok1 := strEval(x.X, depth+1)
		b, ok2 := strEval(x.Y, depth+1)
		if !ok1 || !ok2 {
			return nil, false
		}
		var out []string
		for _, s := range a {
			for _, t := range b {
				out = append(out, s+t)
			}
		}
		return out, true
	case *ssa.Phi:
		var out []string
		for _, e := range x.Edges {
			s, ok := strEval(e, depth+1)
			if !ok {
				return nil, false
			}
			out = append(out, s...)
		}
		return out, true
	case *ssa.UnOp:
		if x.Op == token.MUL {
			if ia, ok := x.X.(*ssa.IndexAddr); ok && isStringSlice(ia.X.Type()) {
				return []string{"a"}, true
			}
			if al, ok := x.X.(*ssa.Alloc); ok {
				var out []string
				for _, st := range core.StoresToCell(al) {
					s, ok := strEval(st.Val, depth+1)
					if !ok {
						return nil, false
					}
					out = append(out, s...)
				}
				return out, len(out) > 0
			}
		}
	case *ssa.Index:
		if isStringSlice(x.X.Type()) {
			return []string{"a"}, true
		}
	case *ssa.Call:
		cal := core.Callee(x)
		if cal == nil {
			return nil, false
		}
		switch {
		case core.IsFunc(cal, "strings", "Join"):
			sep, ok := core.ConstString(x.Call.Args[1])
			if !ok {
				return nil, false
			}
			return []string{"a" + sep + "b" + sep + "c", "a"}, true
		case core.IsFunc(cal, "regexp", "QuoteMeta"):
			return []string{"a"}, true
		case core.IsFunc(cal, "fmt", "Sprintf"):
			f, ok := core.ConstString(x.Call.Args[0])
			if !ok {
				return nil, false
			}
			n := strings.Count(f, "%s") + strings.Count(f, "%v")
			args := make([]any, n)
			for i := range args {
				args[i] = "a"
			}
			return []string{fmt.Sprintf(strings.ReplaceAll(f, "%v", "%s"), args...)}, true
		}
	}
	return nil, false
}

func isStringSlice(t types.Type) bool {
	if p, ok := t.Underlying().(*types.Pointer); ok {
		t = p.Elem()
	}
	switch s := t.Underlying().(type) {
	case *types.Slice:
		return isStringType(s.Elem())
	case *types.Array:
		return isStringType(s.Elem())
	}
	return false
}

// anchoredBoth: the regular expression matches only whole strings in every alternative.
func anchoredBoth(re *syntax.Regexp) bool {
	switch re.Op {
	case syntax.OpConcat:
		if len(re.Sub) < 2 {
			return false
		}
		first, last := re.Sub[0], re.Sub[len(re.Sub)-1]
		return (first.Op == syntax.OpBeginText || (first.Op == syntax.OpBeginLine && re.Flags&syntax.OneLine != 0)) &&
			(last.Op == syntax.OpEndText || (last.Op == syntax.OpEndLine && re.Flags&syntax.OneLine != 0))
	case syntax.OpAlternate:
		for _, s := range re.Sub {
			if !anchoredBoth(s) {
				return false
			}
		}
		return len(re.Sub) > 0
	case syntax.OpCapture:
		return anchoredBoth(re.Sub[0])
	}
	return false
}

func c18R2(p *core.Prog, r *core.Report) {
	const rule = "C18.R2"
	r.Rule(rule, "allow/deny filters match whole tags: every regexp.Compile of a filter takes a pattern that is anchored at both ends in every alternative (pattern instantiated with sample filters and parsed with regexp/syntax); both the allow and the deny list are consulted", 2)
	// positive example for the anchoring oracle
	bad, _ := syntax.Parse("^(a)|(b)|(c)$", syntax.Perl)
	good, _ := syntax.Parse("^(?:(?:a)|(?:b))$", syntax.Perl)
	plain, _ := syntax.Parse("^a$", syntax.Perl)
	r.Check(bad != nil && good != nil && plain != nil && !anchoredBoth(bad) && anchoredBoth(good) && anchoredBoth(plain), rule, "checker", "anchoring oracle", "-",
		"the oracle rejects ^(a)|(b)|(c)$ (anchors bind to the outer alternatives only) and accepts ^a$ and ^(?:(?:a)|(?:b))$")
	// the filter functions, by role: the functions of cmd/regsync that are given an allow/deny set (as
	// parameter or receiver); everything they reach inside the package is in scope
	var fn *ssa.Function
	scope := map[*ssa.Function]bool{}
	for _, f := range pkgFuncs(p, "cmd/regsync") {
		if f.Parent() != nil {
			continue
		}
		takes := false
		for _, pr := range f.Params {
			if core.IsModNamed(pr.Type(), "cmd/regsync", "AllowDeny") {
				takes = true
			}
		}
		if !takes {
			continue
		}
		if fn == nil {
			fn = f
		}
		for g := range p.ReachSet(f, core.ReachQuery{Prune: func(f *ssa.Function) bool {
			pk := core.FuncPkg(f)
			return pk == nil || pk.Path() != modPath("cmd/regsync")
		}}) {
			scope[g] = true
		}
	}
	if fn == nil {
		r.MissingAnchor(rule, "a function of cmd/regsync that takes an AllowDeny filter set")
		return
	}
	n := 0
	lab := map[string]labeler{}
	strEvalProg = p
	for _, f := range sortedFuncs(scope) {
		if pk := core.FuncPkg(f); pk == nil || pk.Path() != modPath("cmd/regsync") {
			continue
		}
		for _, c := range core.CallsTo(f, func(cal *types.Func) bool {
			return core.IsFunc(cal, "regexp", "Compile") || core.IsFunc(cal, "regexp", "MustCompile") || core.IsFunc(cal, "regexp", "CompilePOSIX")
		}) {
			n++
			fname := p.FuncName(f)
			if lab[fname] == nil {
				lab[fname] = labeler{}
			}
			label := lab[fname].next("filter pattern")
			insts, ok := strEval(core.CallArg(c, 0), 0)
			if !ok || len(insts) == 0 {
				r.Undecided(rule, fname, label, p.Pos(c.Pos()), "the pattern expression is not built from constants, single filters and strings.Join: cannot instantiate it")
				continue
			}
			okAll := true
			detail := "instances " + strings.Join(insts, " , ") + " are anchored at both ends in every alternative"
			for _, s := range insts {
				re, err := syntax.Parse(s, syntax.Perl)
				if err != nil || !anchoredBoth(re) {
					okAll = false
					detail = "instance " + s + " is not anchored at both ends in every alternative: tags that only partially match a filter are selected or excluded"
				}
			}
			r.Check(okAll, rule, fname, label, p.Pos(c.Pos()), detail)
		}
	}
	if n == 0 {
		r.Violated(rule, p.FuncName(fn), "filter pattern", p.Pos(fn.Pos()), "filterList compiles no regular expression")
	}
	// both lists consulted: loads of both string-slice fields of the filter struct
	fields := map[string]bool{}
	for f := range scope {
		for _, b := range f.Blocks {
			for _, in := range b.Instrs {
				switch x := in.(type) {
				case *ssa.Field:
					if core.IsModNamed(x.X.Type(), "cmd/regsync", "AllowDeny") {
						fields[core.FieldName(x.X.Type(), x.Field)] = true
					}
				case *ssa.FieldAddr:
					if core.IsModNamed(x.X.Type(), "cmd/regsync", "AllowDeny") {
						fields[core.FieldName(x.X.Type(), x.Field)] = true
					}
				}
			}
		}
	}
	r.Check(len(fields) >= 2, rule, p.FuncName(fn), "allow and deny consulted", p.Pos(fn.Pos()), fmt.Sprintf("fields of the filter read: %d", len(fields)))
}

// ---------------------------------------------------------------------------------------------
// R3 backup

func c18R3(p *core.Prog, r *core.Report) {
	const rule = "C18.R3"
	r.Rule(rule, "backup before overwrite: the backup copy's source is the target reference, it is behind the 'backup configured' test and every path from that test to the overwriting copy passes it", 2)
	// by role: the function of cmd/regsync with a source and a target reference that copies images.
	// The backup copy may live in a helper of the package that is handed the target reference; the
	// function looked for is the one that is not such a helper of another candidate.
	isCopy := func(c ssa.CallInstruction) bool {
		cal := core.Callee(c)
		return cal != nil && core.IsModMethod(cal, ".", "RegClient", "ImageCopy")
	}
	refParams := func(f *ssa.Function) []*ssa.Parameter {
		var out []*ssa.Parameter
		for _, pr := range f.Params {
			if core.IsModNamed(pr.Type(), "types/ref", "Ref") {
				out = append(out, pr)
			}
		}
		return out
	}
	cands := map[*ssa.Function][]*ssa.Call{}
	for _, f := range pkgFuncs(p, "cmd/regsync") {
		if f.Parent() != nil || len(refParams(f)) != 2 {
			continue
		}
		var cs []*ssa.Call
		core.Calls(f, func(c ssa.CallInstruction) {
			if call, ok := c.(*ssa.Call); ok && isCopy(c) {
				cs = append(cs, call)
			}
		})
		if len(cs) > 0 {
			cands[f] = cs
		}
	}
	called := map[*ssa.Function]bool{}
	for f := range cands {
		core.Calls(f, func(c ssa.CallInstruction) {
			if g := core.CalleeFn(c); g != nil && g != f && cands[g] != nil {
				called[g] = true
			}
		})
	}
	var fn *ssa.Function
	for _, f := range sortedFuncs(funcSetOf(cands)) {
		if !called[f] && (fn == nil || len(cands[f]) > len(cands[fn])) {
			fn = f
		}
	}
	if fn == nil {
		r.MissingAnchor(rule, "a function of cmd/regsync with source and target references that calls ImageCopy")
		return
	}
	copies := cands[fn]
	fname := p.FuncName(fn)
	refs := refParams(fn)
	srcP, tgtP := refs[0], refs[1]
	isParam := func(v ssa.Value, pr *ssa.Parameter) bool {
		return core.AllOrigins(core.Origins(v, core.SliceOpts{}), func(o core.Origin) bool { return o.Kind == core.OParam && o.Param == pr })
	}
	hasParam := func(v ssa.Value, pr *ssa.Parameter) bool {
		return core.HasOrigin(core.Origins(v, core.SliceOpts{Through: safeRefThrough}), func(o core.Origin) bool { return o.Kind == core.OParam && o.Param == pr })
	}
	var mainCopy, backup *ssa.Call
	var backupTgt ssa.Value // where the backup copy writes to, as seen in fn
	for _, c := range copies {
		s, t := core.CallArg(c, 2), core.CallArg(c, 3)
		switch {
		case hasParam(s, srcP) && isParam(t, tgtP):
			mainCopy = c
		case isParam(s, tgtP):
			backup, backupTgt = c, t
		}
	}
	if backup == nil {
		// a helper that is handed the target reference and copies from it
		core.Calls(fn, func(c ssa.CallInstruction) {
			h := core.CalleeFn(c)
			call, isCall := c.(*ssa.Call)
			if h == nil || !isCall || cands[h] == nil || h == fn {
				return
			}
			for _, hc := range cands[h] {
				si, ti := -1, -1
				for i, hp := range h.Params {
					if isParam(core.CallArg(hc, 2), hp) {
						si = i
					}
					if isParam(core.CallArg(hc, 3), hp) {
						ti = i
					}
				}
				if si >= 0 && si < len(call.Call.Args) && isParam(call.Call.Args[si], tgtP) {
					backup = call
					if ti >= 0 && ti < len(call.Call.Args) {
						backupTgt = call.Call.Args[ti]
					}
				}
			}
		})
	}
	if mainCopy == nil {
		r.Undecided(rule, fname, "overwriting copy", p.Pos(fn.Pos()), "no ImageCopy(source, target) found")
		return
	}
	if backup == nil {
		r.Violated(rule, fname, "backup copy", p.Pos(mainCopy.Pos()), "no ImageCopy whose source is the target reference: the previous image is not saved under the backup name")
		return
	}
	r.Check(backupTgt == nil || !isParam(backupTgt, tgtP), rule, fname, "backup copy", p.Pos(backup.Pos()), "the backup copies the image the target currently points to (source = target ref) to a different reference")
	// the backup-configured test: a branch on the Backup field of the step
	var edges [][2]*ssa.BasicBlock
	for _, b := range fn.Blocks {
		ifi, ok := core.LastInstr(b).(*ssa.If)
		if !ok {
			continue
		}
		cnd, pol := core.StripNot(ifi.Cond, true)
		bo, ok := cnd.(*ssa.BinOp)
		if !ok || (bo.Op != token.NEQ && bo.Op != token.EQL) {
			continue
		}
		if !dependsOnField(bo.X, modPath("cmd/regsync"), "ConfigSync", "Backup") {
			continue
		}
		if s, isC := core.ConstString(bo.Y); !isC || s != "" {
			continue
		}
		want := bo.Op == token.NEQ
		if want == pol {
			edges = append(edges, [2]*ssa.BasicBlock{b, b.Succs[0]})
		} else {
			edges = append(edges, [2]*ssa.BasicBlock{b, b.Succs[1]})
		}
	}
	if len(edges) == 0 {
		r.Violated(rule, fname, "backup precedes overwrite", p.Pos(backup.Pos()), "no test of the configured backup name found")
		return
	}
	ok := true
	for _, e := range edges {
		seen := core.Reach{Stop: func(in ssa.Instruction) bool { return in == ssa.Instruction(backup) }}.FromEdge(e[0], e[1])
		if seen[mainCopy] {
			ok = false
		}
	}
	r.Check(ok, rule, fname, "backup precedes overwrite", p.Pos(backup.Pos()), "from the edge on which a backup is wanted, the overwriting copy is only reachable through the backup copy (error returns aside)")
	c18R10(p, r, fn, mainCopy, backup)
	c18R11(p, r, fn, mainCopy, tgtP)
	c18R13(p, r, fn, mainCopy, backup)
}

// c18R13: the backup is the first step of an overwrite that is going to happen. Once the previous
// image has been copied to the backup name, the function either overwrites the tag or fails; a
// "nothing to do" return after the backup means the backup name was moved for a tag that stays as it
// is, and the image that was kept there from the last real overwrite is lost.
func c18R13(p *core.Prog, r *core.Report, fn *ssa.Function, mainCopy, backup *ssa.Call) {
	const rule = "C18.R13"
	r.Rule(rule, "the decision to overwrite is final before the backup is written: from the backup copy no return that can report success is reachable before the overwriting copy", 1)
	bad := ""
	seen := core.Reach{Stop: func(in ssa.Instruction) bool { return in == ssa.Instruction(mainCopy) }}.FromInstr(backup)
	for _, ret := range core.Returns(fn) {
		if seen[ret] && !failureReturn(fn, ret) {
			if pos := p.Pos(ret.Pos()); bad == "" || pos < bad {
				bad = pos
			}
		}
	}
	r.Check(bad == "", rule, p.FuncName(fn), "no early success after the backup", p.Pos(backup.Pos()), "the return at "+bad+" can report success and is reachable after the backup copy without the overwriting copy: the run moves the backup name although the tag is left as it is, and the previous image kept under that name is lost")
}

// c18R10: "available under that name before the tag is overwritten" — a backup that did not succeed
// must stop the overwrite. Known finding D21 on the unchanged tree: the failure is logged and the
// overwrite goes ahead (upstream: "possible registry corruption with existing image, only warn and
// continue/overwrite").
func c18R10(p *core.Prog, r *core.Report, fn *ssa.Function, mainCopy, backup *ssa.Call) {
	const rule = "C18.R10"
	r.Rule(rule, "a failed backup stops the overwrite: from the failure edge of the backup copy the overwriting copy is not reachable (the previous image has to be available under the backup name before the tag moves)", 1)
	fname := p.FuncName(fn)
	edges := errEdgesOf(fn, backup)
	if len(edges) == 0 {
		// the result of the backup copy is not looked at before the overwrite
		seen := core.Reach{}.FromInstr(backup)
		r.Check(!seen[mainCopy], rule, fname, "overwrite after a failed backup", p.Pos(backup.Pos()), "the error of the backup copy is never tested: the overwriting copy runs whether or not the previous image was saved")
		return
	}
	ok := true
	for _, e := range edges {
		if (core.Reach{}).FromEdge(e[0], e[1])[mainCopy] {
			ok = false
		}
	}
	r.Check(ok, rule, fname, "overwrite after a failed backup", p.Pos(backup.Pos()), "from the failure edge of the backup copy the overwriting copy is reachable: the run overwrites the tag, reports success, and the image the tag pointed to is not available under the backup name")
}

// c18R11: whether there is something to back up is what the target answered. "The lookup failed"
// (403, 5xx, a timeout) is not "the tag does not exist": an existence flag that is just `err == nil`
// skips the backup of a tag that exists. Known finding D22 on the unchanged tree.
func c18R11(p *core.Prog, r *core.Report, fn *ssa.Function, mainCopy *ssa.Call, tgtP *ssa.Parameter) {
	const rule = "C18.R11"
	r.Rule(rule, "absent is what the target said: from the failure edge of the lookup of the target reference (ManifestHead / ManifestGet on the target parameter) the overwriting copy is reachable only past a classification of that error (errors.Is / errors.As on it)", 1)
	fname := p.FuncName(fn)
	isTgt := func(v ssa.Value) bool {
		return core.AllOrigins(core.Origins(v, core.SliceOpts{}), func(o core.Origin) bool { return o.Kind == core.OParam && o.Param == tgtP })
	}
	var heads []*ssa.Call
	core.Calls(fn, func(c ssa.CallInstruction) {
		cal := core.Callee(c)
		if cal == nil || !(core.IsModMethod(cal, ".", "RegClient", "ManifestHead") || core.IsModMethod(cal, ".", "RegClient", "ManifestGet")) {
			return
		}
		if call, ok := c.(*ssa.Call); ok && isTgt(core.CallArg(c, 2)) {
			heads = append(heads, call)
		}
	})
	if len(heads) == 0 {
		r.Held(rule, fname, "overwrite after a failed target lookup", p.Pos(fn.Pos()), "the function does not look the target up itself (no ManifestHead/ManifestGet on the target parameter): nothing to decide in this form")
		return
	}
	for _, head := range heads {
		fromHead := func(v ssa.Value) bool {
			for _, oc := range originCalls(v) {
				if oc == head {
					return true
				}
			}
			return false
		}
		// an If whose condition is built from errors.Is / errors.As on the lookup's error
		var classifies func(v ssa.Value, depth int) bool
		classifies = func(v ssa.Value, depth int) bool {
			if v == nil || depth > 6 {
				return false
			}
			switch x := v.(type) {
			case *ssa.Call:
				if f := core.Callee(x); f != nil && (core.IsFunc(f, "errors", "Is") || core.IsFunc(f, "errors", "As")) {
					return len(x.Call.Args) > 0 && fromHead(x.Call.Args[0])
				}
				// a predicate helper of the module that is handed the error
				if g := x.Call.StaticCallee(); g != nil && p.InModule(g) {
					for _, a := range x.Call.Args {
						if isErr(a.Type()) && fromHead(a) {
							return true
						}
					}
				}
			case *ssa.BinOp:
				return classifies(x.X, depth+1) || classifies(x.Y, depth+1)
			case *ssa.UnOp:
				return classifies(x.X, depth+1)
			case *ssa.Phi:
				for _, e := range x.Edges {
					if classifies(e, depth+1) {
						return true
					}
				}
			}
			return false
		}
		stop := func(in ssa.Instruction) bool {
			ifi, ok := in.(*ssa.If)
			return ok && classifies(ifi.Cond, 0)
		}
		edges := errEdgesOf(fn, head)
		ok := true
		if len(edges) == 0 {
			ok = !core.Reach{Stop: stop}.FromInstr(head)[mainCopy]
		}
		for _, e := range edges {
			if (core.Reach{Stop: stop}).FromEdge(e[0], e[1])[mainCopy] {
				ok = false
			}
		}
		r.Check(ok, rule, fname, "overwrite after a failed target lookup", p.Pos(head.Pos()), "from the failure edge of the target lookup the overwriting copy is reachable without a look at what kind of failure it was: a 403, a 5xx or a timeout on the lookup is taken for an absent tag, the backup is skipped and the tag overwritten")
	}
}

// ---------------------------------------------------------------------------------------------
// R4 process-wide caches are keyed by everything the cached value depends on

// globalMap reports the package-level variable a map value is loaded from (directly or as a field
// of a package-level struct).
func globalMap(v ssa.Value) *ssa.Global {
	for i := 0; i < 6 && v != nil; i++ {
		switch x := v.(type) {
		case *ssa.UnOp:
			if x.Op != token.MUL {
				return nil
			}
			v = x.X
		case *ssa.FieldAddr:
			v = x.X
		case *ssa.Global:
			return x
		default:
			return nil
		}
	}
	return nil
}

// valueParam: parameters that carry request data by value (strings, numbers, value structs such as
// ref.Ref or platform.Platform, slices of those); contexts, clients, option pointers, interfaces and
// functions are not inputs a cache has to distinguish.
func valueParam(t types.Type) bool {
	switch u := t.Underlying().(type) {
	case *types.Basic:
		return true
	case *types.Struct:
		return true
	case *types.Slice:
		return valueParam(u.Elem())
	case *types.Array:
		return valueParam(u.Elem())
	}
	return false
}

func paramIndex(fn *ssa.Function, name string) int {
	for i, pr := range fn.Params {
		if pr.Name() == name {
			return i
		}
	}
	return -1
}

// coveredAtCallers: at every call site of fn, some argument bound to a key-feeding parameter is
// computed from every by-value input the argument bound to parameter `name` is computed from.
func coveredAtCallers(p *core.Prog, fn *ssa.Function, name string, keyParams map[*ssa.Parameter]bool) bool {
	qi := paramIndex(fn, name)
	if qi < 0 {
		return false
	}
	sites := p.Callers(fn)
	if len(sites) == 0 {
		return false
	}
	for _, st := range sites {
		c, ok := st.Site.(ssa.CallInstruction)
		if !ok || core.CalleeFn(c) != fn {
			return false // used as a value: call sites unknown
		}
		dq := dataDeps(core.CallArg(c, qi))
		covered := false
		for kp := range keyParams {
			ki := paramIndex(fn, kp.Name())
			if ki < 0 {
				continue
			}
			dk := dataDeps(core.CallArg(c, ki))
			if os.Getenv("RCVERIF_DEBUG_C18") != "" {
				fmt.Fprintln(os.Stderr, "C18dbg", name, kp.Name(), core.CallArg(c, qi), core.CallArg(c, ki), "dq", len(dq), "dk", len(dk))
				for pr := range dq {
					fmt.Fprintln(os.Stderr, "  dq", pr.Name(), valueParam(pr.Type()), dk[pr])
				}
			}
			all := true
			for pr := range dq {
				if valueParam(pr.Type()) && !dk[pr] {
					all = false
				}
			}
			if all {
				covered = true
				break
			}
		}
		if !covered {
			return false
		}
	}
	return true
}

func c18R4(p *core.Prog, r *core.Report) {
	const rule = "C18.R4"
	r.Rule(rule, "memoisation is sound: for every store into a package-level map of cmd/regsync, each by-value parameter the stored value is computed from is also an input of the key", 1)
	n := 0
	for _, fn := range pkgFuncs(p, "cmd/regsync") {
		lab := labeler{}
		for _, b := range fn.Blocks {
			for _, in := range b.Instrs {
				mu, ok := in.(*ssa.MapUpdate)
				if !ok {
					continue
				}
				g := globalMap(mu.Map)
				if g == nil {
					continue
				}
				n++
				label := lab.next("store into cache " + g.Name())
				vd, kd := dataDeps(mu.Value), dataDeps(mu.Key)
				var missing []string
				for pr := range vd {
					if valueParam(pr.Type()) && !kd[pr] {
						missing = append(missing, pr.Name())
					}
				}
				// a parameter that does not feed the key is still covered when, at every call site, a
				// parameter that does feed the key is computed from everything it is computed from (the
				// head of the reference is passed next to the reference: the key is its digest)
				var still []string
				for _, name := range missing {
					if !coveredAtCallers(p, fn, name, kd) {
						still = append(still, name)
					}
				}
				missing = still
				sort.Strings(missing)
				if len(missing) == 0 {
					r.Held(rule, p.FuncName(fn), label, p.Pos(mu.Pos()), fmt.Sprintf("value computed from %d parameter(s), all by-value ones feed the key", len(vd)))
				} else {
					r.Violated(rule, p.FuncName(fn), label, p.Pos(mu.Pos()), "the cached value is computed from parameter(s) "+strings.Join(missing, ", ")+" that the key does not depend on: a later call with a different value gets the entry stored for this one")
				}
			}
		}
	}
	if n == 0 {
		r.Note("%s: cmd/regsync keeps no package-level map cache", rule)
		r.Held(rule, "cmd/regsync", "no process-wide cache", "", "nothing to key")
	}
}

// c18R5: ownership of the listing that is filtered. The filter may blank rejected elements of the
// slice it was given; that is harmless only while the caller is the sole holder of that slice.
func c18R5(p *core.Prog, r *core.Report) {
	const rule = "C18.R5"
	r.Rule(rule, "a listing is filtered once: when the allow/deny filter writes into the []string it is given, every call site hands it a listing that nobody else holds (the result of a call outside the package, not a field, map element or package variable, looked at through the package's own helpers)", 1)
	unit := map[*ssa.Function]bool{}
	for _, f := range pkgFuncs(p, "cmd/regsync") {
		unit[f] = true
	}
	for _, f := range sortedFuncs(unit) {
		if f.Parent() != nil {
			continue
		}
		var ad bool
		var in []*ssa.Parameter
		for _, pr := range f.Params {
			if core.IsModNamed(pr.Type(), "cmd/regsync", "AllowDeny") {
				ad = true
			}
			if isStringSlice(pr.Type()) {
				in = append(in, pr)
			}
		}
		if !ad || len(in) == 0 {
			continue
		}
		fname := p.FuncName(f)
		// does it store into an element of a slice that may be the parameter?
		var writes ssa.Instruction
		for g := range core.Helpers(f, 2) {
			for _, b := range g.Blocks {
				for _, ins := range b.Instrs {
					st, ok := ins.(*ssa.Store)
					if !ok {
						continue
					}
					ia, ok := st.Addr.(*ssa.IndexAddr)
					if !ok || !isStringSlice(ia.X.Type()) {
						continue
					}
					for _, o := range core.Origins(ia.X, core.SliceOpts{Helpers: core.Helpers(f, 2)}) {
						if o.Kind == core.OParam && o.Param.Parent() == f {
							writes = st
						}
					}
				}
			}
		}
		if writes == nil {
			r.Held(rule, fname, "filter leaves its input alone", p.Pos(f.Pos()), "no store into an element of the slice parameter: sharing a listing between calls is harmless")
			continue
		}
		r.Held(rule, fname, "filter writes into its input", p.Pos(writes.Pos()), "an element of the slice that may be the parameter is overwritten: each call site is checked for sole ownership of the listing")
		idx := -1
		for i, q := range f.Params {
			if q == in[0] {
				idx = i
			}
		}
		lab := map[*ssa.Function]labeler{}
		for _, caller := range sortedFuncs(unit) {
			for _, c := range core.CallsTo(caller, func(cal *types.Func) bool { return cal == f.Object() }) {
				call, ok := c.(*ssa.Call)
				if !ok || idx >= len(call.Call.Args) {
					continue
				}
				if lab[caller] == nil {
					lab[caller] = labeler{}
				}
				label := lab[caller].next("listing passed to " + f.Name())
				var shared []string
				for _, o := range core.Origins(call.Call.Args[idx], core.SliceOpts{Helpers: unit, Callers: unit}) {
					switch o.Kind {
					case core.OCall:
						if g := core.CalleeFn(o.Call); g != nil && unit[g] {
							shared = append(shared, "result of "+g.Name()+" (not looked through)")
						}
					case core.OConst, core.OAlloc:
					case core.OField:
						shared = append(shared, "field "+o.Field)
					case core.OGlobal:
						shared = append(shared, "package variable "+o.Val.Name())
					default:
						shared = append(shared, o.Kind+" "+o.Val.Name())
					}
				}
				sort.Strings(shared)
				if len(shared) == 0 {
					r.Held(rule, p.FuncName(caller), label, p.Pos(call.Pos()), "the listing is the result of a call outside the package, made for this use")
				} else {
					r.Violated(rule, p.FuncName(caller), label, p.Pos(call.Pos()), "the filter blanks rejected elements of the slice it is given, and this listing is also held elsewhere ("+strings.Join(shared, "; ")+"): what one configuration entry rejects disappears for the next one")
				}
			}
		}
	}
}

// c18R6: the loop that pages through the source catalog decides "no more pages" and the next marker
// from the page the registry sent, not from what is left of it after the allow/deny filter: a page
// whose repositories are all filtered out is not the end of the catalog.
func c18R6(p *core.Prog, r *core.Report) {
	const rule = "C18.R6"
	r.Rule(rule, "paging looks at the raw page: in every marker-paged listing loop of cmd/regsync the exits that test the page length and the marker carried to the next request are computed from the listing the registry returned, not from the result of the allow/deny filter", 1)
	isListing := func(f *types.Func) bool {
		return core.IsModMethod(f, ".", "RegClient", "RepoList") || core.IsModMethod(f, ".", "RegClient", "TagList")
	}
	isFilter := func(g *ssa.Function) bool {
		if g == nil {
			return false
		}
		for _, pr := range g.Params {
			if core.IsModNamed(pr.Type(), "cmd/regsync", "AllowDeny") {
				return true
			}
		}
		return false
	}
	unit := map[*ssa.Function]bool{}
	for _, f := range pkgFuncs(p, "cmd/regsync") {
		if !isFilter(f) {
			unit[f] = true
		}
	}
	filtered := func(v ssa.Value) string {
		for _, o := range core.Origins(v, core.SliceOpts{Helpers: unit, Callers: unit}) {
			if o.Kind == core.OCall && isFilter(core.CalleeFn(o.Call)) {
				return core.CalleeFn(o.Call).Name()
			}
		}
		return ""
	}
	n := 0
	for _, fn := range sortedFuncs(unit) {
		lab := labeler{}
		for _, l := range core.Loops(fn) {
			if strings.HasPrefix(l.Header.Comment, "range") {
				continue
			}
			listing := pagerListing(l, isListing)
			if listing == nil {
				continue
			}
			n++
			fname := p.FuncName(fn)
			label := lab.next("marker pager")
			var bad []string
			for _, e := range l.Exits() {
				ifi, ok := core.LastInstr(e[0]).(*ssa.If)
				if !ok {
					continue
				}
				// every operand of the (possibly compound) exit condition
				var leaves []ssa.Value
				var split func(v ssa.Value, d int)
				split = func(v ssa.Value, d int) {
					switch x := v.(type) {
					case *ssa.BinOp:
						leaves = append(leaves, x.X, x.Y)
					case *ssa.UnOp:
						if d < 4 {
							split(x.X, d+1)
						}
					case *ssa.Phi:
						for _, ed := range x.Edges {
							if d < 4 {
								split(ed, d+1)
							}
						}
					}
				}
				split(ifi.Cond, 0)
				for _, side := range leaves {
					if c, ok := side.(*ssa.Call); ok {
						if b, ok := c.Call.Value.(*ssa.Builtin); ok && b.Name() == "len" && len(c.Call.Args) == 1 {
							if f := filtered(c.Call.Args[0]); f != "" {
								bad = append(bad, "an exit tests the length of the result of "+f)
							}
						}
					}
				}
			}
			// the marker: string phis of the header fed from inside the loop
			for _, in := range l.Header.Instrs {
				phi, ok := in.(*ssa.Phi)
				if !ok || !isStringType(phi.Type()) {
					continue
				}
				for i, ed := range phi.Edges {
					if l.Blocks[l.Header.Preds[i]] {
						if f := filtered(ed); f != "" {
							bad = append(bad, "the marker "+phi.Comment+" for the next request is taken from the result of "+f)
						}
					}
				}
			}
			sort.Strings(bad)
			bad = slices.Compact(bad)
			if len(bad) == 0 {
				r.Held(rule, fname, label, p.Pos(listing.Pos()), "page-length exits and the carried marker come from the listing call")
			} else {
				r.Violated(rule, fname, label, p.Pos(listing.Pos()), strings.Join(bad, "; ")+": a page whose entries are all rejected by the filter ends the walk although the catalog continues")
			}
		}
	}
	if n == 0 {
		r.Held(rule, "cmd/regsync", "no marker pager", "", "cmd/regsync pages through no listing itself")
	}
}

// c18R9: without a parallel setting the entries of a configuration run one after the other, in the
// order they are written: an entry may read what an earlier one wrote (upstream -> staging -> prod).
// The throttle only serialises the copies; each entry decides "image matches" before it takes a slot.
// So a goroutine per entry is started only where the parallel setting asks for it.
func c18R9(p *core.Prog, r *core.Report) {
	const rule = "C18.R9"
	r.Rule(rule, "entries run in configuration order unless parallelism was asked for: in cmd/regsync every go statement whose function reaches the per-entry processing is control-dependent on a test of the Parallel setting (each entry compares source and target before it takes the throttle, so running all entries at once lets a later entry decide on the state before an earlier one wrote)", 1)
	process := p.Method("cmd/regsync", "rootOpts", "process")
	if process == nil {
		r.MissingAnchor(rule, "cmd/regsync.(*rootOpts).process")
		return
	}
	toProcess := reachers(p, map[*ssa.Function]bool{process: true})
	toProcess[process] = true
	n := 0
	lab := map[*ssa.Function]labeler{}
	for _, fn := range pkgFuncs(p, "cmd/regsync") {
		for _, b := range fn.Blocks {
			for _, in := range b.Instrs {
				g, ok := in.(*ssa.Go)
				if !ok {
					continue
				}
				tgt := closureOf(g.Call.Value)
				if tgt == nil {
					tgt = g.Call.StaticCallee()
				}
				if tgt == nil || !toProcess[tgt] {
					continue
				}
				// a goroutine per entry: the go statement sits in a loop of a function that is not itself per-entry processing
				if !blockInCycle(b) || toProcess[fn] && fn != process && fn.Parent() != nil {
					continue
				}
				n++
				dep := parallelGuarded(p, in, 0)
				if lab[fn] == nil {
					lab[fn] = labeler{}
				}
				r.Check(dep, rule, p.FuncName(fn), lab[fn].next("goroutine per entry"), p.Pos(in.Pos()),
					"the entries are started concurrently whatever the parallel setting: an entry that reads what an earlier entry writes compares against the old state, reports a match and the run ends successfully with source and target different")
			}
		}
	}
	if n == 0 {
		r.Held(rule, "cmd/regsync", "goroutine per entry", "", "no loop starts a goroutine per configured entry")
	}
}

// parallelGuarded: the instruction is control-dependent on a test of the Parallel setting — written in
// place, through a predicate method (`func (c ConfigDefaults) parallelEntries() bool`), or because
// every call of the enclosing function is (the loop was split into a serial and a parallel function).
func parallelGuarded(p *core.Prog, in ssa.Instruction, depth int) bool {
	var onParallel func(v ssa.Value, d int) bool
	onParallel = func(v ssa.Value, d int) bool {
		if dependsOnField(v, modPath("cmd/regsync"), "ConfigDefaults", "Parallel") {
			return true
		}
		v, _ = core.StripNot(v, true)
		if ph, ok := v.(*ssa.Phi); ok && d < 3 {
			for _, e := range ph.Edges {
				if onParallel(e, d+1) {
					return true
				}
			}
		}
		c, ok := v.(*ssa.Call)
		if !ok || d > 2 {
			return false
		}
		g := c.Call.StaticCallee()
		if g == nil || !p.InModule(g) || len(g.Blocks) == 0 || len(g.Blocks) > 6 {
			return false
		}
		for _, ret := range core.Returns(g) {
			for _, rv := range ret.Results {
				if onParallel(rv, d+1) {
					return true
				}
			}
		}
		return false
	}
	for _, ifi := range core.ControlDeps(in) {
		if onParallel(ifi.Cond, 0) {
			return true
		}
	}
	if depth >= 2 {
		return false
	}
	fn := in.Parent()
	callers := p.Callers(fn)
	if len(callers) == 0 {
		return false
	}
	for _, st := range callers {
		if c, ok := st.Site.(ssa.CallInstruction); !ok || core.CalleeFn(c) != fn || !parallelGuarded(p, st.Site, depth+1) {
			return false
		}
	}
	return true
}

func funcSetOf[T any](m map[*ssa.Function]T) map[*ssa.Function]bool {
	out := map[*ssa.Function]bool{}
	for f := range m {
		out[f] = true
	}
	return out
}

package rules

import (
	"fmt"
	"go/ast"
	"go/parser"
	"go/token"
	"go/types"
	"strings"

	"golang.org/x/tools/go/ssa"

	"verif/internal/core"
)

func init() {
	register(&Spec{
		ID: "C06",
		Decides: "layout: every access to state guarded by the layout mutex and every index read/write helper runs with the mutex held, no helper that runs under the caller's lock releases it, nothing that takes the lock is called with it held, and every index read-modify-write function holds it from the read to the write; " +
			"no slice of the tag/referrer tables is shrunk while being ranged over forwards; registry tag-delete fallback deletes the digest of the placeholder it pushed (never the live manifest) and the placeholder is unique (time stamp + tag); " +
			"the tag listing loop exits only on the limit, on an error, or when no next link was returned, and appends every page; every cache access of the registry scheme uses the digest-normalised key; " +
			"in the layout a loose (suffix) match of a ref.name annotation is only tried after a complete exact pass found nothing.",
		NotCovered: "agreement with a reference map over all histories; indexSet pruning semantics; which entry a suffix match picks among several foreign names; registry-side semantics.",
		Run:        runC06,
	})
}

func runC06(p *core.Prog, r *core.Report) {
	c06R1(p, r)
	c06R2(p, r)
	c06R3(p, r)
	c06R4(p, r, "C06.R4")
	r.Rule("C06.R5", "every access to the registry scheme's manifest/referrer caches keys by the SetDigest-normalised reference, so a delete evicts exactly what a put or get stored", 8)
	cacheKeyRule(p, r, "C06.R5", regCacheCalls(p))
	c06R6(p, r, "C06.R6")
	staleIndexRule(p, r, "C06.R7")
	c06R8(p, r)
	c06R9(p, r, "C06.R9")
	// the collection that Close runs does not interleave with a push of the same client: the sweep holds the layout mutex (shared with C08.R2)
	c08R2(p, r, "C06.R10")
	c06R11(p, r, "C06.R11")
	// head and get answer from the file as it is now (shared with C14.R9)
	indexFreshRule(p, r, "C06.R12")
	c06R13(p, r)
}

// c06R9: an entry without a name is not the entry of the empty tag. Where an entry's ref.name
// annotation is compared with the requested tag, either the annotation is known to be present (the
// comma-ok form of the lookup) or the tag is known to be set.
func c06R9(p *core.Prog, r *core.Report, rule string) {
	r.Rule(rule, "untagged entries are not matched by an empty tag: every exact comparison of a ref.name annotation with the requested tag in scheme/ocidir is guarded by the presence of the annotation (comma-ok lookup, or a test that it is not empty) or by a test that the tag is not empty (a push by digest must not replace, and a later collection must not sweep, the untagged entries of other images)", 3)
	n := 0
	for _, fn := range pkgFuncs(p, "scheme/ocidir") {
		lab := labeler{}
		for _, b := range fn.Blocks {
			for _, in := range b.Instrs {
				bo, ok := in.(*ssa.BinOp)
				if !ok || bo.Op != token.EQL {
					continue
				}
				var name, tag ssa.Value
				switch {
				case refNameLookup(bo.X, map[ssa.Value]bool{}) && isTagValue(bo.Y):
					name, tag = bo.X, bo.Y
				case refNameLookup(bo.Y, map[ssa.Value]bool{}) && isTagValue(bo.X):
					name, tag = bo.Y, bo.X
				default:
					continue
				}
				n++
				label := lab.next("ref.name == tag")
				guarded := false
				// the annotation came from a comma-ok lookup whose ok is tested
				commaOK := func(v ssa.Value) bool {
					ex, ok := v.(*ssa.Extract)
					if !ok || ex.Index != 0 {
						return false
					}
					lk, ok := ex.Tuple.(*ssa.Lookup)
					return ok && lk.CommaOk
				}
				if commaOK(name) {
					guarded = true
				}
				for _, g := range core.Guards(b) {
					c, pol := core.StripNot(g.Cond, g.Polarity)
					if gb, ok := c.(*ssa.BinOp); ok && (gb.Op == token.NEQ || gb.Op == token.EQL) {
						for _, side := range [][2]ssa.Value{{gb.X, gb.Y}, {gb.Y, gb.X}} {
							if sv, isC := core.ConstString(side[1]); isC && sv == "" && isTagValue(side[0]) && (gb.Op == token.NEQ) == pol {
								guarded = true
							}
							// the annotation itself is known not to be empty: an entry without a name cannot match
							if sv, isC := core.ConstString(side[1]); isC && sv == "" && refNameLookup(side[0], map[ssa.Value]bool{}) && (gb.Op == token.NEQ) == pol {
								guarded = true
							}
						}
					}
				}
				// an early return on the empty tag at the head of the (enclosing) function
				for f := fn; f != nil && !guarded; f = f.Parent() {
					for _, eb := range f.Blocks {
						ifi, ok := core.LastInstr(eb).(*ssa.If)
						if !ok {
							continue
						}
						c, pol := core.StripNot(ifi.Cond, true)
						gb, ok := c.(*ssa.BinOp)
						if !ok || (gb.Op != token.EQL && gb.Op != token.NEQ) {
							continue
						}
						sv, isC := core.ConstString(gb.Y)
						if !isC || sv != "" || !isTagValue(gb.X) {
							continue
						}
						// the successor taken when the tag is empty only returns
						emptySucc := eb.Succs[0]
						if (gb.Op == token.EQL) != pol {
							emptySucc = eb.Succs[1]
						}
						if _, isRet := core.LastInstr(emptySucc).(*ssa.Return); isRet && f == fn && eb.Dominates(b) {
							guarded = true
						}
					}
				}
				_ = tag
				r.Check(guarded, rule, p.FuncName(fn), label, p.Pos(bo.Pos()), "the annotation of an entry (empty when the entry has none) is compared with a tag that may be empty: a request without a tag matches every untagged entry of the index")
			}
		}
	}
	if n == 0 {
		r.MissingAnchor(rule, "comparisons of ref.name annotations with the requested tag in scheme/ocidir")
	}
}

// lockProblemsToReport turns the problems of a lock analysis into violations of rule.
func lockProblemsToReport(p *core.Prog, r *core.Report, rule string, li *core.LockInfo) {
	lab := map[string]labeler{}
	for _, pr := range li.Problems {
		fname := p.FuncName(pr.Fn)
		if lab[fname] == nil {
			lab[fname] = labeler{}
		}
		pos := "-"
		if pr.At != nil {
			pos = p.Pos(pr.At.Pos())
		}
		if pr.Kind == "undecided-flag" {
			r.Undecided(rule, fname, lab[fname].next(pr.Kind), pos, pr.Detail)
			continue
		}
		r.Violated(rule, fname, lab[fname].next(pr.Kind), pos, pr.Detail)
	}
}

func c06R1(p *core.Prog, r *core.Report) {
	const rule = "C06.R1"
	r.Rule(rule, "layout index read-modify-write is one critical section of the layout mutex: all guarded accesses held, no split critical section, no self-deadlock, lock held continuously from index read to index write", 20)
	li, _ := ocidirLockInfo(p)
	if li == nil {
		r.MissingAnchor(rule, ocidirRel+".OCIDir (mutex field)")
		return
	}
	bad := map[ssa.Instruction]bool{}
	for _, pr := range li.Problems {
		if pr.At != nil {
			bad[pr.At] = true
		}
	}
	lab := map[string]labeler{}
	for _, op := range li.Ops {
		if bad[op.At] || op.State != core.LHeld {
			continue
		}
		fname := p.FuncName(op.Fn)
		if lab[fname] == nil {
			lab[fname] = labeler{}
		}
		r.Held(rule, fname, lab[fname].next(op.What), p.Pos(op.At.Pos()), "executes with "+li.Spec.ID.String()+" held ("+op.Ctx+")")
	}
	lockProblemsToReport(p, r, rule, li)
	// read-modify-write units
	readers := map[string]bool{"readIndex": true, "manifestGet": true, "referrerList": true}
	writers := map[string]bool{"writeIndex": true, "updateIndex": true, "manifestPut": true, "tagDelete": true}
	units := 0
	for _, fn := range pkgFuncs(p, ocidirRel) {
		var rd, wr []ssa.CallInstruction
		core.Calls(fn, func(c ssa.CallInstruction) {
			g := core.CalleeFn(c)
			if g == nil || core.FuncPkg(g) == nil || core.FuncPkg(g).Path() != modPath(ocidirRel) {
				return
			}
			if readers[canon(g)] {
				rd = append(rd, c)
			}
			if writers[canon(g)] {
				wr = append(wr, c)
			}
		})
		if len(rd) == 0 || len(wr) == 0 {
			continue
		}
		fname := p.FuncName(fn)
		ok := true
		detail := "lock held from every index read to every following index write"
		pairs := 0
		for _, a := range rd {
			from := core.Reach{}.FromInstr(a.(ssa.Instruction))
			for _, b := range wr {
				if !from[b.(ssa.Instruction)] {
					continue
				}
				pairs++
				if u := li.UnlockBetween(a.(ssa.Instruction), b.(ssa.Instruction)); u != nil {
					ok = false
					detail = "the lock is released at " + p.Pos(u.Pos()) + " between the index read at " + p.Pos(a.Pos()) + " and the write at " + p.Pos(b.Pos()) + ": a concurrent update can be lost"
				}
				for _, x := range []ssa.CallInstruction{a, b} {
					s := li.StateAt(x.(ssa.Instruction))
					if li.FlagOf[fn] != nil {
						s = li.StateAtCtx(x.(ssa.Instruction), false)
					}
					if s != core.LHeld && s != core.LUnreached {
						ok = false
						detail = "index access at " + p.Pos(x.Pos()) + " runs with the lock " + s.String()
					}
				}
			}
		}
		if pairs == 0 {
			continue
		}
		units++
		r.Check(ok, rule, fname, "read-modify-write unit", p.Pos(fn.Pos()), detail)
	}
	if units < 4 {
		r.Undecided(rule, "-", "rmw floor", "-", fmt.Sprintf("found %d index read-modify-write functions, 4 confirmed by hand", units))
	}
}

// ---------------------------------------------------------------------------------------------
// R2 delete while ranging forward (AST)

var c06Scope = []string{"scheme/ocidir", "scheme/reg", "types/referrer", "types/tag", "internal/pqueue"}

const c06PositiveExample = `package x
import "slices"
func f(s []int) []int {
	for i, v := range s {
		if v == 0 {
			s = slices.Delete(s, i, i+1)
		}
	}
	return s
}
func g(s []int) []int {
	for i := len(s) - 1; i >= 0; i-- {
		if s[i] == 0 {
			s = slices.Delete(s, i, i+1)
		}
	}
	return s
}
func h(s []int) []int {
	for i := range s {
		if s[i] == 0 {
			s = append(s[:i], s[i+1:]...)
			break
		}
	}
	return s
}
`

// forwardDeleteSites finds, in a function body, assignments `s = slices.Delete(s, i, …)` or
// `s = append(s[:i], s[i+1:]...)` inside a loop that walks s forwards by index i, where the loop is
// not left immediately after the deletion.
func forwardDeleteSites(body ast.Node) []ast.Node {
	var out []ast.Node
	var loops []ast.Stmt
	var inspect func(n ast.Node)
	exprStr := func(e ast.Expr) string { return types.ExprString(e) }
	check := func(as *ast.AssignStmt, stack []ast.Node) {
		if len(as.Lhs) != 1 || len(as.Rhs) != 1 {
			return
		}
		call, ok := as.Rhs[0].(*ast.CallExpr)
		if !ok {
			return
		}
		target := exprStr(as.Lhs[0])
		idx := ""
		switch fn := call.Fun.(type) {
		case *ast.SelectorExpr:
			if fn.Sel.Name == "Delete" && exprStr(fn.X) == "slices" && len(call.Args) >= 2 && exprStr(call.Args[0]) == target {
				idx = exprStr(call.Args[1])
			}
		case *ast.Ident:
			if fn.Name == "append" && len(call.Args) == 2 && call.Ellipsis.IsValid() {
				if s1, ok := call.Args[0].(*ast.SliceExpr); ok && exprStr(s1.X) == target && s1.Low == nil && s1.High != nil {
					idx = exprStr(s1.High)
				}
			}
		}
		if idx == "" {
			return
		}
		// innermost enclosing loop that iterates `target` forwards with index idx
		for k := len(loops) - 1; k >= 0; k-- {
			forward := false
			switch l := loops[k].(type) {
			case *ast.RangeStmt:
				if l.Key != nil && exprStr(l.Key) == idx && exprStr(l.X) == target {
					forward = true
				}
			case *ast.ForStmt:
				if inc, ok := l.Post.(*ast.IncDecStmt); ok && inc.Tok == token.INC && exprStr(inc.X) == idx {
					if cond, ok := l.Cond.(*ast.BinaryExpr); ok && strings.Contains(exprStr(cond.Y), target) {
						forward = true
					}
				}
			}
			if !forward {
				continue
			}
			// is the deletion followed, in its own block, by break/return (leaving the loop at once)?
			if leavesAfter(as, stack) {
				return
			}
			// `i--` compensation directly after the delete is also accepted
			if compensates(as, stack, idx) {
				return
			}
			out = append(out, as)
			return
		}
	}
	var stack []ast.Node
	inspect = func(n ast.Node) {
		ast.Inspect(n, func(x ast.Node) bool {
			if x == nil {
				top := stack[len(stack)-1]
				stack = stack[:len(stack)-1]
				if st, ok := top.(ast.Stmt); ok && len(loops) > 0 && loops[len(loops)-1] == st {
					loops = loops[:len(loops)-1]
				}
				return true
			}
			stack = append(stack, x)
			switch y := x.(type) {
			case *ast.RangeStmt:
				loops = append(loops, y)
			case *ast.ForStmt:
				loops = append(loops, y)
			case *ast.FuncLit:
				// a literal is a separate function: loops outside do not apply
				saved := loops
				loops = nil
				savedStack := stack
				stack = nil
				inspect(y.Body)
				loops = saved
				stack = savedStack
				stack = stack[:len(stack)-1]
				return false
			case *ast.AssignStmt:
				check(y, stack)
			}
			return true
		})
	}
	inspect(body)
	return out
}

func leavesAfter(as *ast.AssignStmt, stack []ast.Node) bool {
	for k := len(stack) - 1; k >= 0; k-- {
		blk, ok := stack[k].(*ast.BlockStmt)
		if !ok {
			continue
		}
		found := false
		for _, st := range blk.List {
			if st == ast.Stmt(as) {
				found = true
				continue
			}
			if found {
				switch s := st.(type) {
				case *ast.BranchStmt:
					if s.Tok == token.BREAK {
						return true
					}
				case *ast.ReturnStmt:
					return true
				}
			}
		}
		return false
	}
	return false
}

func compensates(as *ast.AssignStmt, stack []ast.Node, idx string) bool {
	for k := len(stack) - 1; k >= 0; k-- {
		blk, ok := stack[k].(*ast.BlockStmt)
		if !ok {
			continue
		}
		found := false
		for _, st := range blk.List {
			if st == ast.Stmt(as) {
				found = true
				continue
			}
			if found {
				if inc, ok := st.(*ast.IncDecStmt); ok && inc.Tok == token.DEC && types.ExprString(inc.X) == idx {
					return true
				}
			}
		}
		return false
	}
	return false
}

func c06R2(p *core.Prog, r *core.Report) {
	const rule = "C06.R2"
	r.Rule(rule, "no delete-while-ranging-forward over a slice in the packages that keep the tag and referrer tables (a forward loop that removes element i skips element i+1)", 8)
	// positive example: the matcher must find exactly the first function of the embedded example
	fset := token.NewFileSet()
	ex, err := parser.ParseFile(fset, "example.go", c06PositiveExample, 0)
	if err != nil {
		r.Undecided(rule, "checker", "positive example", "-", "embedded example does not parse: "+err.Error())
	} else {
		var got []string
		for _, d := range ex.Decls {
			if fd, ok := d.(*ast.FuncDecl); ok && len(forwardDeleteSites(fd.Body)) > 0 {
				got = append(got, fd.Name.Name)
			}
		}
		r.Check(strings.Join(got, ",") == "f", rule, "checker", "positive example", "-", "the matcher flags the forward range+delete of the embedded example and accepts the reverse loop and delete+break (flagged: "+strings.Join(got, ",")+")")
	}
	sites := 0
	for _, rel := range c06Scope {
		pkg := p.Pkg(rel)
		if pkg == nil {
			r.MissingAnchor(rule, rel)
			continue
		}
		for _, f := range pkg.Syntax {
			for _, d := range f.Decls {
				fd, ok := d.(*ast.FuncDecl)
				if !ok || fd.Body == nil {
					continue
				}
				fname := rel + "." + declName(fd)
				// count deletion sites for the floor and report each
				lab := labeler{}
				flagged := map[ast.Node]bool{}
				for _, n := range forwardDeleteSites(fd.Body) {
					flagged[n] = true
				}
				ast.Inspect(fd.Body, func(n ast.Node) bool {
					as, ok := n.(*ast.AssignStmt)
					if !ok || len(as.Rhs) != 1 {
						return true
					}
					call, ok := as.Rhs[0].(*ast.CallExpr)
					if !ok {
						return true
					}
					isDel := false
					if se, ok := call.Fun.(*ast.SelectorExpr); ok && se.Sel.Name == "Delete" && types.ExprString(se.X) == "slices" {
						isDel = true
					}
					if id, ok := call.Fun.(*ast.Ident); ok && id.Name == "append" && call.Ellipsis.IsValid() && len(call.Args) == 2 {
						if _, ok := call.Args[0].(*ast.SliceExpr); ok {
							isDel = true
						}
					}
					if !isDel {
						return true
					}
					sites++
					label := lab.next("delete from " + types.ExprString(as.Lhs[0]))
					if flagged[as] {
						r.Violated(rule, fname, label, p.Pos(as.Pos()), "element removed from the slice being ranged over forwards without leaving the loop: the element after each removed one is skipped (adjacent duplicates survive)")
					} else {
						r.Held(rule, fname, label, p.Pos(as.Pos()), "reverse loop, single delete followed by break/return, or not inside a forward loop over the same slice")
					}
					return true
				})
			}
		}
	}
	_ = sites
}

func declName(fd *ast.FuncDecl) string {
	if fd.Recv != nil && len(fd.Recv.List) == 1 {
		t := types.ExprString(fd.Recv.List[0].Type)
		if strings.HasPrefix(t, "*") {
			return "(" + t + ")." + fd.Name.Name
		}
		return "(" + t + ")." + fd.Name.Name
	}
	return fd.Name.Name
}

// ---------------------------------------------------------------------------------------------
// R3 tag delete fallback

func c06R3(p *core.Prog, r *core.Report) {
	const rule = "C06.R3"
	r.Rule(rule, "registry tag-delete fallback: the digest deleted is the digest of the placeholder manifest pushed in the same call, and the placeholder's config carries the tag and the current time", 3)
	fn := p.Method("scheme/reg", "Reg", "TagDelete")
	if fn == nil {
		r.MissingAnchor(rule, "scheme/reg.(*Reg).TagDelete")
		return
	}
	fname := p.FuncName(fn)
	puts := core.CallsTo(fn, func(f *types.Func) bool { return core.IsModMethod(f, "scheme/reg", "Reg", "ManifestPut") })
	dels := core.CallsTo(fn, func(f *types.Func) bool { return core.IsModMethod(f, "scheme/reg", "Reg", "ManifestDelete") })
	if len(puts) == 0 || len(dels) == 0 {
		r.Undecided(rule, fname, "fallback shape", p.Pos(fn.Pos()), "no ManifestPut + ManifestDelete pair found: fallback idiom not recognised")
		return
	}
	isNew := func(f *types.Func) bool { return core.IsModFunc(f, "types/manifest", "New") }
	helpers := core.Helpers(fn, 2) // the placeholder may be built by an unexported helper
	callSet := func(v ssa.Value) map[*ssa.Call]bool {
		m := map[*ssa.Call]bool{}
		for _, o := range core.Origins(v, core.SliceOpts{Helpers: helpers}) {
			if o.Kind == core.OCall {
				m[o.Call] = true
			}
		}
		return m
	}
	for _, d := range dels {
		// the ref argument: through AddDigest/SetDigest to the digest string argument
		refArg := core.CallArg(d, 2)
		var digestSrc []ssa.Value
		for _, oc := range originCalls(refArg) {
			cal := core.Callee(oc)
			if cal != nil && (cal.Name() == "AddDigest" || cal.Name() == "SetDigest") {
				digestSrc = append(digestSrc, oc.Call.Args[len(oc.Call.Args)-1])
			}
		}
		ok := len(digestSrc) > 0
		detail := "deleted ref does not come from AddDigest/SetDigest of a manifest descriptor"
		for _, ds := range digestSrc {
			// digest string originates from GetDescriptor() of some manifest value
			var recv ssa.Value
			other := ""
			for _, o := range core.Origins(ds, core.SliceOpts{FieldsThrough: true, Through: func(c *ssa.Call) []int {
				cal := core.Callee(c)
				if cal != nil && cal.Name() == "String" {
					return []int{0}
				}
				return nil
			}}) {
				if o.Kind == core.OCall && o.Callee() != nil && o.Callee().Name() == "GetDescriptor" {
					recv = core.CallArg(o.Call, 0)
				} else {
					other = o.Describe()
				}
			}
			if recv != nil && other != "" {
				ok = false
				detail = "the digest that is deleted can also come from " + other + ": only the digest of the placeholder built in this call may be deleted (a digest read back from the registry can be that of a live image pushed in between, and deleting it removes every tag that shares it)"
				continue
			}
			if recv == nil {
				ok = false
				detail = "digest of the deleted ref does not originate from GetDescriptor() of a manifest"
				continue
			}
			want := callSet(core.CallArg(puts[0], 3))
			got := callSet(recv)
			same := len(want) > 0 && len(want) == len(got)
			for c := range got {
				if !want[c] || !isNew(core.Callee(c)) {
					same = false
				}
			}
			if !same {
				ok = false
				detail = "the manifest whose digest is deleted is not the placeholder that was pushed (it must never be the manifest read from the registry: that would delete the live image and every tag sharing it)"
			} else {
				detail = "deleted digest is GetDescriptor().Digest of the placeholder built by manifest.New and pushed by ManifestPut"
			}
		}
		r.Check(ok, rule, fname, "ManifestDelete(placeholder digest)", p.Pos(d.Pos()), detail)
		// order: delete after put
		r.Check(core.DominatesInstr(puts[0].(ssa.Instruction), d.(ssa.Instruction)) && errGuardedNil(d.(ssa.Instruction), puts[0].(*ssa.Call)), rule, fname, "delete only after successful put", p.Pos(d.Pos()),
			"the placeholder must have replaced the tag before its digest is deleted")
	}
	// uniqueness: time.Now() and r.Tag flow into the marshalled config
	var marshal ssa.CallInstruction
	for _, c := range core.CallsTo(fn, func(f *types.Func) bool { return core.IsFunc(f, "encoding/json", "Marshal") }) {
		marshal = c
	}
	if marshal == nil {
		r.Undecided(rule, fname, "placeholder uniqueness", p.Pos(fn.Pos()), "no json.Marshal of the placeholder config found")
		return
	}
	nowOK := false
	for _, c := range core.CallsTo(fn, func(f *types.Func) bool { return core.IsFunc(f, "time", "Now") }) {
		if flowsInto(c.Value(), core.CallArg(marshal, 0)) {
			nowOK = true
		}
	}
	r.Check(nowOK, rule, fname, "placeholder uniqueness", p.Pos(marshal.Pos()), "time.Now() flows into the placeholder config, so its digest differs from every stored manifest (otherwise deleting it could delete a manifest other tags share)")
}

// ---------------------------------------------------------------------------------------------
// R4 tag listing loop

func c06R4(p *core.Prog, r *core.Report, rule string) {
	r.Rule(rule, "the registry tag listing loop leaves only on the limit test, on an error, or when the server sent no next link; every fetched page is appended", 2)
	fn := p.Method("scheme/reg", "Reg", "TagList")
	if fn == nil {
		r.MissingAnchor(rule, "scheme/reg.(*Reg).TagList")
		return
	}
	fname := p.FuncName(fn)
	doers := reachers(p, httpDoers(p))
	for _, l := range core.Loops(fn) {
		var fetch []*ssa.Call
		l.Instrs(func(in ssa.Instruction) {
			if c, ok := in.(*ssa.Call); ok {
				if g := core.CalleeFn(c); g != nil && doers[g] {
					fetch = append(fetch, c)
				}
			}
		})
		if len(fetch) == 0 {
			continue
		}
		// every page flows into Append
		for _, fc := range fetch {
			ok := false
			l.Instrs(func(in ssa.Instruction) {
				c, isCall := in.(*ssa.Call)
				if !isCall {
					return
				}
				cal := core.Callee(c)
				if cal == nil || cal.Name() != "Append" || !core.IsModNamed(core.CallArg(c, 0).Type(), "types/tag", "List") {
					return
				}
				for _, oc := range originCalls(core.CallArg(c, 1)) {
					if oc == fc {
						ok = true
					}
				}
			})
			r.Check(ok, rule, fname, "page appended", p.Pos(fc.Pos()), "the result of the page request must be passed to (*tag.List).Append inside the loop: a dropped page makes the listing incomplete")
		}
		// exits
		lab := labeler{}
		for _, e := range l.Exits() {
			ifi, isIf := core.LastInstr(e[0]).(*ssa.If)
			if !isIf {
				r.Undecided(rule, fname, lab.next("loop exit"), p.Pos(core.LastInstr(e[0]).Pos()), "unconditional exit from the paging loop")
				continue
			}
			kind := ""
			cnd, _ := core.StripNot(ifi.Cond, true)
			if x, _, ok := errCmpNil(cnd); ok {
				kind = "error or absent next link"
				isLinkGet := false
				for _, oc := range originCalls(x) {
					if cal := core.Callee(oc); cal != nil && cal.Pkg() != nil && cal.Pkg().Path() == modPath("internal/httplink") {
						isLinkGet = true
					}
				}
				if isLinkGet {
					kind = "no rel=next link returned"
				} else if !onlyErrorReturn(e[1]) {
					// a nil test that leaves the loop without returning an error must be the link test
					kind = ""
				}
			} else if ex, ok := cnd.(*ssa.Extract); ok && linkHelperSaysNoMore(p, ex) {
				kind = "no rel=next link returned (decided in a helper)"
			} else if bo, ok := cnd.(*ssa.BinOp); ok {
				usesLimit := false
				for _, side := range []ssa.Value{bo.X, bo.Y} {
					if fieldLoadOf(side, modPath("scheme"), "TagConfig", "Limit") {
						usesLimit = true
					}
				}
				if usesLimit {
					kind = "limit test"
				}
			}
			if kind == "" {
				r.Violated(rule, fname, lab.next("loop exit"), p.Pos(ifi.Pos()), "the paging loop can be left on a condition that is neither the limit, an error return, nor the absence of a next link: listings may be cut short")
			} else {
				r.Held(rule, fname, lab.next("loop exit"), p.Pos(ifi.Pos()), kind)
			}
		}
	}
}

// onlyErrorReturn: block b (outside the loop) ends in a return (possibly after straight-line code).
func onlyErrorReturn(b *ssa.BasicBlock) bool {
	for i := 0; i < 6 && b != nil; i++ {
		switch core.LastInstr(b).(type) {
		case *ssa.Return:
			return true
		case *ssa.Jump:
			b = b.Succs[0]
		default:
			return false
		}
	}
	return false
}

// ---------------------------------------------------------------------------------------------
// R6 an exact tag match is never pre-empted by a loose one

const ociRefNameAnnotation = "org.opencontainers.image.ref.name"

// refNameLookup reports whether v is (derived by extraction/phi from) a lookup of the OCI ref.name
// annotation in a map.
func refNameLookup(v ssa.Value, seen map[ssa.Value]bool) bool {
	if v == nil || seen[v] {
		return false
	}
	seen[v] = true
	switch x := v.(type) {
	case *ssa.Lookup:
		if s, ok := core.ConstString(x.Index); ok && s == ociRefNameAnnotation {
			return true
		}
	case *ssa.Extract:
		return refNameLookup(x.Tuple, seen)
	case *ssa.Phi:
		for _, e := range x.Edges {
			if refNameLookup(e, seen) {
				return true
			}
		}
	case *ssa.UnOp:
		if x.Op == token.MUL {
			if a, ok := x.X.(*ssa.Alloc); ok {
				for _, st := range core.StoresToCell(a) {
					if refNameLookup(st.Val, seen) {
						return true
					}
				}
			}
		}
	}
	return false
}

// isTagValue: the value is computed from the Tag field of a reference or from a string parameter
// (a helper that receives the requested tag).
func isTagValue(v ssa.Value) bool {
	if dependsOnField(v, modPath("types/ref"), "Ref", "Tag") {
		return true
	}
	for _, o := range core.Origins(v, core.SliceOpts{}) {
		if o.Kind == core.OParam && types.Identical(o.Param.Type().Underlying(), types.Typ[types.String]) {
			return true
		}
		if o.Kind == core.OBinOp {
			if bo, ok := o.Val.(*ssa.BinOp); ok {
				for _, x := range []ssa.Value{bo.X, bo.Y} {
					if pr, ok := x.(*ssa.Parameter); ok && types.Identical(pr.Type().Underlying(), types.Typ[types.String]) {
						return true
					}
				}
			}
		}
	}
	return false
}

func c06R6(p *core.Prog, r *core.Report, rule string) {
	r.Rule(rule, "layout tag lookup: a loose comparison of a ref.name annotation (suffix, prefix, substring, case folding, pattern) is evaluated only after a complete pass of exact comparisons over the same entries has found nothing, so an exact tag can never be shadowed by a foreign name that merely ends in it", 1)
	loose := map[string]bool{"HasSuffix": true, "HasPrefix": true, "Contains": true, "EqualFold": true, "Index": true, "LastIndex": true, "MatchString": true, "Cut": true, "TrimPrefix": true, "TrimSuffix": true}
	n := 0
	type scanT struct {
		exact []*ssa.BinOp
		loose []*ssa.Call
	}
	scans := map[*ssa.Function]scanT{}
	exactOnly := map[*ssa.Function]bool{}
	scan := func(fn *ssa.Function) (exact []*ssa.BinOp, looseCalls []*ssa.Call) {
		for _, b := range fn.Blocks {
			for _, in := range b.Instrs {
				switch x := in.(type) {
				case *ssa.BinOp:
					if x.Op == token.EQL && (refNameLookup(x.X, map[ssa.Value]bool{}) || refNameLookup(x.Y, map[ssa.Value]bool{})) {
						exact = append(exact, x)
					}
				case *ssa.Call:
					cal := core.Callee(x)
					if cal == nil || cal.Pkg() == nil || !loose[cal.Name()] {
						continue
					}
					if pp := cal.Pkg().Path(); pp != "strings" && pp != "regexp" && pp != "path" && pp != "path/filepath" {
						continue
					}
					// a lookup: the annotation is matched against the requested tag
					isName, isTag := false, false
					for _, a := range x.Call.Args {
						if refNameLookup(a, map[ssa.Value]bool{}) {
							isName = true
						} else if isTagValue(a) {
							isTag = true
						}
					}
					if isName && isTag {
						looseCalls = append(looseCalls, x)
					}
				}
			}
		}
		// only comparisons against the requested tag (a Ref's Tag or a string parameter) are lookups
		var ex2 []*ssa.BinOp
		for _, e := range exact {
			if isTagValue(e.X) || isTagValue(e.Y) {
				ex2 = append(ex2, e)
			}
		}
		return ex2, looseCalls
	}
	for _, fn := range pkgFuncs(p, "scheme/ocidir") {
		e, l := scan(fn)
		scans[fn] = scanT{e, l}
		if len(e) > 0 && len(l) == 0 {
			exactOnly[fn] = true
		}
	}
	// Passes written with slices.IndexFunc / ContainsFunc: the predicate literal holds the comparison,
	// the call in the enclosing function is the pass. A loose pass must be guarded by the "not found"
	// result of an exact pass of the same function.
	type pass struct {
		call  *ssa.Call
		exact bool
		loose *ssa.Call
	}
	passes := map[*ssa.Function][]pass{}
	for _, fn := range pkgFuncs(p, "scheme/ocidir") {
		core.Calls(fn, func(c ssa.CallInstruction) {
			call, ok := c.(*ssa.Call)
			cal := core.Callee(c)
			if !ok || cal == nil || cal.Pkg() == nil || cal.Pkg().Path() != "slices" || !(strings.HasSuffix(cal.Name(), "Func")) || len(call.Call.Args) < 2 {
				return
			}
			for _, lit := range hookFuncs(p, call.Call.Args[1], 0) {
				sc, has := scans[lit]
				if !has || (len(sc.exact) == 0 && len(sc.loose) == 0) {
					continue
				}
				ps := pass{call: call, exact: len(sc.exact) > 0 && len(sc.loose) == 0}
				if len(sc.loose) > 0 {
					ps.loose = sc.loose[0]
				}
				passes[fn] = append(passes[fn], ps)
				delete(scans, lit) // judged at the enclosing function
			}
		})
	}
	for _, fn := range sortedFuncs(func() map[*ssa.Function]bool {
		m := map[*ssa.Function]bool{}
		for f := range passes {
			m[f] = true
		}
		return m
	}()) {
		fname := p.FuncName(fn)
		lab := labeler{}
		nExact := 0
		for _, ps := range passes[fn] {
			if ps.exact {
				nExact++
			}
		}
		for _, ps := range passes[fn] {
			if ps.loose == nil {
				continue
			}
			n++
			label := lab.next("loose ref.name match " + ps.loose.Call.Value.Name())
			ok := false
			for _, ex := range passes[fn] {
				if !ex.exact || !core.DominatesInstr(ex.call, ps.call) {
					continue
				}
				// guarded by "the exact pass found nothing": result < 0, == -1, or !found
				for _, g := range core.Guards(ps.call.Block()) {
					c, pol := core.StripNot(g.Cond, g.Polarity)
					fromExact := func(v ssa.Value) bool {
						for _, oc := range originCalls(v) {
							if oc == ex.call {
								return true
							}
						}
						return v == ssa.Value(ex.call)
					}
					if bo, isBo := c.(*ssa.BinOp); isBo {
						k, isK := core.ConstInt(bo.Y)
						switch {
						case bo.Op == token.LSS && isK && k == 0 && fromExact(bo.X) && pol,
							bo.Op == token.GEQ && isK && k == 0 && fromExact(bo.X) && !pol,
							bo.Op == token.EQL && isK && k == -1 && fromExact(bo.X) && pol,
							bo.Op == token.NEQ && isK && k == -1 && fromExact(bo.X) && !pol:
							ok = true
						}
					} else if fromExact(c) && !pol {
						ok = true // ContainsFunc: !found
					}
				}
			}
			if ok {
				r.Held(rule, fname, label, p.Pos(ps.call.Pos()), "only evaluated after a complete exact pass of the same function found nothing")
			} else if nExact == 0 {
				r.Violated(rule, fname, label, p.Pos(ps.call.Pos()), "the function has no exact pass over the annotations at all")
			} else {
				r.Violated(rule, fname, label, p.Pos(ps.call.Pos()), "the loose pass is not guarded by the not-found result of the exact pass")
			}
		}
		if nExact > 0 {
			n++
			r.Held(rule, fname, "ref.name compared exactly", p.Pos(fn.Pos()), fmt.Sprintf("%d exact pass(es) written with a predicate", nExact))
		}
	}
	for _, fn := range pkgFuncs(p, "scheme/ocidir") {
		fname := p.FuncName(fn)
		exact, looseCalls := scans[fn].exact, scans[fn].loose
		if len(exact) == 0 && len(looseCalls) == 0 {
			continue
		}
		n++
		if len(looseCalls) == 0 {
			r.Held(rule, fname, "ref.name compared exactly", p.Pos(exact[0].Pos()), fmt.Sprintf("%d exact comparison(s), no loose match", len(exact)))
			continue
		}
		loops := core.Loops(fn)
		lab := labeler{}
		for _, lc := range looseCalls {
			label := lab.next("loose ref.name match " + lc.Call.Value.Name())
			// find a loop with an exact comparison that does not contain the loose call and whose
			// exhaustion (an exit edge leaving from the header) lies on every path to the loose call
			ok := false
			why := "no complete exact pass precedes it"
			if len(exact) == 0 {
				why = "the function has no exact comparison of the annotation at all"
			}
			for _, l := range loops {
				has := false
				for _, e := range exact {
					if l.Blocks[e.Block()] {
						has = true
					}
				}
				if !has {
					continue
				}
				if l.Blocks[lc.Block()] {
					why = "the loose match is evaluated inside the pass that makes the exact comparison, so whichever entry comes first in the index wins"
					continue
				}
				reach := core.Reach{StopEdge: func(from, to *ssa.BasicBlock) bool {
					return from == l.Header && !l.Blocks[to]
				}}.FromEntry(fn)
				if !reach[lc] {
					ok = true
					break
				}
				why = "the loose match can be reached without the exact pass having run to its end"
			}
			if !ok {
				// the exact pass may live in a helper: every path to the loose match passes a call of a
				// function of this package that compares the annotation exactly and has no loose match
				passes := core.Reach{Stop: func(in ssa.Instruction) bool {
					c, isCall := in.(ssa.CallInstruction)
					if !isCall {
						return false
					}
					g := core.CalleeFn(c)
					return g != nil && exactOnly[g]
				}}.FromEntry(fn)
				if len(exactOnly) > 0 && !passes[lc] {
					ok = true
				}
			}
			if ok {
				r.Held(rule, fname, label, p.Pos(lc.Pos()), "only reached through the exhaustion exit of a loop that compares the annotation exactly")
			} else {
				r.Violated(rule, fname, label, p.Pos(lc.Pos()), why)
			}
		}
	}
	if n == 0 {
		r.Undecided(rule, "scheme/ocidir", "ref.name lookups", "", "no comparison of the ref.name annotation found in the layout scheme")
	}
}

// c06R8: an index entry is removed only for the tag (or digest) that was asked for. The comparison
// that decides a removal looks at the entry's ref.name annotation itself, not at something computed
// from it: a parsed or trimmed name matches entries that carry a different tag.
func c06R8(p *core.Prog, r *core.Report) {
	const rule = "C06.R8"
	r.Rule(rule, "layout removals are exact: every removal of an entry from the index (slices.Delete on the manifests of an index in scheme/ocidir) is control-dependent on an equality with the requested tag or digest, and where the requested tag is compared, the other side is the entry's ref.name annotation itself", 2)
	n := 0
	for _, fn := range pkgFuncs(p, "scheme/ocidir") {
		lab := labeler{}
		for _, c := range core.CallsTo(fn, func(f *types.Func) bool {
			return f.Pkg() != nil && f.Pkg().Path() == "slices" && strings.HasPrefix(f.Name(), "Delete")
		}) {
			call, ok := c.(*ssa.Call)
			if !ok || len(call.Call.Args) == 0 {
				continue
			}
			sl, ok := call.Call.Args[0].Type().Underlying().(*types.Slice)
			if !ok || !core.IsModNamed(sl.Elem(), "types/descriptor", "Descriptor") {
				continue
			}
			n++
			label := lab.next("index entry removed")
			decided, bad := false, ""
			// the comparisons that decide the removal: the branch conditions it depends on (looked at
			// through predicate closures and helpers), or the body of the predicate given to DeleteFunc
			var cmps []*ssa.BinOp
			var expand func(v ssa.Value, d int)
			inFunc := func(f *ssa.Function) {
				for _, g := range core.WithAnon(f) {
					for _, b := range g.Blocks {
						for _, in := range b.Instrs {
							if bo, ok := in.(*ssa.BinOp); ok && (bo.Op == token.EQL || bo.Op == token.NEQ) {
								cmps = append(cmps, bo)
							}
						}
					}
				}
			}
			expand = func(v ssa.Value, d int) {
				if d > 4 {
					return
				}
				v, _ = core.StripNot(v, true)
				switch x := v.(type) {
				case *ssa.BinOp:
					if x.Op == token.EQL || x.Op == token.NEQ {
						cmps = append(cmps, x)
					}
				case *ssa.Phi:
					for _, e := range x.Edges {
						expand(e, d+1)
					}
				case *ssa.Call:
					if g := core.CalleeFn(x); g != nil && p.InModule(g) && len(g.Blocks) > 0 {
						inFunc(g)
					} else {
						for _, h := range hookFuncs(p, x.Call.Value, 0) {
							inFunc(h)
						}
					}
				}
			}
			for _, ifi := range core.ControlDeps(call) {
				expand(ifi.Cond, 0)
			}
			if cal := core.Callee(call); cal != nil && cal.Name() == "DeleteFunc" && len(call.Call.Args) > 1 {
				for _, h := range hookFuncs(p, call.Call.Args[1], 0) {
					inFunc(h)
				}
			}
			for _, bo := range cmps {
				for _, side := range [][2]ssa.Value{{bo.X, bo.Y}, {bo.Y, bo.X}} {
					tag, other := side[0], side[1]
					if _, isConst := other.(*ssa.Const); isConst {
						continue
					}
					if isDigestType(tag.Type()) || dependsOnField(tag, modPath("types/ref"), "Ref", "Digest") {
						decided = true
						continue
					}
					if !isTagValue(tag) || refNameLookup(tag, map[ssa.Value]bool{}) {
						continue
					}
					if refNameLookup(other, map[ssa.Value]bool{}) {
						decided = true
					} else if !isTagValue(other) {
						bad = p.Pos(bo.Pos())
					}
				}
			}
			switch {
			case bad != "":
				r.Violated(rule, p.FuncName(fn), label, p.Pos(call.Pos()), "the removal depends on the comparison at "+bad+" of the requested tag with a value that is not the entry's ref.name annotation itself (a parsed, trimmed or defaulted name): entries that carry another tag can match and are removed with it")
			case !decided:
				r.Violated(rule, p.FuncName(fn), label, p.Pos(call.Pos()), "the removal is not control-dependent on an equality with the requested tag or digest")
			default:
				r.Held(rule, p.FuncName(fn), label, p.Pos(call.Pos()), "removed only under an exact comparison with the requested tag or digest")
			}
		}
	}
	if n == 0 {
		r.MissingAnchor(rule, "removals of index entries in scheme/ocidir")
	}
}

// c06R11: a listing is the union of its pages, in whatever order the registry sends them. The merge
// of a page into the listing does not compare tag names by order: registries page by creation time,
// by natural version order, case-insensitively; a merge that skips what sorts before the last tag it
// has (to drop repeats) silently loses real tags at page boundaries.
func c06R11(p *core.Prog, r *core.Report, rule string) {
	r.Rule(rule, "pages are merged without an order assumption: the function that appends a page to a tag listing (types/tag (*List).Append and what it calls in the package) makes no ordered comparison (<, <=, >, >=) of strings (removing repeats by equality is fine; by order it drops tags of registries that do not page byte-wise)", 1)
	tl := p.Named("types/tag", "List")
	var fn *ssa.Function
	if tl != nil {
		fn = p.MethodOf(tl, "Append")
	}
	if fn == nil {
		r.MissingAnchor(rule, "types/tag.(*List).Append")
		return
	}
	bad := ""
	for _, f := range sortedFuncs(unitFuncs(fn, 2, nil)) {
		if pk := core.FuncPkg(f); pk == nil || pk.Path() != modPath("types/tag") {
			continue
		}
		for _, b := range f.Blocks {
			for _, in := range b.Instrs {
				bo, ok := in.(*ssa.BinOp)
				if !ok {
					continue
				}
				switch bo.Op {
				case token.LSS, token.LEQ, token.GTR, token.GEQ:
					if isStringType(bo.X.Type()) && isStringType(bo.Y.Type()) {
						bad = p.Pos(bo.Pos())
					}
				}
			}
		}
		core.Calls(f, func(c ssa.CallInstruction) {
			if cal := core.Callee(c); cal != nil && (core.IsFunc(cal, "strings", "Compare") || core.IsFunc(cal, "cmp", "Compare")) {
				bad = p.Pos(c.Pos())
			}
		})
	}
	r.Check(bad == "", rule, p.FuncName(fn), "order-free merge", p.Pos(fn.Pos()),
		"tag names are compared by order at "+bad+" while a page is merged: what is kept depends on the order in which the registry returns its tags, and tags that sort before the end of the previous page are dropped")
}

// linkHelperSaysNoMore: the bool is a result of a module helper that looks for the next link: the
// helper calls into internal/httplink, and it answers false without an error only behind the failure
// of such a call (there is no rel="next" link).
func linkHelperSaysNoMore(p *core.Prog, ex *ssa.Extract) bool {
	call, ok := ex.Tuple.(*ssa.Call)
	if !ok {
		return false
	}
	g := call.Call.StaticCallee()
	if g == nil || !p.InModule(g) || len(g.Blocks) == 0 {
		return false
	}
	res := g.Signature.Results()
	if ex.Index >= res.Len() || !types.Identical(res.At(ex.Index).Type(), types.Typ[types.Bool]) {
		return false
	}
	isLink := func(c *ssa.Call) bool {
		cal := core.Callee(c)
		return cal != nil && cal.Pkg() != nil && cal.Pkg().Path() == modPath("internal/httplink")
	}
	calls := false
	core.Calls(g, func(c ssa.CallInstruction) {
		if cc, ok := c.(*ssa.Call); ok && isLink(cc) {
			calls = true
		}
	})
	if !calls {
		return false
	}
	last := res.Len() - 1
	for _, ret := range core.Returns(g) {
		b, isConst := core.ConstBool(core.ReturnOperand(ret, ex.Index))
		if !isConst {
			return false
		}
		if b || !isErr(res.At(last).Type()) || !core.IsNilConst(core.ReturnOperand(ret, last)) {
			continue // "there is more", or an error return
		}
		behind := anyGuard(ret.Block(), func(c ssa.Value, pol bool) bool {
			x, neq, isCmp := errCmpNil(c)
			if !isCmp || neq != pol {
				return false
			}
			for _, oc := range originCalls(x) {
				if isLink(oc) {
					return true
				}
			}
			return false
		})
		if !behind {
			return false
		}
	}
	return true
}

// c06R13: "a push makes exactly that tag resolve to exactly that manifest". The layout's lookup and
// its setter do not agree on what a reference names (the lookup lets a digest on the reference win
// over its tag and stops at the first match; the setter keys on the tag and prunes duplicates), so
// "the lookup already finds this digest" does not mean "the setter would change nothing". The entry
// is set on every push of a tagged or top-level manifest.
func c06R13(p *core.Prog, r *core.Report) {
	const rule = "C06.R13"
	r.Rule(rule, "a push always sets its index entry: in the layout's index updater the call of the index setter is not control-dependent on what the index lookup (indexGet) returns", 1)
	ups := roleSet(p, ocidirRel, "OCIDir", "updateIndex")
	if u, _ := indexUpdater(p); u != nil {
		// (the updater's body may have been inlined into its caller: found by what it does)
		for h := range core.Helpers(u, 2) {
			ups[h] = true
		}
	}
	n := 0
	for _, fn := range sortedFuncs(ups) {
		lab := labeler{}
		core.Calls(fn, func(c ssa.CallInstruction) {
			g := core.CalleeFn(c)
			if g == nil || !(canon(g) == "indexSet" || isIndexSetter(g)) {
				return
			}
			n++
			bad := ""
			var fromLookup func(v ssa.Value, d int, seen map[ssa.Value]bool) bool
			fromLookup = func(v ssa.Value, d int, seen map[ssa.Value]bool) bool {
				if v == nil || d > 8 || seen[v] {
					return false
				}
				seen[v] = true
				if call, ok := v.(*ssa.Call); ok {
					if h := core.CalleeFn(call); h != nil && canon(h) == "indexGet" {
						return true
					}
					return false
				}
				if al, ok := v.(*ssa.Alloc); ok {
					for _, st := range core.StoresToCell(al) {
						if fromLookup(st.Val, d+1, seen) {
							return true
						}
					}
					// a struct filled field by field from the lookup's result
					for _, fv := range core.StoresToCellFields(al) {
						if fromLookup(fv, d+1, seen) {
							return true
						}
					}
					return false
				}
				in, ok := v.(ssa.Instruction)
				if !ok {
					return false
				}
				for _, op := range in.Operands(nil) {
					if op != nil && *op != nil && fromLookup(*op, d+1, seen) {
						return true
					}
				}
				return false
			}
			for _, ifi := range core.ControlDeps(c.(ssa.Instruction)) {
				if fromLookup(ifi.Cond, 0, map[ssa.Value]bool{}) {
					bad = p.Pos(ifi.Cond.Pos())
				}
			}
			r.Check(bad == "", rule, p.FuncName(fn), lab.next("index entry set"), p.Pos(c.Pos()),
				"whether the entry is set depends on the lookup at "+bad+": the lookup prefers a digest on the reference over its tag and stops at the first of several entries, so a push can return success without the tag being created or moved")
		})
	}
	if n == 0 {
		r.MissingAnchor(rule, "call of the index setter in the layout's index updater")
	}
}

// isIndexSetter: by role, the function of the layout scheme that is handed the index to change, the
// reference and the descriptor to enter (`indexSet`, or whatever its body was moved into).
func isIndexSetter(g *ssa.Function) bool {
	if g == nil || g.Pkg == nil || g.Pkg.Pkg.Path() != modPath(ocidirRel) || g.Object() == nil || g.Object().Exported() {
		return false
	}
	ps := g.Signature.Params()
	if ps.Len() != 3 {
		return false
	}
	pt, ok := ps.At(0).Type().Underlying().(*types.Pointer)
	return ok && core.IsModNamed(pt.Elem(), "types/oci/v1", "Index") && core.IsModNamed(ps.At(1).Type(), "types/ref", "Ref") && core.IsModNamed(ps.At(2).Type(), "types/descriptor", "Descriptor")
}

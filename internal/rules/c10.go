package rules

import (
	"fmt"
	"go/token"
	"go/types"
	"sort"
	"strings"

	"golang.org/x/tools/go/ssa"

	"verif/internal/core"
)

func init() {
	register(&Spec{
		ID: "C10",
		Decides: "registry: every function that reads the fallback referrers tag and then writes or deletes it holds one mutex of the client from the read to the write; every cache access is keyed by a digest-normalised reference (SetDigest), a list obtained with a server-side filter is cached only behind the 'no artifact-type filter' test, a subject-bearing put always invalidates the subject's cached list before the fallback update, delete invalidates before anything else; " +
			"layout: the referrer helpers run under the layout mutex; Add never appends behind the 'already present' edge, Add/Delete re-serialise (SetOrig) before any success return; the API pager accumulates every page and leaves only on error / no next link.",
		NotCovered: "equality with a reference multimap over all histories and schedules; the registry's own referrers API; cross-process races.",
		Run:        runC10,
	})
}

func runC10(p *core.Prog, r *core.Report) {
	c10R1(p, r)
	c10R2(p, r, "C10.R2")
	c10R3(p, r, "C10.R3")
	c10R4(p, r)
	c10R5(p, r)
	staleIndexRule(p, r, "C10.R6")
	c10R7(p, r)
	structKeyRule(p, r, "C10.R8")
	c10R9(p, r)
	// a filtered query leaves the listing it was made from (the cached answer) intact (shared with C03.R6)
	c03R6(p, r, "C10.R10")
	c10R11(p, r)
}

// c10R11: every query is answered by asking. The client's ReferrerList hands back what the scheme's
// ReferrerList returned to this very call (possibly passed through module functions that take the
// listing), never a listing kept in a field or a table from an earlier or concurrent call: an answer
// computed before a push completed must not be given to a query that started after it.
func c10R11(p *core.Prog, r *core.Report) {
	const rule = "C10.R11"
	r.Rule(rule, "every query asks: each return of the client's ReferrerList that carries a listing hands back the result of a scheme ReferrerList call made by this invocation (directly or through module functions that are given that result), not a listing loaded from a field or a table", 1)
	fn := p.Method(".", "RegClient", "ReferrerList")
	if fn == nil {
		r.MissingAnchor(rule, "regclient.(*RegClient).ReferrerList")
		return
	}
	isSchemeCall := func(c *ssa.Call) bool {
		cc := c.Common()
		return cc.IsInvoke() && cc.Method.Name() == "ReferrerList"
	}
	rlT := fn.Signature.Results().At(0).Type()
	through := func(c *ssa.Call) []int {
		if isSchemeCall(c) {
			return nil
		}
		g := c.Call.StaticCallee()
		if g == nil || !p.InModule(g) {
			return nil
		}
		var idx []int
		for i, a := range c.Call.Args {
			t := a.Type()
			if pt, ok := t.(*types.Pointer); ok {
				t = pt.Elem()
			}
			if types.Identical(t, rlT) {
				idx = append(idx, i)
			}
		}
		return idx
	}
	lab := labeler{}
	n := 0
	for _, ret := range core.Returns(fn) {
		if failureReturn(fn, ret) {
			continue
		}
		v := core.ReturnOperand(ret, 0)
		if v == nil {
			continue
		}
		// a composite literal of the zero listing next to an error is a failure return as well
		if _, isConst := v.(*ssa.Const); isConst {
			continue
		}
		n++
		ok, why := true, ""
		for _, o := range core.Origins(v, core.SliceOpts{Through: through}) {
			switch {
			case o.Kind == core.OCall && o.Call != nil && isSchemeCall(o.Call):
			case o.Kind == core.OAlloc:
				// a zero value built here (returned next to an error)
			default:
				ok, why = false, fmt.Sprintf("origin %v", o.Val)
				if o.Val != nil && o.Val.Pos().IsValid() {
					why = "a value from " + p.Pos(o.Val.Pos())
				}
			}
		}
		r.Check(ok, rule, p.FuncName(fn), lab.next("returned listing"), p.Pos(ret.Pos()),
			"the listing returned is not (only) the answer of a scheme ReferrerList call made by this invocation ("+why+"): a query that starts after a referrer was pushed or deleted can be given an answer computed before")
	}
	if n == 0 {
		r.Undecided(rule, p.FuncName(fn), "returned listing", p.Pos(fn.Pos()), "no return that carries a listing found")
	}
}

// c10R9: the filter options of a referrers listing compose. An option that is given one criterion
// writes that criterion; only the option that is given the whole set of criteria may replace the set.
func c10R9(p *core.Prog, r *core.Report) {
	const rule = "C10.R9"
	r.Rule(rule, "filter options compose: an option constructor of package scheme whose parameters do not include a value of a struct type never replaces a field of that struct type as a whole (directly or through another constructor it calls); it stores the members it was given, so that combining options keeps every criterion", 3)
	n := 0
	for _, fn := range pkgFuncs(p, "scheme") {
		if fn.Parent() != nil || fn.Object() == nil || !fn.Object().Exported() || fn.Signature.Results().Len() != 1 {
			continue
		}
		if _, isFn := fn.Signature.Results().At(0).Type().Underlying().(*types.Signature); !isFn {
			continue
		}
		paramTypes := map[*types.Named]bool{}
		for _, v := range sigParams(fn) {
			if nt := core.NamedOf(v.Type()); nt != nil {
				paramTypes[nt] = true
			}
		}
		// the closures this constructor can return: its own literals and those of constructors it calls
		var lits []*ssa.Function
		seen := map[*ssa.Function]bool{}
		var collect func(f *ssa.Function, d int)
		collect = func(f *ssa.Function, d int) {
			if seen[f] || d > 2 {
				return
			}
			seen[f] = true
			lits = append(lits, f.AnonFuncs...)
			core.Calls(f, func(c ssa.CallInstruction) {
				if g := core.CalleeFn(c); g != nil && core.FuncPkg(g) == core.FuncPkg(fn) && len(g.Blocks) > 0 {
					collect(g, d+1)
				}
			})
		}
		collect(fn, 0)
		if len(lits) == 0 {
			continue
		}
		n++
		bad := ""
		for _, fs := range fieldStores(lits, func(nm *types.Named, f string) bool { return true }) {
			ft := core.NamedOf(fs.Store.Val.Type())
			if ft == nil {
				continue
			}
			if _, isStruct := ft.Underlying().(*types.Struct); !isStruct || paramTypes[ft] {
				continue
			}
			// a whole struct is stored into a field although the constructor was not given one
			bad = ft.Obj().Name() + " at " + p.Pos(fs.Store.Pos())
		}
		r.Check(bad == "", rule, p.FuncName(fn), "option writes what it was given", p.Pos(fn.Pos()), "the option replaces the whole "+bad+" although it was given only some of its members: every criterion set by an option applied before it is lost")
	}
	if n == 0 {
		r.MissingAnchor(rule, "option constructors of package scheme")
	}
}

// structKeyRule: what the client learned about one repository (whether it serves the referrers API)
// answers for that repository only. Every access to a map of scheme/reg keyed by a struct builds its
// key with the same fields; a key that leaves a field out is a broader entry that answers for others.
func structKeyRule(p *core.Prog, r *core.Report, rule string) {
	r.Rule(rule, "cache keys are complete: every lookup and store in a struct-keyed map of scheme/reg builds its key literal with the same set of fields (a key without the repository field makes what was learned on one repository answer for every other repository of the registry)", 2)
	type access struct {
		fn     *ssa.Function
		at     ssa.Instruction
		fields map[string]bool
	}
	byType := map[*types.Named][]access{}
	keyFields := func(v ssa.Value) (map[string]bool, bool) {
		ld, ok := v.(*ssa.UnOp)
		if !ok || ld.Op != token.MUL {
			return nil, false
		}
		al, ok := ld.X.(*ssa.Alloc)
		if !ok {
			return nil, false
		}
		fs := map[string]bool{}
		for _, ref := range *al.Referrers() {
			if fa, ok := ref.(*ssa.FieldAddr); ok {
				for _, r2 := range *fa.Referrers() {
					if st, ok := r2.(*ssa.Store); ok && st.Addr == ssa.Value(fa) {
						fs[core.FieldName(fa.X.Type(), fa.Field)] = true
					}
				}
			}
			if st, ok := ref.(*ssa.Store); ok && st.Addr == ssa.Value(al) {
				return nil, false // whole-struct store: not a literal
			}
		}
		return fs, true
	}
	for _, fn := range pkgFuncs(p, "scheme/reg") {
		for _, b := range fn.Blocks {
			for _, in := range b.Instrs {
				var m, k ssa.Value
				switch x := in.(type) {
				case *ssa.Lookup:
					m, k = x.X, x.Index
				case *ssa.MapUpdate:
					m, k = x.Map, x.Key
				default:
					continue
				}
				mt, ok := m.Type().Underlying().(*types.Map)
				if !ok {
					continue
				}
				kn, ok := mt.Key().(*types.Named)
				if !ok {
					continue
				}
				if _, isStruct := kn.Underlying().(*types.Struct); !isStruct {
					continue
				}
				if fs, ok := keyFields(k); ok {
					byType[kn] = append(byType[kn], access{fn, in, fs})
				}
			}
		}
	}
	n := 0
	lab := map[*ssa.Function]labeler{}
	for kn, accs := range byType {
		all := map[string]bool{}
		for _, a := range accs {
			for f := range a.fields {
				all[f] = true
			}
		}
		for _, a := range accs {
			n++
			if lab[a.fn] == nil {
				lab[a.fn] = labeler{}
			}
			var missing []string
			for f := range all {
				if !a.fields[f] {
					missing = append(missing, f)
				}
			}
			sort.Strings(missing)
			r.Check(len(missing) == 0, rule, p.FuncName(a.fn), lab[a.fn].next("key of type "+kn.Obj().Name()), p.Pos(a.at.Pos()),
				"this key leaves out "+strings.Join(missing, ", ")+" that other accesses of the same map set: the entry it names answers for every value of that field")
		}
	}
	if n == 0 {
		r.MissingAnchor(rule, "struct-keyed maps in scheme/reg")
	}
}

func c10R1(p *core.Prog, r *core.Report) {
	const rule = "C10.R1"
	r.Rule(rule, "fallback-tag read-modify-write in scheme/reg is one critical section of a client mutex (lock held at the read and at every following write, never released in between)", 2)
	regT := p.Named("scheme/reg", "Reg")
	if regT == nil {
		r.MissingAnchor(rule, "scheme/reg.Reg")
		return
	}
	isRead := func(f *ssa.Function) bool { return f != nil && canon(f) == "referrerListByTag" }
	isWrite := func(c ssa.CallInstruction) bool {
		cal := core.Callee(c)
		if cal == nil || !(core.IsModMethod(cal, "scheme/reg", "Reg", "ManifestPut") || core.IsModMethod(cal, "scheme/reg", "Reg", "TagDelete")) {
			return false
		}
		for _, oc := range originCalls(core.CallArg(c, 2)) {
			if f := core.Callee(oc); f != nil && core.IsModFunc(f, "types/referrer", "FallbackTag") {
				return true
			}
		}
		return false
	}
	funcs := pkgFuncs(p, "scheme/reg")
	units := 0
	for _, fn := range funcs {
		var rd, wr []ssa.CallInstruction
		core.Calls(fn, func(c ssa.CallInstruction) {
			if isRead(core.CalleeFn(c)) {
				rd = append(rd, c)
			}
			if isWrite(c) {
				wr = append(wr, c)
			}
		})
		if len(rd) == 0 || len(wr) == 0 {
			continue
		}
		units++
		fname := p.FuncName(fn)
		// the mutex: a sync.Mutex field of Reg locked in this function
		var id core.LockID
		// locked here, or through an unexported helper that takes the lock and hands back the release
		for _, h := range sortedFuncs(core.Helpers(fn, 1)) {
			core.Calls(h, func(c ssa.CallInstruction) {
				if l, op := core.MutexOp(c); op == "lock" && l.T == regT && id.T == nil {
					id = l
				}
			})
		}
		if id.T == nil {
			r.Violated(rule, fname, "fallback tag read-modify-write", p.Pos(rd[0].Pos()),
				"the fallback referrers tag is pulled, modified and pushed without holding a mutex of the client (or under a locking idiom this rule does not recognise): concurrent updates of one subject can lose an entry")
			continue
		}
		li := core.AnalyzeLocks(core.LockSpec{ID: id, Funcs: funcs})
		ok := true
		detail := "held from the read to every write (" + id.String() + ")"
		for _, a := range rd {
			from := core.Reach{}.FromInstr(a.(ssa.Instruction))
			if s := li.StateAt(a.(ssa.Instruction)); s != core.LHeld {
				ok = false
				detail = "the fallback tag is read at " + p.Pos(a.Pos()) + " with " + id.String() + " " + s.String()
			}
			for _, b := range wr {
				if !from[b.(ssa.Instruction)] {
					continue
				}
				if s := li.StateAt(b.(ssa.Instruction)); s != core.LHeld {
					ok = false
					detail = "the fallback tag is written at " + p.Pos(b.Pos()) + " with " + id.String() + " " + s.String()
				}
				if u := li.UnlockBetween(a.(ssa.Instruction), b.(ssa.Instruction)); u != nil {
					ok = false
					detail = id.String() + " is released at " + p.Pos(u.Pos()) + " between the read and the write"
				}
			}
		}
		for _, pr := range li.Problems {
			if pr.Fn == fn && (pr.Kind == "double-lock" || pr.Kind == "leak") {
				ok = false
				detail = pr.Detail
			}
		}
		r.Check(ok, rule, fname, "fallback tag read-modify-write", p.Pos(rd[0].Pos()), detail)
	}
	if units == 0 {
		r.Undecided(rule, "-", "rmw units", "-", "no function reading and then writing the fallback tag found")
	}
}

// cacheCalls lists calls of methods of the generic cache type on fields of Reg.
type cacheCall struct {
	c      ssa.CallInstruction
	fn     *ssa.Function
	field  string
	method string
}

func regCacheCalls(p *core.Prog) []cacheCall {
	var out []cacheCall
	for _, fn := range pkgFuncs(p, "scheme/reg") {
		core.Calls(fn, func(c ssa.CallInstruction) {
			cal := core.Callee(c)
			if cal == nil || cal.Pkg() == nil || cal.Pkg().Path() != modPath("internal/cache") {
				return
			}
			switch cal.Name() {
			case "Get", "Set", "Delete":
			default:
				return
			}
			recv := core.CallArg(c, 0)
			field := ""
			if u, ok := recv.(*ssa.UnOp); ok && u.Op == token.MUL {
				if fa, ok := u.X.(*ssa.FieldAddr); ok {
					_, field = core.FieldAddrInfo(fa)
				}
			}
			if fa, ok := recv.(*ssa.FieldAddr); ok {
				_, field = core.FieldAddrInfo(fa)
			}
			out = append(out, cacheCall{c: c, fn: fn, field: field, method: cal.Name()})
		})
	}
	return out
}

func c10R2(p *core.Prog, r *core.Report, rule string) {
	r.Rule(rule, "cache coherence in scheme/reg: keys are SetDigest-normalised; filtered API results are cached only when no artifact-type filter was sent; a subject-bearing put invalidates the subject's list unconditionally and before the fallback update; delete invalidates first", 12)
	calls := regCacheCalls(p)
	if len(calls) == 0 {
		r.MissingAnchor(rule, "calls of internal/cache methods in scheme/reg")
		return
	}
	lab := cacheKeyRule(p, r, rule, calls)
	// filtered results
	for _, cc := range calls {
		if cc.method != "Set" {
			continue
		}
		val := core.CallArg(cc.c, 2)
		if !core.IsModNamed(val.Type(), "types/referrer", "ReferrerList") {
			continue
		}
		fname := p.FuncName(cc.fn)
		filtered := false
		for _, oc := range originCalls(val) {
			for _, a := range oc.Call.Args {
				if core.IsModNamed(a.Type(), "scheme", "ReferrerConfig") {
					filtered = true
				}
			}
		}
		if !filtered {
			r.Held(rule, fname, lab[fname].next(cc.field+".Set value"), p.Pos(cc.c.Pos()), "list not obtained with caller-supplied filters")
			continue
		}
		ok := anyGuard(cc.c.Block(), func(c ssa.Value, pol bool) bool {
			bo, isB := c.(*ssa.BinOp)
			if !isB {
				return false
			}
			isAT := func(v ssa.Value) bool {
				return dependsOnField(v, modPath("types/descriptor"), "MatchOpt", "ArtifactType")
			}
			empty := func(v ssa.Value) bool { s, ok := core.ConstString(v); return ok && s == "" }
			if (isAT(bo.X) && empty(bo.Y)) || (isAT(bo.Y) && empty(bo.X)) {
				return (bo.Op == token.EQL && pol) || (bo.Op == token.NEQ && !pol)
			}
			return false
		})
		if !ok {
			// the decision may be carried in a flag: with the artifact-type filter assumed to be set,
			// the store is unreachable from every call that fetched the list with the caller's options
			// (paths end where the list variable is overwritten by another producer)
			assume := map[ssa.Value]bool{}
			for _, b := range cc.fn.Blocks {
				for _, in := range b.Instrs {
					bo, isB := in.(*ssa.BinOp)
					if !isB || (bo.Op != token.EQL && bo.Op != token.NEQ) {
						continue
					}
					isAT := func(v ssa.Value) bool {
						return dependsOnField(v, modPath("types/descriptor"), "MatchOpt", "ArtifactType")
					}
					empty := func(v ssa.Value) bool { s, ok := core.ConstString(v); return ok && s == "" }
					if (isAT(bo.X) && empty(bo.Y)) || (isAT(bo.Y) && empty(bo.X)) {
						assume[bo] = bo.Op == token.NEQ
					}
				}
			}
			producers := originCalls(val)
			reachable := len(assume) == 0
			for _, oc := range producers {
				takesConfig := false
				for _, a := range oc.Call.Args {
					if core.IsModNamed(a.Type(), "scheme", "ReferrerConfig") {
						takesConfig = true
					}
				}
				if !takesConfig || oc.Parent() != cc.fn {
					continue
				}
				stop := func(in ssa.Instruction) bool {
					for _, other := range producers {
						if other != oc && in == ssa.Instruction(other) {
							return true
						}
					}
					return false
				}
				if (core.Reach{Assume: assume, Stop: stop}).FromInstr(oc)[cc.c.(ssa.Instruction)] {
					reachable = true
				}
			}
			ok = !reachable
		}
		r.Check(ok, rule, fname, lab[fname].next(cc.field+".Set value"), p.Pos(cc.c.Pos()),
			"a list fetched with the caller's filter options may be cached under the subject's key only when no artifact-type filter was sent to the server; otherwise later unfiltered listings lose live referrers")
	}
	// put: invalidate before the fallback update, not depending on the response header
	put := p.Method("scheme/reg", "Reg", "ManifestPut")
	del := p.Method("scheme/reg", "Reg", "referrerDelete")
	if put == nil || del == nil {
		r.MissingAnchor(rule, "scheme/reg.(*Reg).ManifestPut / referrerDelete")
		return
	}
	var rlField string
	for _, cc := range calls {
		if cc.method == "Delete" && cc.fn == del {
			rlField = cc.field
		}
	}
	for _, c := range core.CallsTo(put, func(f *types.Func) bool {
		return f.Pkg() != nil && f.Pkg().Path() == modPath("scheme/reg") && canonObj(f) == "referrerPut"
	}) {
		var inval ssa.CallInstruction
		for _, cc := range calls {
			if cc.fn == put && cc.method == "Delete" && cc.field == rlField && core.DominatesInstr(cc.c.(ssa.Instruction), c.(ssa.Instruction)) {
				inval = cc.c
			}
		}
		ok := inval != nil
		detail := "the subject's cached referrer list is not invalidated before the fallback update"
		if ok {
			detail = "invalidated at " + p.Pos(inval.Pos())
			for _, ifi := range core.ControlDeps(inval.(ssa.Instruction)) {
				if dependsOnHeader(ifi.Cond) {
					ok = false
					detail = "the invalidation depends on a response header: a registry that acknowledges the subject (referrers API) would keep serving a stale cached list"
				}
			}
		}
		r.Check(ok, rule, p.FuncName(put), "put invalidates the subject's list", p.Pos(c.Pos()), detail)
	}
	// delete: invalidation dominates every request-issuing call
	var first ssa.CallInstruction
	for _, cc := range calls {
		if _, isCall := cc.c.(*ssa.Call); cc.fn == del && cc.method == "Delete" && isCall && first == nil {
			first = cc.c
		}
	}
	// … and drops it again once the fallback tag has been rewritten: between the first invalidation and
	// the lock another update of the same subject can run to completion and cache its list (found D25)
	{
		var lock ssa.Instruction
		core.Calls(del, func(c ssa.CallInstruction) {
			if lock != nil {
				return
			}
			if _, op := core.MutexOp(c); op == "lock" {
				lock = c.(ssa.Instruction)
				return
			}
			// a helper that takes the lock and hands back the release (`unlock := reg.refTagLock(s); defer unlock()`)
			if h := core.CalleeFn(c); h != nil && p.InModule(h) && len(h.Blocks) > 0 && len(h.Blocks) < 20 {
				locks := false
				core.Calls(h, func(hc ssa.CallInstruction) {
					if _, op := core.MutexOp(hc); op == "lock" {
						locks = true
					}
				})
				if _, isCall := c.(*ssa.Call); locks && isCall {
					lock = c.(ssa.Instruction)
				}
			}
		})
		again := false
		for _, cc := range calls {
			if cc.fn != del || (cc.method != "Delete" && cc.method != "Set") || lock == nil {
				continue
			}
			in := cc.c.(ssa.Instruction)
			if !core.DominatesInstr(lock, in) {
				continue
			}
			if _, isDefer := cc.c.(*ssa.Defer); isDefer {
				again = true // runs when the function returns, before the deferred unlock registered earlier
				continue
			}
			// an explicit call: it has to lie behind every rewrite of the tag
			behind := true
			core.Calls(del, func(w ssa.CallInstruction) {
				cal := core.Callee(w)
				if cal == nil || !(core.IsModMethod(cal, "scheme/reg", "Reg", "ManifestPut") || core.IsModMethod(cal, "scheme/reg", "Reg", "TagDelete")) {
					return
				}
				seen := core.Reach{Stop: func(x ssa.Instruction) bool { return x == in }}.FromInstr(w.(ssa.Instruction))
				for x := range seen {
					if ret, isRet := x.(*ssa.Return); isRet && !failureReturn(del, ret) {
						behind = false
					}
				}
			})
			if behind {
				again = true
			}
		}
		r.Check(again, rule, p.FuncName(del), "delete invalidates again under the lock", p.Pos(del.Pos()), "after the fallback tag was rewritten the subject's cached list is not dropped (or replaced) under the lock: a push for the same subject that ran between the first invalidation and the lock has cached a list that still names the deleted referrer")
	}
	if first == nil {
		r.Violated(rule, p.FuncName(del), "delete invalidates first", p.Pos(del.Pos()), "referrerDelete does not invalidate the subject's cached referrer list")
	} else {
		ok := true
		doers := reachers(p, httpDoers(p))
		core.Calls(del, func(c ssa.CallInstruction) {
			if g := core.CalleeFn(c); g != nil && doers[g] && !core.DominatesInstr(first.(ssa.Instruction), c.(ssa.Instruction)) {
				ok = false
			}
		})
		r.Check(ok, rule, p.FuncName(del), "delete invalidates first", p.Pos(first.Pos()), "the cached list is dropped before any request is issued, so no path (API available, tag fallback, error) leaves a stale list")
	}
}

// cacheKeyRule: every cache access in scheme/reg keys by a SetDigest-normalised reference (shared by
// C06.R5: a delete that keys differently from the put leaves the deleted manifest in the cache).
func cacheKeyRule(p *core.Prog, r *core.Report, rule string, calls []cacheCall) map[string]labeler {
	lab := map[string]labeler{}
	for _, cc := range calls {
		fname := p.FuncName(cc.fn)
		if lab[fname] == nil {
			lab[fname] = labeler{}
		}
		key := core.CallArg(cc.c, 1)
		// the key may be handed to an unexported helper as a parameter: its call sites in the package decide
		unexported, all := map[*ssa.Function]bool{}, map[*ssa.Function]bool{}
		if pk := core.FuncPkg(cc.fn); pk != nil {
			for _, f := range p.ModFuncs {
				if fp := core.FuncPkg(f); fp != nil && fp.Path() == pk.Path() {
					all[f] = true
					if f.Object() != nil && !f.Object().Exported() {
						unexported[f] = true
					}
				}
			}
		}
		ok := core.AllOrigins(core.Origins(key, core.SliceOpts{Helpers: unexported, Callers: all}), func(o core.Origin) bool {
			return o.Kind == core.OCall && o.Callee() != nil && core.IsModMethod(o.Callee(), "types/ref", "Ref", "SetDigest")
		})
		r.Check(ok, rule, fname, lab[fname].next(cc.field+"."+cc.method+" key"), p.Pos(cc.c.Pos()),
			"the cache key must be the reference normalised by Ref.SetDigest (tag cleared): writers and readers that key differently leave stale entries behind (a deleted manifest keeps being served)")
	}
	return lab
}

func dependsOnHeader(v ssa.Value) bool {
	seen := map[ssa.Value]bool{}
	var walk func(x ssa.Value, d int) bool
	walk = func(x ssa.Value, d int) bool {
		if x == nil || seen[x] || d > 10 {
			return false
		}
		seen[x] = true
		if c, ok := x.(*ssa.Call); ok {
			if cal := core.Callee(c); cal != nil && core.IsMethod(cal, "net/http", "Header", "Get") {
				return true
			}
		}
		in, ok := x.(ssa.Instruction)
		if !ok {
			return false
		}
		for _, op := range in.Operands(nil) {
			if op != nil && *op != nil && walk(*op, d+1) {
				return true
			}
		}
		return false
	}
	return walk(v, 0)
}

func c10R3(p *core.Prog, r *core.Report, rule string) {
	r.Rule(rule, "layout referrer helpers run only under the layout mutex (requirement propagated to every caller)", 3)
	li, _ := ocidirLockInfo(p)
	if li == nil {
		r.MissingAnchor(rule, ocidirRel+".OCIDir mutex")
		return
	}
	for _, name := range []string{"referrerList", "referrerPut", "referrerDelete"} {
		fn := p.Method(ocidirRel, "OCIDir", name)
		if fn == nil {
			r.MissingAnchor(rule, ocidirRel+".(*OCIDir)."+name)
			continue
		}
		bad := ""
		for _, pr := range li.Problems {
			if pr.Fn == fn {
				bad = pr.Detail
			}
			// a caller that reaches the helper without the lock
			if c, ok := pr.At.(ssa.CallInstruction); ok && core.CalleeFn(c) == fn {
				bad = p.FuncName(pr.Fn) + ": " + pr.Detail
			}
		}
		ok := bad == "" && (li.Requires[fn] || li.Acquires[fn])
		if bad == "" && !ok {
			bad = "the helper neither requires nor takes the layout mutex although it reads and rewrites the fallback index"
		}
		r.Check(ok, rule, p.FuncName(fn), "under layout mutex", p.Pos(fn.Pos()), map[bool]string{true: "every caller holds the mutex", false: bad}[ok])
	}
}

func c10R4(p *core.Prog, r *core.Report) {
	const rule = "C10.R4"
	r.Rule(rule, "set idioms of the client-managed index: Add does not append behind the 'already present' edge; after the list was changed no success return is reachable without re-serialising (SetOrig); Delete reports not-found", 4)
	for _, name := range []string{"Add", "Delete"} {
		fn := p.Method("types/referrer", "ReferrerList", name)
		if fn == nil {
			r.MissingAnchor(rule, "types/referrer.(*ReferrerList)."+name)
			continue
		}
		fname := p.FuncName(fn)
		// mutation sites: calls of append / slices.Delete
		var muts []ssa.Instruction
		core.Calls(fn, func(c ssa.CallInstruction) {
			if b, ok := c.Common().Value.(*ssa.Builtin); ok && b.Name() == "append" {
				muts = append(muts, c.(ssa.Instruction))
			}
			if cal := core.Callee(c); cal != nil && cal.Pkg() != nil && cal.Pkg().Path() == "slices" && strings.HasPrefix(cal.Name(), "Delete") {
				muts = append(muts, c.(ssa.Instruction))
			}
		})
		if len(muts) == 0 {
			r.Undecided(rule, fname, "list mutation", p.Pos(fn.Pos()), "no append / slices.Delete found")
			continue
		}
		isSetOrig := func(in ssa.Instruction) bool {
			c, ok := in.(ssa.CallInstruction)
			return ok && isInvoke(c, "SetOrig")
		}
		ok := true
		detail := "every success return after the change passes SetOrig"
		for _, m := range muts {
			for in := range (core.Reach{Stop: isSetOrig}).FromInstr(m) {
				if ret, isRet := in.(*ssa.Return); isRet && core.IsNilConst(core.ReturnOperand(ret, len(ret.Results)-1)) {
					ok = false
					detail = "a nil return at " + p.Pos(ret.Pos()) + " is reachable after the list was changed without SetOrig: the pushed index would not contain the change"
				}
			}
		}
		r.Check(ok, rule, fname, "re-serialised before success", p.Pos(muts[0].Pos()), detail)
		if name == "Add" {
			// the append must be unreachable from the true edge of the digest equality test
			okDup := false
			detailDup := "no digest equality test precedes the append: a re-push of the same artifact would be listed twice"
			for _, b := range fn.Blocks {
				ifi, isIf := core.LastInstr(b).(*ssa.If)
				if !isIf {
					continue
				}
				bo, isB := ifi.Cond.(*ssa.BinOp)
				if !isB || bo.Op != token.EQL || !core.IsNamed(bo.X.Type(), "github.com/opencontainers/go-digest", "Digest") {
					continue
				}
				reach := core.Reach{}.FromEdge(b, b.Succs[0])
				okDup = true
				detailDup = "the 'digest already present' edge does not reach the append"
				for _, m := range muts {
					if reach[m] {
						okDup = false
						detailDup = "the append is reachable from the 'digest already present' edge"
					}
				}
			}
			if !okDup {
				// the membership test written with slices.ContainsFunc / IndexFunc and a digest-comparing literal
				for _, b := range fn.Blocks {
					ifi, isIf := core.LastInstr(b).(*ssa.If)
					if !isIf {
						continue
					}
					cnd, pol := core.StripNot(ifi.Cond, true)
					var call *ssa.Call
					present := 0 // successor taken when the digest is present
					switch x := cnd.(type) {
					case *ssa.Call:
						call = x
						if !pol {
							present = 1
						}
					case *ssa.BinOp:
						// slices.IndexFunc(...) >= 0 / < 0 / != -1 / == -1
						c, isCall := x.X.(*ssa.Call)
						if !isCall {
							continue
						}
						call = c
						found := x.Op == token.GEQ || x.Op == token.NEQ || x.Op == token.GTR
						if found != pol {
							present = 1
						}
					default:
						continue
					}
					cal := core.Callee(call)
					if cal == nil || cal.Pkg() == nil || cal.Pkg().Path() != "slices" || !(strings.HasPrefix(cal.Name(), "Contains") || strings.HasPrefix(cal.Name(), "Index")) {
						continue
					}
					cmpDigest := false
					for _, a := range call.Call.Args {
						if isDigestType(a.Type()) {
							cmpDigest = true // slices.Contains over digests
						}
						if lit := closureOf(a); lit != nil {
							for _, lb := range lit.Blocks {
								for _, in := range lb.Instrs {
									if bo, ok := in.(*ssa.BinOp); ok && bo.Op == token.EQL && isDigestType(bo.X.Type()) {
										cmpDigest = true
									}
								}
							}
						}
					}
					if !cmpDigest {
						continue
					}
					reach := core.Reach{}.FromEdge(b, b.Succs[present])
					okDup = true
					detailDup = "the 'digest already present' edge does not reach the append"
					for _, m := range muts {
						if reach[m] {
							okDup = false
							detailDup = "the append is reachable from the 'digest already present' edge"
						}
					}
				}
			}
			r.Check(okDup, rule, fname, "no duplicate entries", p.Pos(muts[0].Pos()), detailDup)
		} else {
			// not found → error: some return of a non-nil fresh error guarded by the found flag
			hasErr := false
			for _, ret := range core.Returns(fn) {
				v := core.ReturnOperand(ret, len(ret.Results)-1)
				if c, isCall := v.(*ssa.Call); isCall {
					if cal := core.Callee(c); cal != nil && core.IsFunc(cal, "fmt", "Errorf") && !reachesAny(ret, muts) {
						for _, a := range variadicElems(c.Call.Args[len(c.Call.Args)-1]) {
							if strings.Contains(underIface(a).String(), "ErrNotFound") || globalNamed(underIface(a), "ErrNotFound") {
								hasErr = true
							}
						}
					}
				}
			}
			r.Check(hasErr, rule, fname, "not-found reported", p.Pos(fn.Pos()), "deleting an entry that is not listed returns ErrNotFound (callers rely on it to ignore missing entries)")
		}
	}
}

func reachesAny(from ssa.Instruction, targets []ssa.Instruction) bool {
	seen := core.Reach{}.FromInstr(from)
	for _, t := range targets {
		if seen[t] {
			return true
		}
	}
	return false
}

func c10R5(p *core.Prog, r *core.Report) {
	const rule = "C10.R5"
	r.Rule(rule, "the referrers API pager keeps every page (first page taken whole, later pages appended) and leaves only on an error or when no next link was returned", 2)
	fn := p.Method("scheme/reg", "Reg", "referrerListByAPI")
	if fn == nil {
		r.MissingAnchor(rule, "scheme/reg.(*Reg).referrerListByAPI")
		return
	}
	fname := p.FuncName(fn)
	doers := reachers(p, httpDoers(p))
	for _, l := range core.Loops(fn) {
		var page *ssa.Call
		l.Instrs(func(in ssa.Instruction) {
			if c, ok := in.(*ssa.Call); ok {
				if g := core.CalleeFn(c); g != nil && doers[g] {
					page = c
				}
			}
		})
		if page == nil {
			continue
		}
		// accumulation: an append whose appended elements originate from the page
		acc := false
		l.Instrs(func(in ssa.Instruction) {
			c, ok := in.(*ssa.Call)
			if !ok {
				return
			}
			if b, isB := c.Call.Value.(*ssa.Builtin); !isB || b.Name() != "append" || len(c.Call.Args) != 2 {
				return
			}
			for _, o := range core.Origins(c.Call.Args[1], core.SliceOpts{FieldsThrough: true}) {
				if o.Kind == core.OCall && o.Call == page {
					acc = true
				}
			}
		})
		r.Check(acc, rule, fname, "pages accumulated", p.Pos(page.Pos()), "descriptors of every further page must be appended to the accumulated list")
		lab := labeler{}
		for _, e := range l.Exits() {
			ifi, isIf := core.LastInstr(e[0]).(*ssa.If)
			ok := false
			detail := "exit not decided by the page request's error or next link"
			pos := "-"
			if isIf {
				pos = p.Pos(ifi.Cond.Pos())
				// the condition is a nil test of something the page request returned, directly or carried
				// in a loop flag (`for more := true; more; more = link != nil`)
				var byPage func(v ssa.Value, d int) bool
				byPage = func(v ssa.Value, d int) bool {
					if d > 4 {
						return false
					}
					cnd, _ := core.StripNot(v, true)
					if x, _, isNil := errCmpNil(cnd); isNil {
						for _, oc := range originCalls(x) {
							if oc == page {
								return true
							}
						}
						return false
					}
					if ph, isPhi := cnd.(*ssa.Phi); isPhi {
						any := false
						for _, ed := range ph.Edges {
							if _, isC := ed.(*ssa.Const); isC {
								continue
							}
							if !byPage(ed, d+1) {
								return false
							}
							any = true
						}
						return any
					}
					return false
				}
				if byPage(ifi.Cond, 0) {
					ok = true
					detail = "decided by the page request's result"
				}
			}
			r.Check(ok, rule, fname, lab.next("loop exit"), pos, detail)
		}
	}
}

// ---------------------------------------------------------------------------------------------
// R7 the manifest handed to a delete has a body

func c10R7(p *core.Prog, r *core.Report) {
	const rule = "C10.R7"
	r.Rule(rule, "a manifest passed along with WithManifest (so that ManifestDelete can find its subject and update the subject's referrers) never comes from ManifestHead: a head response has no body, GetSubject fails on it, and the delete then silently skips the referrers bookkeeping", 1)
	isWith := func(f *types.Func) bool {
		return core.IsModFunc(f, ".", "WithManifest") || core.IsModFunc(f, "scheme", "WithManifest")
	}
	n := 0
	for _, fn := range p.ModFuncs {
		if fn.Synthetic != "" {
			continue
		}
		lab := labeler{}
		for _, c := range core.CallsTo(fn, isWith) {
			n++
			label := lab.next("WithManifest argument")
			bad := ""
			for _, o := range core.Origins(core.CallArg(c, 0), core.SliceOpts{}) {
				if o.Kind != core.OCall || (o.Res != 0 && o.Res != -1) {
					continue
				}
				if cal := o.Callee(); cal != nil && cal.Name() == "ManifestHead" {
					bad = p.Pos(o.Call.Pos())
				}
			}
			if bad != "" {
				r.Violated(rule, p.FuncName(fn), label, p.Pos(c.Pos()), "the manifest comes from the ManifestHead at "+bad+" and has no body")
			} else {
				r.Held(rule, p.FuncName(fn), label, p.Pos(c.Pos()), "not a head response")
			}
		}
	}
	if n == 0 {
		r.Held(rule, "module", "WithManifest is not used", "", "every delete fetches the manifest itself")
	}
}

package rules

import (
	"fmt"
	"go/types"
	"strings"

	"golang.org/x/tools/go/ssa"

	"verif/internal/core"
)

func init() {
	register(&Spec{
		ID: "C07",
		Decides: "in scheme/ocidir every persistent file is produced by os.CreateTemp + writes to that handle + os.Rename of that temp name (no os.Create / WriteFile / OpenFile-for-write / Truncate, no write to a handle that is not a temp file); " +
			"each rename executes only on the success edges of the write and of the close of its temp file; the manifest file is renamed into place before the index is updated and the index update is unreachable from the rename's error edge; " +
			"on delete the index is rewritten before the file is removed and the removal is unreachable from the index write's error edge; sweeps only remove below blobs/.",
		NotCovered: "fsync/power loss (the property speaks of process death), layouts written by other tools, the content of the files (C02/C05 decide digest/content agreement), updateIndex replacing an externally damaged index.",
		Run:        runC07,
	})
}

const ocidirRel = "scheme/ocidir"

func isOS(cal *types.Func, name string) bool { return core.IsFunc(cal, "os", name) }

// fromCall reports whether v originates (all origins) from result res of a call to a function
// satisfying pred.
func fromCall(v ssa.Value, res int, pred func(*types.Func) bool) bool {
	return core.AllOrigins(core.Origins(v, core.SliceOpts{}), func(o core.Origin) bool {
		return o.Kind == core.OCall && (res < 0 || o.Res == res || o.Res == -1) && o.Callee() != nil && pred(o.Callee())
	})
}

// originCalls returns the calls among the origins of v.
func originCalls(v ssa.Value) []*ssa.Call {
	var out []*ssa.Call
	for _, o := range core.Origins(v, core.SliceOpts{}) {
		if o.Kind == core.OCall {
			out = append(out, o.Call)
		}
	}
	return out
}

// originCallsDeep is originCalls that looks through small module helpers: when an origin is a call of
// a module function, the origins of that function's returned values are added (bounded depth), so
// that extracting an expression into a helper does not change the verdict.
func originCallsDeep(p *core.Prog, v ssa.Value, depth int) []*ssa.Call {
	var out []*ssa.Call
	for _, c := range originCalls(v) {
		out = append(out, c)
		g := c.Call.StaticCallee()
		if depth <= 0 || g == nil || !p.InModule(g) || len(g.Blocks) == 0 || len(g.Blocks) > 12 {
			continue
		}
		for _, ret := range core.Returns(g) {
			for i := range ret.Results {
				out = append(out, originCallsDeep(p, core.ReturnOperand(ret, i), depth-1)...)
			}
		}
	}
	return out
}

// errGuardedFalse: instruction at executes only if the error result of call w was nil, i.e. its block
// is dominated by the false edge of `e != nil` (or the true edge of `e == nil`) with e originating
// from w.
func errGuardedNil(at ssa.Instruction, w *ssa.Call) bool {
	return anyGuard(at.Block(), func(c ssa.Value, pol bool) bool {
		x, neq, ok := errCmpNil(c)
		if !ok {
			return false
		}
		// pol is the truth of c on the dominating edge; error is nil iff (neq && !pol) || (!neq && pol)
		if neq == pol {
			return false
		}
		for _, oc := range originCalls(x) {
			if oc == w {
				return true
			}
		}
		return false
	})
}

// errEdgeOf returns the CFG edges on which the error result of call w is known non-nil.
func errEdgesOf(fn *ssa.Function, w *ssa.Call) [][2]*ssa.BasicBlock {
	var out [][2]*ssa.BasicBlock
	for _, b := range fn.Blocks {
		ifi, ok := core.LastInstr(b).(*ssa.If)
		if !ok {
			continue
		}
		c, pol := core.StripNot(ifi.Cond, true)
		x, neq, ok := errCmpNil(c)
		if !ok || !isErr(x.Type()) {
			continue // (a nil test of another result of the same call, `resp != nil`, says nothing about its error)
		}
		match := false
		for _, oc := range originCalls(x) {
			if oc == w {
				match = true
			}
		}
		if !match {
			continue
		}
		// non-nil edge: cond true when (neq == pol)
		if neq == pol {
			out = append(out, [2]*ssa.BasicBlock{b, b.Succs[0]})
		} else {
			out = append(out, [2]*ssa.BasicBlock{b, b.Succs[1]})
		}
	}
	return out
}

func runC07(p *core.Prog, r *core.Report) {
	c07R1(p, r, "C07.R1")
	c07R2(p, r)
	c07R3(p, r, "C07.R3")
	c07R4(p, r)
	c07R5(p, r, "C07.R5")
	c07R6(p, r)
	// the same order in an import into a layout: the tag is written last (shared with C09.R10)
	importOrderRule(p, r, "C07.R7")
	c07R8(p, r)
	// a manifest (and the tag written with it) is not published while a blob it shares with another
	// image of the same copy is still in flight (shared with C03.R4)
	c03R4(p, r, "C07.R9")
	// the collector cannot run under a copy: the lock count of a running copy is never dropped with the bookkeeping entry (shared with C08.R2)
	c08R2(p, r, "C07.R10")
	// parts of a tagged image are removed only by an explicit delete or by the sweep (shared with C08.R11)
	whoMayRemoveRule(p, r, "C07.R11")
	// the collector walks everything a tag reaches (shared with C08.R4)
	c08R4(p, r, "C07.R12")
}

// ---------------------------------------------------------------------------------------------
// R8 the index updater starts a new index when the old one cannot be read, so the reader must not
// refuse an index that it has read and parsed

func c07R8(p *core.Prog, r *core.Report) {
	const rule = "C07.R8"
	r.Rule(rule, "an index that parses is never discarded: while the index updater answers a failed read of index.json by writing a fresh index, the reader has no failing return after its JSON decode succeeded (a content check added there turns one foreign entry into the loss of every tag at the next write)", 1)
	rd := p.Method(ocidirRel, "OCIDir", "readIndex")
	wr := p.Method(ocidirRel, "OCIDir", "writeIndex")
	if rd == nil || wr == nil {
		r.MissingAnchor(rule, ocidirRel+" readIndex / writeIndex")
		return
	}
	upd, replaces := indexUpdater(p)
	if upd == nil {
		upd = rd
	}
	if !replaces {
		r.Held(rule, p.FuncName(upd), "index read failure", p.Pos(upd.Pos()), "the updater does not write an index after a failed read: nothing is replaced")
		return
	}
	// the decode step: a call of encoding/json, or of a small module helper that makes one
	var decodes func(g *ssa.Function, depth int) bool
	isJSON := func(f *types.Func) bool {
		return f != nil && f.Pkg() != nil && f.Pkg().Path() == "encoding/json" && (f.Name() == "Unmarshal" || f.Name() == "Decode")
	}
	decodes = func(g *ssa.Function, depth int) bool {
		if g == nil || depth < 0 || !p.InModule(g) {
			return false
		}
		found := false
		core.Calls(g, func(c ssa.CallInstruction) {
			if isJSON(core.Callee(c)) || (depth > 0 && decodes(core.CalleeFn(c), depth-1)) {
				found = true
			}
		})
		return found
	}
	// a helper counts only when it handles the index itself (the layout check decodes the marker file)
	idxT := rd.Signature.Results().At(0).Type()
	carriesIndex := func(g *ssa.Function) bool {
		is := func(t types.Type) bool {
			if pt, ok := t.(*types.Pointer); ok {
				t = pt.Elem()
			}
			return types.Identical(t, idxT)
		}
		for i := 0; i < g.Signature.Params().Len(); i++ {
			if is(g.Signature.Params().At(i).Type()) {
				return true
			}
		}
		for i := 0; i < g.Signature.Results().Len(); i++ {
			if is(g.Signature.Results().At(i).Type()) {
				return true
			}
		}
		return false
	}
	// … or is handed the index behind an `any` (a shared "decode this JSON file into v" helper)
	passesIndex := func(call *ssa.Call) bool {
		for _, a := range call.Call.Args {
			v := underIface(a)
			t := v.Type()
			if pt, ok := t.(*types.Pointer); ok {
				t = pt.Elem()
			}
			if types.Identical(t, idxT) {
				return true
			}
		}
		return false
	}
	var dec []*ssa.Call
	core.Calls(rd, func(c ssa.CallInstruction) {
		call, ok := c.(*ssa.Call)
		if !ok {
			return
		}
		if isJSON(core.Callee(c)) || (decodes(core.CalleeFn(c), 1) && (carriesIndex(core.CalleeFn(c)) || passesIndex(call))) {
			dec = append(dec, call)
		}
	})
	if len(dec) == 0 {
		r.Undecided(rule, p.FuncName(rd), "decode of the index", p.Pos(rd.Pos()), "no JSON decode found in the index reader")
		return
	}
	lab := labeler{}
	for _, d := range dec {
		errE := errEdgesOf(rd, d)
		reach := core.Reach{StopEdge: func(from, to *ssa.BasicBlock) bool {
			for _, e := range errE {
				if e[0] == from && e[1] == to {
					return true
				}
			}
			return false
		}}
		ok, pos := true, d.Pos()
		for in := range reach.FromInstr(d) {
			if ret, isRet := in.(*ssa.Return); isRet && failureReturn(rd, ret) {
				// the decode error itself, returned unwrapped behind its own test
				ok, pos = false, ret.Pos()
			}
		}
		r.Check(ok, rule, p.FuncName(rd), lab.next("no failure after the index was parsed"), p.Pos(pos), "a failing return is reachable after the decode succeeded: the updater takes that failure for 'no index yet' and replaces index.json with one that holds only the new entry")
	}
}

// pathDepth counts the path elements of a path expression built with Join, + and Sprintf: one per
// non-constant leaf, one per segment of a constant. ok=false when the expression has alternatives
// (a phi), which cannot be counted.
func pathDepth(v ssa.Value) (n int, ok bool) {
	ok = true
	env := map[*ssa.Parameter]ssa.Value{}
	var walk func(x ssa.Value, d int)
	// a path helper of the package with one way of building its result is counted through
	inlineDepth := func(c *ssa.Call, idx int, d int) bool {
		g := pathHelper(c, idx)
		if g == nil || d > 20 {
			return false
		}
		var ops []ssa.Value
		for _, ret := range core.Returns(g) {
			op := core.ReturnOperand(ret, idx)
			if cs, isC := core.ConstString(op); isC && cs == "" {
				continue
			}
			ops = append(ops, op)
		}
		if len(ops) != 1 {
			return false
		}
		for i, pr := range g.Params {
			if i < len(c.Call.Args) {
				env[pr] = c.Call.Args[i]
			}
		}
		walk(ops[0], d+1)
		return true
	}
	walk = func(x ssa.Value, d int) {
		if x == nil || d > 30 {
			ok = false
			return
		}
		switch y := x.(type) {
		case *ssa.Const:
			if sv, isS := core.ConstString(y); isS {
				for _, seg := range strings.Split(sv, "/") {
					if seg != "" {
						n++
					}
				}
				return
			}
			n++
		case *ssa.Parameter:
			if a, has := env[y]; has {
				walk(a, d+1)
				return
			}
			n++
		case *ssa.Extract:
			if c, isCall := y.Tuple.(*ssa.Call); isCall && inlineDepth(c, y.Index, d) {
				return
			}
			n++
		case *ssa.Call:
			cal := core.Callee(y)
			if cal != nil && (core.IsFunc(cal, "path", "Join") || core.IsFunc(cal, "path/filepath", "Join")) {
				for _, e := range variadicElems(y.Call.Args[0]) {
					walk(e, d+1)
				}
				return
			}
			if y.Call.Signature().Results().Len() == 1 && inlineDepth(y, 0, d) {
				return
			}
			n++
		case *ssa.Phi:
			ok = false
		case *ssa.UnOp:
			if al, isCell := y.X.(*ssa.Alloc); isCell {
				sts := core.ReachingStores(y, al)
				if len(sts) == 1 {
					walk(sts[0].Val, d+1)
					return
				}
				if len(sts) > 1 {
					ok = false
					return
				}
			}
			n++
		case *ssa.MakeInterface:
			walk(y.X, d+1)
		case *ssa.Convert:
			walk(y.X, d+1)
		case *ssa.ChangeType:
			walk(y.X, d+1)
		default:
			n++
		}
	}
	walk(v, 0)
	return n, ok
}

// c07R5: a rename is atomic, and leaves its temp file where the sweep of Close finds it, only inside
// one directory. The temp file is created in the directory its final name lives in.
func c07R5(p *core.Prog, r *core.Report, rule string) {
	r.Rule(rule, "temp files live next to their final name: for every os.Rename in scheme/ocidir whose source is named after a file made by os.CreateTemp in the same function, the directory given to CreateTemp has exactly one path element less than the rename's destination (a rename across directories is not atomic on every file system, and a temp file left outside the blob directories is never swept)", 2)
	for _, fn := range pkgFuncs(p, ocidirRel) {
		renames := core.CallsTo(fn, func(f *types.Func) bool { return isOS(f, "Rename") })
		temps := core.CallsTo(fn, func(f *types.Func) bool { return isOS(f, "CreateTemp") })
		if len(renames) == 0 || len(temps) == 0 {
			continue
		}
		lab := labeler{}
		for _, rn := range renames {
			// the temp file whose name is the last element of the source
			var tmp ssa.CallInstruction
			for _, t := range temps {
				tv, _ := t.(ssa.Value)
				for _, l := range pathLeaves(core.CallArg(rn, 0)) {
					if fromCallValue(l, tv) {
						tmp = t
					}
				}
			}
			if tmp == nil {
				continue
			}
			label := lab.next("os.Rename")
			dd, ok1 := pathDepth(core.CallArg(rn, 1))
			td, ok2 := pathDepth(core.CallArg(tmp, 0))
			if !ok1 || !ok2 {
				r.Held(rule, p.FuncName(fn), label+" (not counted)", p.Pos(rn.Pos()), "the destination or the temp directory has alternatives; depth not compared")
				continue
			}
			r.Check(dd == td+1, rule, p.FuncName(fn), label, p.Pos(rn.Pos()),
				fmt.Sprintf("the temp file is created in a directory of %d path elements, the destination has %d: the rename crosses directories (not atomic everywhere), and a temp file left behind by a failed write sits where the sweep of Close does not look", td, dd))
		}
	}
}

// fromCallValue: v is derived (through method calls on it, extracts, conversions) from the result of call.
func fromCallValue(v, call ssa.Value) bool {
	for i := 0; i < 8 && v != nil; i++ {
		if v == call {
			return true
		}
		switch x := v.(type) {
		case *ssa.Extract:
			v = x.Tuple
		case *ssa.Call:
			if len(x.Call.Args) > 0 && !x.Call.IsInvoke() {
				v = x.Call.Args[0]
			} else if x.Call.IsInvoke() {
				v = x.Call.Value
			} else {
				return false
			}
		case *ssa.MakeInterface:
			v = x.X
		case *ssa.UnOp:
			al, ok := x.X.(*ssa.Alloc)
			if !ok {
				return false
			}
			sts := core.StoresToCell(al)
			if len(sts) != 1 {
				return false
			}
			v = sts[0].Val
		default:
			return false
		}
	}
	return false
}

// fileWriters are the (*os.File) methods that modify a file.
var fileWriters = map[string]bool{"Write": true, "WriteString": true, "WriteAt": true, "Truncate": true, "ReadFrom": true, "Chmod": true, "Chown": true}

func c07R1(p *core.Prog, r *core.Report, rule string) {
	r.Rule(rule, "who may write and how: in scheme/ocidir only MkdirAll, CreateTemp, writes to a CreateTemp handle, Rename from that temp file's name, and Remove are allowed", 12)
	nTemp, nRename := 0, 0
	for _, fn := range pkgFuncs(p, ocidirRel) {
		fname := p.FuncName(fn)
		lab := labeler{}
		core.Calls(fn, func(c ssa.CallInstruction) {
			cal := core.Callee(c)
			if cal == nil {
				return
			}
			pos := p.Pos(c.Pos())
			switch {
			case isFSMutator(cal):
				name := cal.Name()
				label := lab.next("os." + name)
				switch name {
				case "MkdirAll", "Mkdir":
					r.Held(rule, fname, label, pos, "directory creation is idempotent and leaves no partial file")
				case "CreateTemp":
					nTemp++
					r.Held(rule, fname, label, pos, "temp file; readers ignore *.tmp names")
				case "Remove":
					r.Held(rule, fname, label, pos, "unlink is atomic")
				case "Rename":
					nRename++
					src := core.CallArg(c, 0)
					ok, why := tempNamePath(src)
					if !ok && fromSpool(src) != nil {
						ok, why = true, "name handed back by a helper that created, wrote and closed the temp file"
					}
					r.Check(ok, rule, fname, label, pos, "rename source must be the name of a file made by os.CreateTemp in this function: "+why)
				case "OpenFile":
					if fl, ok := core.ConstInt(core.CallArg(c, 1)); ok && fl == 0 {
						r.Held(rule, fname, label, pos, "read-only open")
					} else {
						r.Violated(rule, fname, label, pos, "os.OpenFile with write flags on a layout file: an in-place write can be torn by a crash")
					}
				default:
					r.Violated(rule, fname, label, pos, "os."+name+" writes or truncates a layout file in place: a crash between truncate and write leaves a partial file under its final name (write to os.CreateTemp and os.Rename instead)")
				}
			case core.IsMethod(cal, "os", "File", cal.Name()) && fileWriters[cal.Name()]:
				label := lab.next("(*os.File)." + cal.Name())
				h := core.CallArg(c, 0)
				ok := fromCall(h, 0, func(f *types.Func) bool { return isOS(f, "CreateTemp") })
				r.Check(ok, rule, fname, label, pos, "file handle written to must come from os.CreateTemp")
			case core.IsFunc(cal, "io", "Copy") || core.IsFunc(cal, "io", "CopyN") || core.IsFunc(cal, "io", "CopyBuffer"):
				dst := core.CallArg(c, 0)
				if !core.IsNamed(underIface(dst).Type(), "os", "File") {
					return
				}
				label := lab.next("io.Copy to file")
				ok := fromCall(dst, 0, func(f *types.Func) bool { return isOS(f, "CreateTemp") })
				r.Check(ok, rule, fname, label, pos, "file handle written to must come from os.CreateTemp")
			}
		})
	}
	if nTemp < 3 || nRename < 3 {
		r.Undecided(rule, "-", "temp/rename floor", "-", fmt.Sprintf("found %d CreateTemp and %d Rename calls in scheme/ocidir; at least 3 of each confirmed by hand (blob, manifest, index)", nTemp, nRename))
	}
}

// underIface strips MakeInterface.
func underIface(v ssa.Value) ssa.Value {
	for {
		switch x := v.(type) {
		case *ssa.MakeInterface:
			v = x.X
		case *ssa.ChangeInterface:
			v = x.X
		default:
			return v
		}
	}
}

// pathLeaves decomposes a path expression built with path.Join / filepath.Join / string
// concatenation / fmt.Sprintf into its leaf values.
// PathLeaves exposes pathLeaves.
func PathLeaves(v ssa.Value) []ssa.Value { return pathLeaves(v) }

// pathHelper: call c hands back (as result idx) a string that an unexported-or-exported function of
// the same package builds: `blobFile(r, dig)`. The path expression is then read inside that function,
// with its parameters standing for the arguments of the call.
func pathHelper(c *ssa.Call, idx int) *ssa.Function {
	g := c.Call.StaticCallee()
	if g == nil || c.Call.IsInvoke() || len(g.Blocks) == 0 || len(g.Blocks) > 40 || c.Parent() == nil || core.FuncPkg(g) != core.FuncPkg(c.Parent()) || g == c.Parent() {
		return nil
	}
	res := g.Signature.Results()
	if idx >= res.Len() || !isStringType(res.At(idx).Type()) {
		return nil
	}
	// a function that creates or changes files is not a path expression (a spool helper hands back the
	// name of the temp file it made: that name is a leaf of its own kind)
	mutates := false
	core.Calls(g, func(c ssa.CallInstruction) { mutates = mutates || isFSMutator(core.Callee(c)) })
	if mutates {
		return nil
	}
	return g
}

type pathFrame struct {
	params map[*ssa.Parameter]ssa.Value
	parent *pathFrame
}

func pathLeaves(v ssa.Value) []ssa.Value {
	var out []ssa.Value
	type key struct {
		v ssa.Value
		f *pathFrame
	}
	seen := map[key]bool{}
	var walk func(x ssa.Value, depth int, fr *pathFrame)
	inline := func(c *ssa.Call, idx int, depth int, fr *pathFrame) bool {
		g := pathHelper(c, idx)
		if g == nil || depth > 30 {
			return false
		}
		nf := &pathFrame{params: map[*ssa.Parameter]ssa.Value{}, parent: fr}
		for i, pr := range g.Params {
			if i < len(c.Call.Args) {
				nf.params[pr] = c.Call.Args[i]
			}
		}
		n := 0
		for _, ret := range core.Returns(g) {
			op := core.ReturnOperand(ret, idx)
			if op == nil {
				continue
			}
			if cs, isC := core.ConstString(op); isC && cs == "" {
				continue // the error returns of a (string, error) helper
			}
			n++
			walk(op, depth+1, nf)
		}
		return n > 0
	}
	walk = func(x ssa.Value, depth int, fr *pathFrame) {
		k := key{x, fr}
		if x == nil || seen[k] || depth > 40 {
			if x != nil && !seen[k] {
				out = append(out, x)
			}
			return
		}
		seen[k] = true
		switch y := x.(type) {
		case *ssa.Parameter:
			if fr != nil {
				if a, ok := fr.params[y]; ok {
					walk(a, depth+1, fr.parent)
					return
				}
			}
			out = append(out, x)
		case *ssa.Extract:
			if c, ok := y.Tuple.(*ssa.Call); ok && inline(c, y.Index, depth, fr) {
				return
			}
			out = append(out, x)
		case *ssa.Call:
			cal := core.Callee(y)
			switch {
			case cal != nil && (core.IsFunc(cal, "path", "Join") || core.IsFunc(cal, "path/filepath", "Join")):
				// variadic: the single argument is a slice built from an array alloc
				for _, e := range variadicElems(y.Call.Args[0]) {
					walk(e, depth+1, fr)
				}
				return
			case cal != nil && core.IsFunc(cal, "fmt", "Sprintf"):
				for _, e := range variadicElems(y.Call.Args[len(y.Call.Args)-1]) {
					walk(underIface(e), depth+1, fr)
				}
				walk(y.Call.Args[0], depth+1, fr)
				return
			}
			if y.Call.Signature().Results().Len() == 1 && inline(y, 0, depth, fr) {
				return
			}
			out = append(out, x)
		case *ssa.BinOp:
			if isStringType(y.Type()) {
				walk(y.X, depth+1, fr)
				walk(y.Y, depth+1, fr)
				return
			}
			out = append(out, x)
		case *ssa.Phi:
			for _, e := range y.Edges {
				walk(e, depth+1, fr)
			}
		case *ssa.MakeInterface:
			walk(y.X, depth+1, fr)
		case *ssa.ChangeType:
			walk(y.X, depth+1, fr)
		case *ssa.Convert:
			walk(y.X, depth+1, fr)
		case *ssa.UnOp:
			if al, ok := y.X.(*ssa.Alloc); ok {
				sts := core.StoresToCell(al)
				if len(sts) > 0 {
					for _, st := range sts {
						walk(st.Val, depth+1, fr)
					}
					return
				}
			}
			// an element of the result of filepath.Glob(pattern): a name inside the pattern's directory
			// that matches its last element — its leaves are the pattern's
			if ia, ok := y.X.(*ssa.IndexAddr); ok {
				// an element of a slice literal of constants (`for _, pattern := range []string{"a", "b"}`)
				base := ia.X
				if sl, isSl := base.(*ssa.Slice); isSl {
					base = sl.X
				}
				if al, isAl := base.(*ssa.Alloc); isAl && al.Referrers() != nil {
					var consts []ssa.Value
					all := true
					for _, u := range *al.Referrers() {
						ea, isEA := u.(*ssa.IndexAddr)
						if !isEA || ea.Referrers() == nil {
							continue
						}
						for _, uu := range *ea.Referrers() {
							if st, isSt := uu.(*ssa.Store); isSt && st.Addr == ssa.Value(ea) {
								if _, isC := st.Val.(*ssa.Const); isC {
									consts = append(consts, st.Val)
								} else {
									all = false
								}
							}
						}
					}
					if all && len(consts) > 0 {
						for _, c := range consts {
							walk(c, depth+1, fr)
						}
						return
					}
				}
				for _, oc := range originCalls(ia.X) {
					if cal := core.Callee(oc); cal != nil && core.IsFunc(cal, "path/filepath", "Glob") && len(oc.Call.Args) == 1 {
						walk(oc.Call.Args[0], depth+1, fr)
						return
					}
				}
			}
			out = append(out, x)
		default:
			out = append(out, x)
		}
	}
	walk(v, 0, nil)
	return out
}

// variadicElems returns the values stored into the backing array of a variadic slice argument.
func variadicElems(v ssa.Value) []ssa.Value {
	sl, ok := v.(*ssa.Slice)
	if !ok {
		return []ssa.Value{v}
	}
	al, ok := sl.X.(*ssa.Alloc)
	if !ok {
		return []ssa.Value{v}
	}
	var out []ssa.Value
	for _, ref := range *al.Referrers() {
		ia, ok := ref.(*ssa.IndexAddr)
		if !ok {
			continue
		}
		for _, r2 := range *ia.Referrers() {
			if st, ok := r2.(*ssa.Store); ok && st.Addr == ia {
				out = append(out, st.Val)
			}
		}
	}
	if len(out) == 0 {
		return []ssa.Value{v}
	}
	return out
}

// tempNamePath: the path's last leaf is the name of a temp file: FileInfo.Name() of Stat() of a
// CreateTemp handle, or (*os.File).Name() of such a handle.
func tempNamePath(v ssa.Value) (bool, string) {
	leaves := pathLeaves(v)
	for _, l := range leaves {
		c, ok := l.(*ssa.Call)
		if !ok {
			continue
		}
		cal := core.Callee(c)
		if cal == nil || cal.Name() != "Name" {
			continue
		}
		recv := core.CallArg(c, 0)
		if core.IsNamed(recv.Type(), "os", "File") && fromCall(recv, 0, func(f *types.Func) bool { return isOS(f, "CreateTemp") }) {
			return true, "(*os.File).Name() of the temp file"
		}
		// fi.Name() with fi from tmpFile.Stat()
		for _, st := range originCalls(recv) {
			sc := core.Callee(st)
			if sc != nil && core.IsMethod(sc, "os", "File", "Stat") && fromCall(core.CallArg(st, 0), 0, func(f *types.Func) bool { return isOS(f, "CreateTemp") }) {
				return true, "FileInfo.Name() of the temp file"
			}
		}
	}
	var ds []string
	for _, l := range leaves {
		ds = append(ds, l.String())
	}
	return false, "leaves: " + strings.Join(ds, ", ")
}

// spoolHelper: an unexported function of the layout package that creates a temp file, writes it,
// closes it and hands back its name: every success return (nil error) lies behind the nil edges of
// the write and of the Close, and the returned string is the temp file's own name. Its caller
// publishes the file with a rename. nameRes is the index of the name among the results.
func spoolHelper(h *ssa.Function) (ok bool, nameRes int) {
	if h == nil || len(h.Blocks) == 0 || h.Object() == nil || h.Object().Exported() {
		return false, 0
	}
	res := h.Signature.Results()
	if res.Len() < 2 || !types.Identical(res.At(res.Len()-1).Type(), types.Universe.Lookup("error").Type()) {
		return false, 0
	}
	nameRes = -1
	for i := 0; i < res.Len(); i++ {
		if isStringType(res.At(i).Type()) {
			nameRes = i
		}
	}
	if nameRes < 0 {
		return false, 0
	}
	isTemp := func(v ssa.Value) bool {
		return v != nil && fromCall(v, 0, func(f *types.Func) bool { return isOS(f, "CreateTemp") })
	}
	var writes, closes []*ssa.Call
	renames := 0
	core.Calls(h, func(c ssa.CallInstruction) {
		call, isCall := c.(*ssa.Call)
		cal := core.Callee(c)
		if cal == nil {
			return
		}
		if isOS(cal, "Rename") {
			renames++
		}
		if !isCall {
			return
		}
		switch {
		case core.IsMethod(cal, "os", "File", cal.Name()) && (cal.Name() == "Write" || cal.Name() == "WriteString" || cal.Name() == "ReadFrom"),
			core.IsFunc(cal, "io", "Copy"), core.IsFunc(cal, "io", "CopyN"), core.IsFunc(cal, "io", "CopyBuffer"):
			if isTemp(core.CallArg(c, 0)) {
				writes = append(writes, call)
			}
		case core.IsMethod(cal, "os", "File", "Close"):
			if isTemp(core.CallArg(c, 0)) {
				closes = append(closes, call)
			}
		}
	})
	if renames > 0 || len(writes) == 0 || len(closes) == 0 {
		return false, 0
	}
	for _, ret := range core.Returns(h) {
		if !core.IsNilConst(core.ReturnOperand(ret, res.Len()-1)) {
			continue
		}
		// a success return: complete file, and its own name
		for _, w := range append(append([]*ssa.Call{}, writes...), closes...) {
			for _, e := range errEdgesOf(h, w) {
				if (core.Reach{}).FromEdge(e[0], e[1])[ret] {
					return false, 0
				}
			}
			if len(errEdgesOf(h, w)) == 0 {
				return false, 0
			}
		}
		if okName, _ := tempNamePath(core.ReturnOperand(ret, nameRes)); !okName {
			return false, 0
		}
	}
	return true, nameRes
}

// fromSpool: v is the name handed back by a spool helper; it returns the call.
func fromSpool(v ssa.Value) *ssa.Call {
	for _, l := range pathLeaves(v) {
		for _, o := range core.Origins(l, core.SliceOpts{}) {
			if o.Kind != core.OCall {
				continue
			}
			if ok, k := spoolHelper(o.Call.Call.StaticCallee()); ok && (o.Res == k) {
				return o.Call
			}
		}
	}
	return nil
}

func c07R2(p *core.Prog, r *core.Report) {
	const rule = "C07.R2"
	r.Rule(rule, "publish only complete files: each os.Rename in scheme/ocidir is dominated by a write and by the Close of its temp file and executes only on their nil-error edges", 4)
	for _, fn := range pkgFuncs(p, ocidirRel) {
		renames := core.CallsTo(fn, func(f *types.Func) bool { return isOS(f, "Rename") })
		if len(renames) == 0 {
			continue
		}
		fname := p.FuncName(fn)
		lab := labeler{}
		// writes and closes on temp handles in this function
		var writes, closes []*ssa.Call
		core.Calls(fn, func(c ssa.CallInstruction) {
			call, ok := c.(*ssa.Call)
			if !ok {
				return
			}
			cal := core.Callee(c)
			if cal == nil {
				return
			}
			isTemp := func(v ssa.Value) bool {
				if v == nil {
					return false
				}
				if fromCall(v, 0, func(f *types.Func) bool { return isOS(f, "CreateTemp") }) {
					return true
				}
				// one of the writers of an io.MultiWriter
				for _, oc := range originCalls(v) {
					if cal := core.Callee(oc); cal != nil && core.IsFunc(cal, "io", "MultiWriter") && len(oc.Call.Args) == 1 {
						for _, w := range variadicElems(oc.Call.Args[0]) {
							if fromCall(underIface(w), 0, func(f *types.Func) bool { return isOS(f, "CreateTemp") }) {
								return true
							}
						}
					}
				}
				return false
			}
			switch {
			case core.IsMethod(cal, "os", "File", cal.Name()) && (cal.Name() == "Write" || cal.Name() == "WriteString" || cal.Name() == "ReadFrom"):
				if isTemp(core.CallArg(c, 0)) {
					writes = append(writes, call)
				}
			case core.IsFunc(cal, "io", "Copy") || core.IsFunc(cal, "io", "CopyN") || core.IsFunc(cal, "io", "CopyBuffer"):
				if isTemp(core.CallArg(c, 0)) {
					writes = append(writes, call)
				}
			case core.IsMethod(cal, "os", "File", "Close"):
				if isTemp(core.CallArg(c, 0)) {
					closes = append(closes, call)
				}
			}
		})
		for _, rn := range renames {
			ri := rn.(ssa.Instruction)
			pos := p.Pos(rn.Pos())
			label := lab.next("os.Rename")
			var wOK, cOK bool
			var why []string
			for _, w := range writes {
				if core.DominatesInstr(w, ri) {
					if errGuardedNil(ri, w) {
						wOK = true
					} else {
						why = append(why, "rename is reachable when the write at "+p.Pos(w.Pos())+" failed")
					}
				}
			}
			for _, cl := range closes {
				if core.DominatesInstr(cl, ri) {
					if errGuardedNil(ri, cl) {
						cOK = true
					} else {
						why = append(why, "rename is reachable when the Close at "+p.Pos(cl.Pos())+" failed")
					}
				}
			}
			if sp := fromSpool(core.CallArg(rn, 0)); sp != nil && len(writes) == 0 {
				// the temp file was written and closed by a helper: the rename runs only where the helper succeeded
				if core.DominatesInstr(sp, ri) && errGuardedNil(ri, sp) {
					wOK, cOK = true, true
				} else {
					why = append(why, "rename is reachable when "+sp.Call.StaticCallee().Name()+" failed")
				}
				ok := wOK && cOK && len(why) == 0
				detail := "written and closed by " + sp.Call.StaticCallee().Name() + "; rename only on its success edge"
				if !ok {
					detail = strings.Join(why, "; ") + ": a short or failed write would be published under the final name"
				}
				r.Check(ok, rule, fname, label, pos, detail)
				continue
			}
			if len(writes) == 0 {
				why = append(why, "no write to a temp file in this function")
			}
			if !wOK && len(why) == 0 {
				why = append(why, "no write to the temp file dominates the rename")
			}
			if !cOK && len(closes) == 0 {
				why = append(why, "temp file is not closed before the rename")
			}
			ok := wOK && cOK && len(why) == 0
			detail := "write and close dominate; rename only on their success edges"
			if !ok {
				detail = strings.Join(why, "; ") + ": a short or failed write would be published under the final name"
			}
			r.Check(ok, rule, fname, label, pos, detail)
		}
	}
}

func c07R3(p *core.Prog, r *core.Report, rule string) {
	r.Rule(rule, "order between files: manifest file renamed into place before the index mentions it; on delete the index is rewritten before the file is removed", 2)
	// (a) functions that rename a file and call updateIndex: rename dominates, and updateIndex only on rename success
	upd := p.Method(ocidirRel, "OCIDir", "updateIndex") // may have been inlined into its caller: the write itself is the event then
	wri := p.Method(ocidirRel, "OCIDir", "writeIndex")
	if wri == nil {
		r.MissingAnchor(rule, ocidirRel+".(*OCIDir).writeIndex")
		return
	}
	found := 0
	// helpers: functions of the package that rename (or remove) a content file themselves and do not
	// touch the index; a call of one counts as the rename (removal) at the call site
	idxTargets := map[*ssa.Function]bool{wri: true}
	if upd != nil {
		idxTargets[upd] = true
	}
	reachesIndex := reachers(p, idxTargets)
	renamers, removers := map[*ssa.Function]bool{}, map[*ssa.Function]bool{}
	for _, fn := range pkgFuncs(p, ocidirRel) {
		if idxTargets[fn] || reachesIndex[fn] || fn.Parent() != nil {
			continue
		}
		if len(core.CallsTo(fn, func(f *types.Func) bool { return isOS(f, "Rename") })) > 0 {
			renamers[fn] = true
		}
		if len(core.CallsTo(fn, func(f *types.Func) bool { return isOS(f, "Remove") || isOS(f, "RemoveAll") })) > 0 {
			removers[fn] = true
		}
	}
	for _, fn := range pkgFuncs(p, ocidirRel) {
		if idxTargets[fn] {
			continue
		}
		fname := p.FuncName(fn)
		var renames, removes, idxCalls []ssa.CallInstruction
		core.Calls(fn, func(c ssa.CallInstruction) {
			g := core.CalleeFn(c)
			cal := core.Callee(c)
			switch {
			case g != nil && idxTargets[g]:
				idxCalls = append(idxCalls, c)
			case isOS(cal, "Rename") || (g != nil && renamers[g]):
				renames = append(renames, c)
			case isOS(cal, "Remove") || isOS(cal, "RemoveAll") || (g != nil && removers[g]):
				removes = append(removes, c)
			}
		})
		lab := labeler{}
		if len(renames) > 0 && len(idxCalls) > 0 {
			for _, ic := range idxCalls {
				found++
				ii := ic.(ssa.Instruction)
				ok := false
				detail := "index update is not dominated by the rename of the content file: a crash can leave an index entry whose file does not exist"
				for _, rn := range renames {
					rc, isCall := rn.(*ssa.Call)
					if !isCall {
						continue
					}
					if core.DominatesInstr(rc, ii) {
						if errGuardedNil(ii, rc) {
							ok = true
							detail = "content file is renamed into place first; index updated only on the rename's success edge"
						} else {
							detail = "index update is reachable from the rename's error edge"
						}
					}
				}
				r.Check(ok, rule, fname, lab.next("index update after rename"), p.Pos(ic.Pos()), detail)
			}
		}
		if len(removes) > 0 && len(idxCalls) > 0 {
			// delete order: no index write reachable after a remove; remove unreachable from index write error edge
			for _, rm := range removes {
				found++
				rmi := rm.(ssa.Instruction)
				ok := true
				detail := "index entry leaves the index before the file is removed"
				after := core.Reach{}.FromInstr(rmi)
				for _, ic := range idxCalls {
					if after[ic.(ssa.Instruction)] {
						ok = false
						detail = "the index is rewritten at " + p.Pos(ic.Pos()) + " after the file was removed: a crash in between leaves tags that resolve to a missing manifest"
					}
					if call, isCall := ic.(*ssa.Call); isCall {
						for _, e := range errEdgesOf(fn, call) {
							if (core.Reach{}).FromEdge(e[0], e[1])[rmi] {
								ok = false
								detail = "the file removal is reachable from the error edge of the index write at " + p.Pos(ic.Pos())
							}
						}
					}
				}
				// some index call must be able to precede the remove
				pre := false
				for _, ic := range idxCalls {
					if (core.Reach{}).FromInstr(ic.(ssa.Instruction))[rmi] {
						pre = true
					}
				}
				if !pre {
					ok = false
					detail = "no index rewrite precedes the file removal"
				}
				r.Check(ok, rule, fname, lab.next("remove after index rewrite"), p.Pos(rm.Pos()), detail)
			}
		}
	}
	if found < 2 {
		r.Undecided(rule, "-", "ordering floor", "-", fmt.Sprintf("found %d rename→index / index→remove orderings, 2 confirmed by hand (manifestPut, ManifestDelete)", found))
	}
	// (b) sweep scope: every os.Remove whose path is not built from a validated digest is below blobs/ and uses directory listings
	closeFn := p.Method(ocidirRel, "OCIDir", "Close")
	if closeFn == nil {
		r.MissingAnchor(rule, ocidirRel+".(*OCIDir).Close")
		return
	}
	for _, site := range sweepSites(closeFn) {
		rm := site.rm
		leaves := pathLeaves(core.CallArg(rm, 0))
		// the removal lives in a helper: a leaf that is a parameter of the helper stands for the leaves
		// of the argument Close passes
		if cs, ok := site.at.(ssa.CallInstruction); ok && site.at != rm.(ssa.Instruction) {
			if h := core.CalleeFn(cs); h != nil && h == rm.Parent() {
				var exp []ssa.Value
				for _, l := range leaves {
					if par, ok := l.(*ssa.Parameter); ok {
						for i, q := range h.Params {
							if q == par {
								exp = append(exp, pathLeaves(core.CallArg(cs, i))...)
							}
						}
						continue
					}
					exp = append(exp, l)
				}
				leaves = exp
			}
		}
		hasBlobs := false
		okLeaves := true
		var bad []string
		for _, l := range leaves {
			if s, ok := core.ConstString(l); ok {
				if s == "blobs" {
					hasBlobs = true
				}
				// the other thing the sweep may remove: a temp file of the layout's own top-level files
				// (`index.json.*.tmp`), named by a constant pattern without a directory part
				if strings.HasSuffix(s, ".tmp") && !strings.ContainsAny(s, "/\\") {
					hasBlobs = true
				}
				continue
			}
			if c, ok := l.(*ssa.Call); ok {
				if cal := core.Callee(c); cal != nil && cal.Name() == "Name" && core.IsNamed(core.CallArg(c, 0).Type(), "io/fs", "DirEntry") {
					continue
				}
			}
			if isRefPath(l) {
				continue
			}
			okLeaves = false
			bad = append(bad, l.String())
		}
		r.Check(hasBlobs && okLeaves, rule, p.FuncName(closeFn), "sweep path", p.Pos(rm.Pos()),
			"GC removes only <layout>/blobs/<dir entry>/<dir entry> and <layout>/<constant>.tmp"+map[bool]string{true: "", false: "; unexpected leaves: " + strings.Join(bad, ", ")}[okLeaves])
	}
}

// isRefPath: v is a load of field Path of a ref.Ref.
func isRefPath(v ssa.Value) bool {
	return fieldLoadOf(v, modPath("types/ref"), "Ref", "Path")
}

// ---------------------------------------------------------------------------------------------
// R4 replace by rename, never unlink first

// samePathValue: the two values denote the same path (same SSA value, same variable/field, or the
// same Join of the same parts).
func samePathValue(a, b ssa.Value, depth int) bool {
	if a == b {
		return true
	}
	if depth > 4 {
		return false
	}
	if pa, pb := accessPath(a), accessPath(b); pa != "" && pa == pb && !strings.HasPrefix(pa, "call@") && !strings.HasPrefix(pa, "phi@") {
		return true
	}
	ca, oka := a.(*ssa.Call)
	cb, okb := b.(*ssa.Call)
	if oka && okb {
		fa, fb := core.Callee(ca), core.Callee(cb)
		if fa != nil && fa == fb && fa.Name() == "Join" {
			ea, eb := variadicElems(ca.Call.Args[len(ca.Call.Args)-1]), variadicElems(cb.Call.Args[len(cb.Call.Args)-1])
			if len(ea) == 0 || len(ea) != len(eb) {
				return false
			}
			for i := range ea {
				if !samePathValue(ea[i], eb[i], depth+1) {
					return false
				}
			}
			return true
		}
	}
	return false
}

func c07R4(p *core.Prog, r *core.Report) {
	const rule = "C07.R4"
	r.Rule(rule, "an existing file is replaced by the rename itself: no os.Remove of the rename's destination can precede the rename (between the unlink and the rename the digest-named file does not exist; a crash there breaks every image that shares it)", 3)
	n := 0
	for _, fn := range pkgFuncs(p, ocidirRel) {
		renames := core.CallsTo(fn, func(f *types.Func) bool { return isOS(f, "Rename") })
		if len(renames) == 0 {
			continue
		}
		removes := core.CallsTo(fn, func(f *types.Func) bool { return isOS(f, "Remove") || isOS(f, "RemoveAll") })
		lab := labeler{}
		for _, rn := range renames {
			n++
			label := lab.next("os.Rename destination")
			dst := core.CallArg(rn, 1)
			bad := ""
			for _, rm := range removes {
				if !samePathValue(core.CallArg(rm, 0), dst, 0) {
					continue
				}
				if (core.Reach{}).FromInstr(rm.(ssa.Instruction))[rn.(ssa.Instruction)] {
					bad = p.Pos(rm.Pos())
				}
			}
			if bad != "" {
				r.Violated(rule, p.FuncName(fn), label, p.Pos(rn.Pos()), "the destination is removed at "+bad+" before the rename: a crash in between leaves the layout without a file that existing entries refer to")
			} else {
				r.Held(rule, p.FuncName(fn), label, p.Pos(rn.Pos()), "no removal of the destination precedes the rename")
			}
		}
	}
	_ = n
}

// c07R6: the marker file and the index are two files, and a crash can fall between them. Either the
// index is in place before the marker says "this is a layout", or the code that adds to the index
// tolerates a layout that has its marker and no readable index yet.
func c07R6(p *core.Prog, r *core.Report) {
	const rule = "C07.R6"
	r.Rule(rule, "marker without index is recoverable: either every function that creates the layout marker (oci-layout) writes the index before it, or the index updater still reaches its index write from the failure edge of reading the index (a crash between the two renames must not leave a layout that every later write refuses)", 1)
	rd := p.Method(ocidirRel, "OCIDir", "readIndex")
	wr := p.Method(ocidirRel, "OCIDir", "writeIndex")
	if rd == nil || wr == nil {
		r.MissingAnchor(rule, ocidirRel+" readIndex / writeIndex")
		return
	}
	// (B) the updater recovers
	upd, recovers := indexUpdater(p)
	if upd == nil {
		upd = rd
	}
	// (A) index before marker in every creator of the marker
	markerWriters := map[*ssa.Function]bool{}
	for _, fn := range pkgFuncs(p, ocidirRel) {
		for _, c := range core.CallsTo(fn, func(f *types.Func) bool { return isOS(f, "Rename") }) {
			for _, l := range pathLeaves(core.CallArg(c, 1)) {
				if sv, ok := core.ConstString(l); ok && sv == "oci-layout" {
					markerWriters[fn] = true
				}
			}
		}
	}
	indexFirst, creators := true, 0
	for _, fn := range pkgFuncs(p, ocidirRel) {
		core.Calls(fn, func(c ssa.CallInstruction) {
			g := core.CalleeFn(c)
			if g == nil || !markerWriters[g] || markerWriters[fn] {
				return
			}
			creators++
			dominated := false
			core.Calls(fn, func(c2 ssa.CallInstruction) {
				if core.CalleeFn(c2) == wr && core.DominatesInstr(c2.(ssa.Instruction), c.(ssa.Instruction)) {
					dominated = true
				}
			})
			if !dominated {
				indexFirst = false
			}
		})
	}
	if creators == 0 {
		indexFirst = false
	}
	r.Check(recovers || indexFirst, rule, p.FuncName(upd), "marker without index", p.Pos(upd.Pos()),
		"the marker is created before any index exists and the index updater gives up when it cannot read the index: a crash between the two renames leaves a directory that is taken for a layout and that no later write can complete")
}

func funcObjIs(p *core.Prog, f *types.Func, fn *ssa.Function) bool {
	return f != nil && fn != nil && p.SSA.FuncValue(f) == fn
}

// indexUpdater finds, by what it does, the function of the layout scheme that writes the index after
// it failed to read it (today updateIndex; its body may live in its caller): a call of an index reader
// from whose failure edge a call of the index writer is reachable. ok=false when no function does.
func indexUpdater(p *core.Prog) (fn *ssa.Function, ok bool) {
	wr := p.Method(ocidirRel, "OCIDir", "writeIndex")
	rds := roleSet(p, ocidirRel, "OCIDir", "readIndex")
	if wr == nil || len(rds) == 0 {
		return nil, false
	}
	for _, f := range pkgFuncs(p, ocidirRel) {
		if rds[f] || f == wr {
			continue
		}
		found := false
		core.Calls(f, func(c ssa.CallInstruction) {
			call, isCall := c.(*ssa.Call)
			if g := core.CalleeFn(c); !isCall || g == nil || !rds[g] {
				return
			}
			for _, e := range errEdgesOf(f, call) {
				for in := range (core.Reach{}).FromEdge(e[0], e[1]) {
					if cc, isC := in.(ssa.CallInstruction); isC && core.CalleeFn(cc) == wr {
						found = true
					}
				}
			}
		})
		if found {
			return f, true
		}
	}
	// the read and the write may each sit in an unexported helper of the updater
	// (`index, created := o.readOrInitIndex(r) … return o.storeIndex(r, index)`)
	var deep []*ssa.Function
	for _, f := range pkgFuncs(p, ocidirRel) {
		if rds[f] || f == wr || f.Parent() != nil {
			continue
		}
		scope := core.HelpersExcept(f, 2, func(h *ssa.Function) bool { return rds[h] || h == wr })
		if len(scope) < 2 {
			continue
		}
		found := false
		// a helper of f that absorbs the failed read (from the reader's failure edge it can return
		// without reporting a failure: `return indexCreate(), true`) …
		for _, g := range sortedFuncs(scope) {
			if g == f {
				continue
			}
			absorbs := false
			core.Calls(g, func(c ssa.CallInstruction) {
				call, isCall := c.(*ssa.Call)
				if h := core.CalleeFn(c); !isCall || h == nil || !rds[h] {
					return
				}
				for _, e := range errEdgesOf(g, call) {
					for in := range (core.Reach{}).FromEdge(e[0], e[1]) {
						if ret, isRet := in.(*ssa.Return); isRet && !failureReturn(g, ret) {
							absorbs = true
						}
					}
				}
			})
			if !absorbs {
				continue
			}
			// … and after whose call f goes on to the index write
			core.Calls(f, func(c ssa.CallInstruction) {
				if core.CalleeFn(c) != g {
					return
				}
				for in := range (core.DeepReach{Scope: scope}).FromInstr(c.(ssa.Instruction)) {
					if cc, isC := in.(ssa.CallInstruction); isC && core.CalleeFn(cc) == wr {
						found = true
					}
				}
			})
		}
		if found {
			deep = append(deep, f)
		}
	}
	if len(deep) > 0 {
		// prefer the function the rules know as the updater, else the first by name
		for _, f := range deep {
			if canon(f) == "updateIndex" {
				return f, true
			}
		}
		return sortedFuncs(funcSetOfList(deep))[0], true
	}
	return p.Method(ocidirRel, "OCIDir", "updateIndex"), false
}

func funcSetOfList(l []*ssa.Function) map[*ssa.Function]bool {
	out := map[*ssa.Function]bool{}
	for _, f := range l {
		out[f] = true
	}
	return out
}

package rules

import (
	"fmt"
	"go/types"

	"golang.org/x/tools/go/ssa"

	"verif/internal/core"
)

// ocidirLockInfo runs the must-hold analysis for (*OCIDir).mu over scheme/ocidir. Protected base
// operations are accesses to the maps the mutex guards (modRefs, throttle); the index read/write
// helpers carry the `locked bool` idiom and are handled by the analysis itself.
func ocidirLockInfo(p *core.Prog) (*core.LockInfo, *types.Named) {
	n := p.Named(ocidirRel, "OCIDir")
	if n == nil {
		return nil, nil
	}
	// the mutex field: the sync.Mutex field of OCIDir
	mu := ""
	protected := map[string]bool{}
	st, _ := n.Underlying().(*types.Struct)
	if st == nil {
		return nil, nil
	}
	for i := 0; i < st.NumFields(); i++ {
		f := st.Field(i)
		if core.IsNamed(f.Type(), "sync", "Mutex") || core.IsNamed(f.Type(), "sync", "RWMutex") {
			mu = f.Name()
		}
		if _, isMap := f.Type().Underlying().(*types.Map); isMap {
			protected[f.Name()] = true
		}
	}
	if mu == "" {
		return nil, n
	}
	funcs := pkgFuncs(p, ocidirRel)
	spec := core.LockSpec{
		ID:    core.LockID{T: n, Field: mu},
		Funcs: funcs,
		Protected: func(in ssa.Instruction) (string, bool) {
			fa, ok := in.(*ssa.FieldAddr)
			if !ok {
				return "", false
			}
			n2, f := core.FieldAddrInfo(fa)
			if n2 == n && protected[f] {
				// constructor initialisation is not shared yet
				if in.Parent().Name() == "New" {
					return "", false
				}
				return "access to OCIDir." + f, true
			}
			return "", false
		},
		Entry: func(fn *ssa.Function) bool {
			return fn.Object() != nil && fn.Object().Exported() && fn.Signature.Recv() != nil
		},
	}
	return core.AnalyzeLocks(spec), n
}

// staleIndexRule: between reading index.json into a local copy and writing that copy back, no
// function that rewrites index.json itself may be called: the copy would overwrite the nested update
// (a lost update on the tag table: a deleted tag returns, a referrers tag reverts).
func staleIndexRule(p *core.Prog, r *core.Report, rule string) {
	r.Rule(rule, "layout index read-modify-write is not interleaved with itself: between readIndex and the writeIndex of that copy no function that rewrites the index (manifestPut, tagDelete, referrer updates, …) is called", 2)
	rd := p.Method(ocidirRel, "OCIDir", "readIndex")
	wr := p.Method(ocidirRel, "OCIDir", "writeIndex")
	if rd == nil || wr == nil {
		r.MissingAnchor(rule, ocidirRel+".(*OCIDir).readIndex / writeIndex")
		return
	}
	writers := reachers(p, map[*ssa.Function]bool{wr: true})
	rds := roleSet(p, ocidirRel, "OCIDir", "readIndex")
	n := 0
	for _, fn := range pkgFuncs(p, ocidirRel) {
		if fn == wr || rds[fn] {
			continue
		}
		var reads, writes []*ssa.Call
		core.Calls(fn, func(c ssa.CallInstruction) {
			call, ok := c.(*ssa.Call)
			if !ok {
				return
			}
			switch g := core.CalleeFn(c); {
			case g != nil && rds[g]:
				reads = append(reads, call)
			case g == wr:
				writes = append(writes, call)
			}
		})
		if len(reads) == 0 || len(writes) == 0 {
			continue
		}
		lab := labeler{}
		for _, w := range writes {
			// the read(s) this write's index comes from
			var from []*ssa.Call
			for _, o := range core.Origins(core.CallArg(w, 2), core.SliceOpts{FieldsThrough: true}) {
				if o.Kind == core.OCall && core.CalleeFn(o.Call) != nil && rds[core.CalleeFn(o.Call)] {
					from = append(from, o.Call)
				}
			}
			if len(from) == 0 {
				from = reads // a modified copy: be conservative, consider every read
			}
			n++
			label := lab.next("write of the index read earlier")
			bad := ""
			for _, rdc := range from {
				seen := core.Reach{Stop: func(in ssa.Instruction) bool { return in == ssa.Instruction(w) }}.FromInstr(rdc)
				for in := range seen {
					if in == ssa.Instruction(w) || in == ssa.Instruction(rdc) {
						continue
					}
					if _, isCall := in.(ssa.CallInstruction); !isCall {
						continue
					}
					// only what runs before the write counts: a rewrite on a path that never reaches the
					// write afterwards cannot be overwritten by it
					if g := instrRefs(p, in, writers); g != nil && (core.Reach{}).FromInstr(in)[ssa.Instruction(w)] {
						bad = fmt.Sprintf("%s is called at %s between the read at %s and this write", g.Name(), p.Pos(in.Pos()), p.Pos(rdc.Pos()))
					}
				}
			}
			if bad != "" {
				r.Violated(rule, p.FuncName(fn), label, p.Pos(w.Pos()), bad+": it rewrites index.json itself, and the stale copy then overwrites that update")
			} else {
				r.Held(rule, p.FuncName(fn), label, p.Pos(w.Pos()), "nothing that rewrites the index runs between the read and the write of the copy")
			}
		}
	}
	if n == 0 {
		r.Undecided(rule, ocidirRel, "index read-modify-write", "", "no function reads the index and writes it back")
	}
}

package rules

import (
	"go/types"

	"golang.org/x/tools/go/ssa"

	"verif/internal/core"
)

// ocidirLockInfo runs the must-hold analysis for (*OCIDir).mu over scheme/ocidir. Protected base
// operations are accesses to the maps the mutex guards (modRefs, throttle); the index read/write
// helpers carry the `locked bool` idiom and are handled by the analysis itself.
func ocidirLockInfo(p *core.Prog) (*core.LockInfo, *types.Named) {
	n := p.Named(ocidirRel, "OCIDir")
	if n == nil {
		return nil, nil
	}
	// the mutex field: the sync.Mutex field of OCIDir
	mu := ""
	protected := map[string]bool{}
	st, _ := n.Underlying().(*types.Struct)
	if st == nil {
		return nil, nil
	}
	for i := 0; i < st.NumFields(); i++ {
		f := st.Field(i)
		if core.IsNamed(f.Type(), "sync", "Mutex") || core.IsNamed(f.Type(), "sync", "RWMutex") {
			mu = f.Name()
		}
		if _, isMap := f.Type().Underlying().(*types.Map); isMap {
			protected[f.Name()] = true
		}
	}
	if mu == "" {
		return nil, n
	}
	funcs := pkgFuncs(p, ocidirRel)
	spec := core.LockSpec{
		ID:    core.LockID{T: n, Field: mu},
		Funcs: funcs,
		Protected: func(in ssa.Instruction) (string, bool) {
			fa, ok := in.(*ssa.FieldAddr)
			if !ok {
				return "", false
			}
			n2, f := core.FieldAddrInfo(fa)
			if n2 == n && protected[f] {
				// constructor initialisation is not shared yet
				if in.Parent().Name() == "New" {
					return "", false
				}
				return "access to OCIDir." + f, true
			}
			return "", false
		},
		Entry: func(fn *ssa.Function) bool {
			return fn.Object() != nil && fn.Object().Exported() && fn.Signature.Recv() != nil
		},
	}
	return core.AnalyzeLocks(spec), n
}

package rules

import (
	"fmt"
	"go/token"
	"go/types"
	"regexp"
	"regexp/syntax"
	"sort"
	"strings"
	"unicode"

	"golang.org/x/tools/go/ssa"

	"verif/internal/core"
)

func init() {
	register(&Spec{
		ID: "C15",
		Decides: "every regular expression of the reference grammar, folded from its package-level parts, is anchored at both ends; the scheme, repository, tag, digest and path groups of the folded patterns can only contain their alphabet (no upper case in repositories, tags of 1–128 legal characters, digests ending in at least 32 hex digits, no ':' or '@' in layout paths, a non-empty lower-case scheme); " +
			"the scheme used by the parsers comes from that grammar; SetTag/SetDigest/AddDigest write only tag, digest and the re-serialised reference; Docker Hub aliases are rewritten before the library/ prefix is decided; every scheme the parsers accept is known to the printer, the comparison functions and the client's scheme table (known finding D14); the printed form is not rewritten; no caller hands an input the reference parser refused to another parser of the package.",
		NotCovered: "round trip and rejection over the whole language (ambiguity between host and first path component); host name parsing in config/host.go.",
		Run:        runC15,
	})
}

// foldGlobals evaluates the string initialisers of a package's variables (constants, concatenation,
// other package variables, regexp.QuoteMeta of a foldable string).
type folder struct {
	init   *ssa.Function
	stores map[*ssa.Global]ssa.Value
	memo   map[ssa.Value]string
	env    map[*ssa.Parameter]string // parameter bindings while folding a call of a pure string helper
}

func newFolder(pkg *ssa.Package) *folder {
	f := &folder{stores: map[*ssa.Global]ssa.Value{}, memo: map[ssa.Value]string{}}
	f.init = pkg.Func("init")
	if f.init == nil {
		return f
	}
	for _, b := range f.init.Blocks {
		for _, in := range b.Instrs {
			if st, ok := in.(*ssa.Store); ok {
				if g, ok := st.Addr.(*ssa.Global); ok {
					f.stores[g] = st.Val
				}
			}
		}
	}
	return f
}

func (f *folder) str(v ssa.Value, depth int) (string, bool) {
	if depth > 40 || v == nil {
		return "", false
	}
	switch x := v.(type) {
	case *ssa.Const:
		return core.ConstString(x)
	case *ssa.BinOp:
		if x.Op != token.ADD {
			return "", false
		}
		a, ok1 := f.str(x.X, depth+1)
		b, ok2 := f.str(x.Y, depth+1)
		return a + b, ok1 && ok2
	case *ssa.UnOp:
		if g, ok := x.X.(*ssa.Global); ok {
			if val, ok := f.stores[g]; ok {
				return f.str(val, depth+1)
			}
		}
	case *ssa.Parameter:
		if f.env != nil {
			if s, ok := f.env[x]; ok {
				return s, true
			}
		}
	case *ssa.Phi:
		// all edges fold to the same string
		first, ok := "", false
		for i, e := range x.Edges {
			s, okE := f.str(e, depth+1)
			if !okE {
				return "", false
			}
			if i == 0 {
				first, ok = s, true
			} else if s != first {
				return "", false
			}
		}
		return first, ok
	case *ssa.Call:
		cal := core.Callee(x)
		if cal != nil && core.IsFunc(cal, "regexp", "QuoteMeta") {
			s, ok := f.str(x.Call.Args[0], depth+1)
			return regexp.QuoteMeta(s), ok
		}
		if cal != nil && core.IsFunc(cal, "strings", "Join") {
			if sep, ok := f.str(x.Call.Args[1], depth+1); ok {
				var parts []string
				for _, e := range variadicElems(x.Call.Args[0]) {
					s, okE := f.str(e, depth+1)
					if !okE {
						return "", false
					}
					parts = append(parts, s)
				}
				if len(parts) > 0 {
					return strings.Join(parts, sep), true
				}
			}
		}
		// a pure string helper of the package: one return whose value folds with the arguments bound
		if g := x.Call.StaticCallee(); g != nil && f.init != nil && g.Pkg == f.init.Pkg && len(g.Blocks) > 0 && g.Signature.Results().Len() == 1 {
			rets := core.Returns(g)
			if len(rets) != 1 {
				return "", false
			}
			env := map[*ssa.Parameter]string{}
			for i, pr := range g.Params {
				if i >= len(x.Call.Args) {
					return "", false
				}
				if g.Signature.Variadic() && i == len(g.Params)-1 {
					continue // a variadic tail is folded through its elements where it is used
				}
				s, ok := f.str(x.Call.Args[i], depth+1)
				if !ok {
					return "", false
				}
				env[pr] = s
			}
			saved := f.env
			f.env = env
			s, ok := f.str(core.ReturnOperand(rets[0], 0), depth+1)
			f.env = saved
			return s, ok
		}
	}
	return "", false
}

// regexGlobals returns the folded pattern of every package variable initialised with
// regexp.MustCompile / Compile.
func (f *folder) regexGlobals(fns []*ssa.Function) map[string]string {
	out := map[string]string{}
	for g, v := range f.stores {
		c, ok := v.(*ssa.Call)
		if !ok {
			if ex, isEx := v.(*ssa.Extract); isEx {
				c, ok = ex.Tuple.(*ssa.Call)
			}
		}
		if !ok || c == nil {
			continue
		}
		cal := core.Callee(c)
		isCompile := func(cal *types.Func) bool {
			return cal != nil && cal.Pkg() != nil && cal.Pkg().Path() == "regexp" && strings.Contains(cal.Name(), "Compile")
		}
		if !isCompile(cal) {
			// a package helper that compiles what it is given: `func anchored(e string) *regexp.Regexp { return regexp.MustCompile("^" + e + "$") }`
			h := c.Call.StaticCallee()
			if h == nil || f.init == nil || h.Pkg != f.init.Pkg || len(h.Blocks) == 0 {
				continue
			}
			rets := core.Returns(h)
			if len(rets) != 1 || len(rets[0].Results) == 0 {
				continue
			}
			inner, isCall := core.ReturnOperand(rets[0], 0).(*ssa.Call)
			if !isCall {
				if ex, isEx := core.ReturnOperand(rets[0], 0).(*ssa.Extract); isEx {
					inner, isCall = ex.Tuple.(*ssa.Call)
				}
			}
			if !isCall || !isCompile(core.Callee(inner)) {
				continue
			}
			env := map[*ssa.Parameter]string{}
			okEnv := true
			for i, pr := range h.Params {
				if i >= len(c.Call.Args) {
					okEnv = false
					break
				}
				if sv, ok := f.str(c.Call.Args[i], 0); ok {
					env[pr] = sv
				} else {
					okEnv = false
				}
			}
			if !okEnv {
				out[g.Name()] = "\x00unfoldable"
				continue
			}
			saved := f.env
			f.env = env
			sv, ok := f.str(inner.Call.Args[0], 0)
			f.env = saved
			if ok {
				out[g.Name()] = sv
			} else {
				out[g.Name()] = "\x00unfoldable"
			}
			continue
		}
		if s, ok := f.str(c.Call.Args[0], 0); ok {
			out[g.Name()] = s
		} else {
			out[g.Name()] = "\x00unfoldable"
		}
	}
	// the grammar is what references are matched against: a pattern that is only used to rewrite or
	// split a string (ReplaceAll*, Split) is not part of it
	if f.init != nil && f.init.Pkg != nil {
		match, other := map[string]bool{}, map[string]bool{}
		for _, fn := range fns {
			for _, g := range []*ssa.Function{fn} {
				core.Calls(g, func(c ssa.CallInstruction) {
					cal := core.Callee(c)
					if cal == nil || !core.IsNamed(core.CallArg(c, 0).Type(), "regexp", "Regexp") {
						return
					}
					ld, ok := core.CallArg(c, 0).(*ssa.UnOp)
					if !ok {
						return
					}
					gl, ok := ld.X.(*ssa.Global)
					if !ok {
						return
					}
					if strings.HasPrefix(cal.Name(), "Match") || strings.HasPrefix(cal.Name(), "Find") {
						match[gl.Name()] = true
					} else {
						other[gl.Name()] = true
					}
				})
			}
		}
		for name := range out {
			if other[name] && !match[name] {
				delete(out, name)
			}
		}
	}
	return out
}

func runC15(p *core.Prog, r *core.Report) {
	sp := p.SSAPkg("types/ref")
	if sp == nil {
		r.MissingAnchor("C15.R1", "types/ref")
		return
	}
	f := newFolder(sp)
	pats := f.regexGlobals(pkgFuncs(p, "types/ref"))
	c15R1R2(p, r, pats)
	c15R3(p, r)
	c15R4(p, r)
	c15R5(p, r, pats)
	c15R6(p, r)
	c15R7(p, r)
	c15R8(p, r)
}

// c15R8Allowed: sites where clearing tag and digest together is what is meant, each confirmed by reading.
var c15R8Allowed = map[string]string{
	"scheme/reg.(*Reg).referrerListByAPIPage": "the reference only labels the manifest built from a referrers API response, whose digest is unknown and which has no tag",
}

// c15R8: SetDigest replaces the tag by the digest. Used with an empty string it clears both, which is
// rarely what a caller that "removes the digest" wants: the tag the user gave is gone as well.
func c15R8(p *core.Prog, r *core.Report) {
	const rule = "C15.R8"
	r.Rule(rule, "replacing the digest leaves the other components alone: Ref.SetDigest is not called with a constant empty string outside types/ref (it clears the tag too; the digest alone is cleared through the field) except at the sites listed with a reason", 1)
	n := 0
	for _, fn := range p.ModFuncs {
		if len(fn.Blocks) == 0 {
			continue
		}
		if pk := core.FuncPkg(fn); pk == nil || pk.Path() == modPath("types/ref") {
			continue
		}
		lab := labeler{}
		for _, c := range core.CallsTo(fn, func(f *types.Func) bool { return core.IsModMethod(f, "types/ref", "Ref", "SetDigest") }) {
			sv, isC := core.ConstString(core.CallArg(c, 1))
			if !isC || sv != "" {
				continue
			}
			n++
			fname := p.FuncName(fn)
			key := strings.TrimSuffix(fname, fn.Name()) + canon(fn)
			if why, ok := c15R8Allowed[key]; ok {
				r.Held(rule, fname, lab.next("SetDigest(\"\")"), p.Pos(c.Pos()), "listed: "+why)
				continue
			}
			r.Violated(rule, fname, lab.next("SetDigest(\"\")"), p.Pos(c.Pos()), "SetDigest(\"\") clears the tag together with the digest: a reference given as name:tag@digest comes out as name, which prints and parses as name:latest")
		}
	}
	if n == 0 {
		r.Held(rule, "module", "no SetDigest(\"\")", "-", "nothing clears tag and digest together")
	}
}

// capture returns the sub-expression of capture group k.
func capture(re *syntax.Regexp, k int) *syntax.Regexp {
	if re.Op == syntax.OpCapture && re.Cap == k {
		return re.Sub[0]
	}
	for _, s := range re.Sub {
		if c := capture(s, k); c != nil {
			return c
		}
	}
	return nil
}

// alphabet returns the set of runes a sub-expression can consume (nil, true = any rune).
func alphabet(re *syntax.Regexp, out map[rune]bool) (any bool) {
	switch re.Op {
	case syntax.OpLiteral:
		for _, c := range re.Rune {
			out[c] = true
			if re.Flags&syntax.FoldCase != 0 {
				out[unicode.ToUpper(c)] = true
				out[unicode.ToLower(c)] = true
			}
		}
	case syntax.OpCharClass:
		for i := 0; i+1 < len(re.Rune); i += 2 {
			if re.Rune[i+1]-re.Rune[i] > 512 {
				return true
			}
			for c := re.Rune[i]; c <= re.Rune[i+1]; c++ {
				out[c] = true
			}
		}
	case syntax.OpAnyChar, syntax.OpAnyCharNotNL:
		return true
	}
	for _, s := range re.Sub {
		if alphabet(s, out) {
			return true
		}
	}
	return false
}

// maxLen returns the maximal number of runes matched (-1 = unbounded).
func maxLen(re *syntax.Regexp) int {
	switch re.Op {
	case syntax.OpLiteral:
		return len(re.Rune)
	case syntax.OpCharClass, syntax.OpAnyChar, syntax.OpAnyCharNotNL:
		return 1
	case syntax.OpStar, syntax.OpPlus:
		return -1
	case syntax.OpQuest:
		return maxLen(re.Sub[0])
	case syntax.OpRepeat:
		if re.Max < 0 {
			return -1
		}
		m := maxLen(re.Sub[0])
		if m < 0 {
			return -1
		}
		return m * re.Max
	case syntax.OpConcat:
		t := 0
		for _, s := range re.Sub {
			m := maxLen(s)
			if m < 0 {
				return -1
			}
			t += m
		}
		return t
	case syntax.OpAlternate:
		t := 0
		for _, s := range re.Sub {
			m := maxLen(s)
			if m < 0 {
				return -1
			}
			if m > t {
				t = m
			}
		}
		return t
	case syntax.OpCapture:
		return maxLen(re.Sub[0])
	}
	return 0
}

func minLen(re *syntax.Regexp) int {
	switch re.Op {
	case syntax.OpLiteral:
		return len(re.Rune)
	case syntax.OpCharClass, syntax.OpAnyChar, syntax.OpAnyCharNotNL:
		return 1
	case syntax.OpStar, syntax.OpQuest:
		return 0
	case syntax.OpPlus:
		return minLen(re.Sub[0])
	case syntax.OpRepeat:
		return minLen(re.Sub[0]) * re.Min
	case syntax.OpConcat:
		t := 0
		for _, s := range re.Sub {
			t += minLen(s)
		}
		return t
	case syntax.OpAlternate:
		t := -1
		for _, s := range re.Sub {
			if m := minLen(s); t < 0 || m < t {
				t = m
			}
		}
		if t < 0 {
			return 0
		}
		return t
	case syntax.OpCapture:
		return minLen(re.Sub[0])
	}
	return 0
}

func within(set map[rune]bool, allowed string) (bool, string) {
	var bad []string
	for c := range set {
		if !strings.ContainsRune(allowed, c) {
			bad = append(bad, fmt.Sprintf("%q", c))
		}
	}
	sort.Strings(bad)
	if len(bad) > 8 {
		bad = append(bad[:8], "…")
	}
	return len(bad) == 0, strings.Join(bad, " ")
}

const (
	lower  = "abcdefghijklmnopqrstuvwxyz"
	upper  = "ABCDEFGHIJKLMNOPQRSTUVWXYZ"
	digits = "0123456789"
)

func c15R1R2(p *core.Prog, r *core.Report, pats map[string]string) {
	const rule1, rule2 = "C15.R1", "C15.R2"
	r.Rule(rule1, "anchoring: every compiled pattern of types/ref, folded from its parts, begins with ^ and ends with $ in every alternative", 3)
	r.Rule(rule2, "what each component can contain, read off the parsed pattern: repository without upper case, tag 1–128 legal characters, digest ending in ≥32 hex digits, layout path without ':' and '@', scheme non-empty lower case", 6)
	if len(pats) == 0 {
		r.MissingAnchor(rule1, "regexp package variables of types/ref")
		return
	}
	var names []string
	for n := range pats {
		names = append(names, n)
	}
	sort.Strings(names)
	parsed := map[string]*syntax.Regexp{}
	for _, n := range names {
		pat := pats[n]
		if pat == "\x00unfoldable" {
			r.Undecided(rule1, "types/ref."+n, "pattern", "-", "the pattern is not built from constants, package variables and regexp.QuoteMeta")
			continue
		}
		re, err := syntax.Parse(pat, syntax.Perl)
		if err != nil {
			r.Violated(rule1, "types/ref."+n, "pattern", "-", "does not parse: "+err.Error())
			continue
		}
		parsed[n] = re
		r.Check(anchoredBoth(re), rule1, "types/ref."+n, "anchored", "-", "pattern "+pat)
	}
	// role discovery: which variable is used by which parser is found through the number of groups
	for _, n := range names {
		re := parsed[n]
		if re == nil {
			continue
		}
		fname := "types/ref." + n
		switch re.MaxCap() {
		case 4: // registry, repository, tag, digest
			repo, tag, dig := capture(re, 2), capture(re, 3), capture(re, 4)
			set := map[rune]bool{}
			anyC := alphabet(repo, set)
			ok, bad := within(set, lower+digits+"._/-")
			r.Check(!anyC && ok, rule2, fname, "repository alphabet", "-", "repository group ⊆ [a-z0-9._/-] (no upper case); outside: "+bad)
			c15Tag(r, rule2, fname, tag)
			c15Digest(r, rule2, fname, dig)
		case 3: // path, tag, digest
			pth, tag, dig := capture(re, 1), capture(re, 2), capture(re, 3)
			set := map[rune]bool{}
			anyC := alphabet(pth, set)
			r.Check(!anyC && !set[':'] && !set['@'], rule2, fname, "layout path alphabet", "-", "the path group cannot contain ':' or '@' (they separate tag and digest)")
			c15Tag(r, rule2, fname, tag)
			c15Digest(r, rule2, fname, dig)
		case 2: // scheme, tail
			sch := capture(re, 1)
			set := map[rune]bool{}
			anyC := alphabet(sch, set)
			ok, bad := within(set, lower)
			r.Check(!anyC && ok && minLen(sch) >= 1, rule2, fname, "scheme alphabet", "-", "scheme group = one or more lower-case letters; outside: "+bad)
		}
	}
}

func c15Tag(r *core.Report, rule, fname string, tag *syntax.Regexp) {
	if tag == nil {
		r.Undecided(rule, fname, "tag group", "-", "tag group not found")
		return
	}
	set := map[rune]bool{}
	anyC := alphabet(tag, set)
	ok, bad := within(set, lower+upper+digits+"_.-")
	mx, mn := maxLen(tag), minLen(tag)
	// first character: the first sub-expression of the concatenation
	firstOK := true
	if tag.Op == syntax.OpConcat && len(tag.Sub) > 0 {
		fs := map[rune]bool{}
		alphabet(tag.Sub[0], fs)
		firstOK, _ = within(fs, lower+upper+digits+"_")
	}
	r.Check(!anyC && ok && firstOK && mx >= 1 && mx <= 128 && mn >= 1, rule, fname, "tag alphabet and length", "-",
		fmt.Sprintf("tag ⊆ [A-Za-z0-9_.-], first character [A-Za-z0-9_], length %d..%d (must be 1..128); outside: %s", mn, mx, bad))
}

func c15Digest(r *core.Report, rule, fname string, dig *syntax.Regexp) {
	if dig == nil {
		r.Undecided(rule, fname, "digest group", "-", "digest group not found")
		return
	}
	ok := false
	if dig.Op == syntax.OpConcat && len(dig.Sub) > 0 {
		last := dig.Sub[len(dig.Sub)-1]
		if (last.Op == syntax.OpRepeat && last.Min >= 32) || (last.Op == syntax.OpPlus) {
			hs := map[rune]bool{}
			alphabet(last, hs)
			in, _ := within(hs, digits+"abcdefABCDEF")
			ok = in && last.Op == syntax.OpRepeat && last.Min >= 32
		}
	}
	r.Check(ok, rule, fname, "digest hex part", "-", "the digest group ends in a repetition of at least 32 hex digits")
}

func c15R3(p *core.Prog, r *core.Report) {
	const rule = "C15.R3"
	r.Rule(rule, "replacing tag or digest leaves the rest: SetTag, SetDigest and AddDigest store only to Tag, Digest and Reference, and Reference is re-serialised by CommonName() after the other stores", 3)
	rt := p.Named("types/ref", "Ref")
	if rt == nil {
		r.MissingAnchor(rule, "types/ref.Ref")
		return
	}
	for _, name := range []string{"SetTag", "SetDigest", "AddDigest"} {
		fn := p.MethodOf(rt, name)
		if fn == nil {
			r.MissingAnchor(rule, "types/ref.Ref."+name)
			continue
		}
		fname := p.FuncName(fn)
		ok := true
		detail := "stores only Tag, Digest and Reference = CommonName()"
		var refStore *ssa.Store
		var others []*ssa.Store
		// the three methods may share an unexported helper that works on its own copy of the reference
		scopeR3 := core.Helpers(fn, 1)
		// one of the three may be written in terms of another (SetDigest = clear the tag, then AddDigest)
		core.Calls(fn, func(c ssa.CallInstruction) {
			if g := core.CalleeFn(c); g != nil && g != fn {
				for _, sib := range []string{"SetTag", "SetDigest", "AddDigest"} {
					if g == p.MethodOf(rt, sib) {
						scopeR3[g] = true
					}
				}
			}
		})
		for _, fs := range fieldStores(sortedFuncs(scopeR3), func(n *types.Named, f string) bool { return n == rt }) {
			_, f := core.FieldAddrInfo(fs.Addr)
			switch f {
			case "Tag", "Digest":
				others = append(others, fs.Store)
			case "Reference":
				refStore = fs.Store
			default:
				ok = false
				detail = "the method also writes " + f
			}
		}
		if refStore == nil {
			ok = false
			detail = "Reference is not rebuilt"
		} else {
			fromCN := false
			for _, oc := range originCalls(refStore.Val) {
				if cal := core.Callee(oc); cal != nil && core.IsModMethod(cal, "types/ref", "Ref", "CommonName") {
					fromCN = true
					for _, o := range others {
						if o.Parent() == oc.Parent() && !core.DominatesInstr(o, oc) {
							ok = false
							detail = "Reference is serialised before Tag/Digest were updated"
						}
					}
				}
			}
			if !fromCN {
				ok = false
				detail = "Reference is not assigned from CommonName()"
			}
		}
		r.Check(ok, rule, fname, "writes only tag, digest, reference", p.Pos(fn.Pos()), detail)
	}
}

// schemeConsts returns the string constants that fn compares with a reference's scheme (a load of
// the Scheme field, or the value that fn stores into a Scheme field).
func schemeConsts(fn *ssa.Function) map[string]bool {
	out := map[string]bool{}
	isScheme := func(v ssa.Value) bool {
		if fieldLoadOf(v, modPath("types/ref"), "Ref", "Scheme") {
			return true
		}
		// the local that is stored into the Scheme field
		for _, fs := range fieldStores([]*ssa.Function{fn}, func(n *types.Named, f string) bool { return n.Obj().Name() == "Ref" && f == "Scheme" }) {
			if fs.Store.Val == v {
				return true
			}
		}
		return false
	}
	for _, b := range fn.Blocks {
		for _, in := range b.Instrs {
			// a table lookup: the scheme indexes a package-level map whose keys are the known schemes
			if lk, ok := in.(*ssa.Lookup); ok {
				isSchemeIdx := isScheme(lk.Index)
				if !isSchemeIdx {
					// the local the scheme is held in before it is stored (a submatch of the scheme pattern)
					for _, oc := range originCalls(lk.Index) {
						if cal := core.Callee(oc); cal != nil && core.IsMethod(cal, "regexp", "Regexp", "FindStringSubmatch") {
							isSchemeIdx = true
						}
					}
				}
				if u, isU := lk.X.(*ssa.UnOp); isU && isSchemeIdx {
					if g, isG := u.X.(*ssa.Global); isG && fn.Pkg != nil {
						if init := fn.Pkg.Func("init"); init != nil {
							// the map value stored into the global, and the constant keys put into it
							var mapVal ssa.Value
							for _, ib := range init.Blocks {
								for _, ii := range ib.Instrs {
									if st, ok := ii.(*ssa.Store); ok && st.Addr == ssa.Value(g) {
										mapVal = st.Val
									}
								}
							}
							for _, ib := range init.Blocks {
								for _, ii := range ib.Instrs {
									if mu, ok := ii.(*ssa.MapUpdate); ok && mapVal != nil && mu.Map == mapVal {
										if k, isK := core.ConstString(mu.Key); isK {
											out[k] = true
										}
									}
								}
							}
						}
					}
				}
				continue
			}
			bo, ok := in.(*ssa.BinOp)
			if !ok || (bo.Op != token.EQL && bo.Op != token.NEQ) {
				continue
			}
			if s, isK := core.ConstString(bo.Y); isK && isScheme(bo.X) {
				out[s] = true
			}
			if s, isK := core.ConstString(bo.X); isK && isScheme(bo.Y) {
				out[s] = true
			}
		}
	}
	return out
}

// schemeConstsDeep adds the constants of the functions of the same package that fn hands a reference
// to (EqualRepository may leave the per-scheme decision to EqualRegistry).
func schemeConstsDeep(fn *ssa.Function, depth int) map[string]bool {
	out := schemeConsts(fn)
	if depth <= 0 {
		return out
	}
	core.Calls(fn, func(c ssa.CallInstruction) {
		g := core.CalleeFn(c)
		if g == nil || g == fn || len(g.Blocks) == 0 || core.FuncPkg(g) != core.FuncPkg(fn) {
			return
		}
		takesRef := false
		for _, a := range c.Common().Args {
			if core.IsModNamed(a.Type(), "types/ref", "Ref") {
				takesRef = true
			}
		}
		if !takesRef {
			return
		}
		for k := range schemeConstsDeep(g, depth-1) {
			out[k] = true
		}
	})
	return out
}

func c15R4(p *core.Prog, r *core.Report) {
	const rule = "C15.R4"
	r.Rule(rule, "scheme tables agree: every scheme accepted by New / NewHost is printed by CommonName, recognised by IsSetRepo, EqualRegistry and EqualRepository, and served by the client's scheme table", 1)
	newFn, newHost := p.Func("types/ref", "New"), p.Func("types/ref", "NewHost")
	rt := p.Named("types/ref", "Ref")
	if newFn == nil || newHost == nil || rt == nil {
		r.MissingAnchor(rule, "types/ref.New / NewHost")
		return
	}
	accepted := map[string]bool{"reg": true}
	for _, fn := range []*ssa.Function{newFn, newHost} {
		for s := range schemeConsts(fn) {
			if s != "" {
				accepted[s] = true
			}
		}
	}
	tables := map[string]map[string]bool{}
	for _, n := range []string{"CommonName", "IsSetRepo"} {
		if fn := p.MethodOf(rt, n); fn != nil {
			tables["types/ref.Ref."+n] = schemeConstsDeep(fn, 2)
		} else {
			r.MissingAnchor(rule, "types/ref.Ref."+n)
		}
	}
	for _, n := range []string{"EqualRegistry", "EqualRepository"} {
		if fn := p.Func("types/ref", n); fn != nil {
			tables["types/ref."+n] = schemeConstsDeep(fn, 2)
		} else {
			r.MissingAnchor(rule, "types/ref."+n)
		}
	}
	// the client's scheme table: constant keys stored into the `schemes` map of RegClient
	served := map[string]bool{}
	for _, fn := range pkgFuncs(p, ".") {
		for _, b := range fn.Blocks {
			for _, in := range b.Instrs {
				mu, ok := in.(*ssa.MapUpdate)
				if !ok {
					continue
				}
				if !fieldLoadOf(mu.Map, modPath("."), "RegClient", "schemes") {
					continue
				}
				if s, isK := core.ConstString(mu.Key); isK {
					served[s] = true
				}
			}
		}
	}
	tables["regclient.RegClient.schemes"] = served
	var names []string
	for n := range tables {
		names = append(names, n)
	}
	sort.Strings(names)
	var acc []string
	for s := range accepted {
		acc = append(acc, s)
	}
	sort.Strings(acc)
	for _, s := range acc {
		var missing []string
		for _, n := range names {
			if !tables[n][s] {
				missing = append(missing, n)
			}
		}
		r.Check(len(missing) == 0, rule, "types/ref.New", "scheme \""+s+"\"", p.Pos(newFn.Pos()),
			"accepted by the parsers; unknown to: "+strings.Join(missing, ", ")+map[bool]string{true: "", false: " (a reference with this scheme parses, prints as the empty string and cannot be served)"}[len(missing) == 0])
	}
}

func c15R5(p *core.Prog, r *core.Report, pats map[string]string) {
	const rule = "C15.R5"
	r.Rule(rule, "the scheme comes from the grammar and Docker Hub normalisation is ordered: the parsers take the scheme from a submatch of an anchored pattern; the Hub aliases are rewritten to docker.io before the library/ prefix is decided", 3)
	for _, name := range []string{"New", "NewHost"} {
		fn := p.Func("types/ref", name)
		if fn == nil {
			continue
		}
		fname := p.FuncName(fn)
		ok := false
		detail := "the scheme is not taken from a submatch of a compiled pattern"
		helpers := core.Helpers(fn, 1)
		for _, fs := range fieldStores(sortedFuncs(helpers), func(n *types.Named, f string) bool { return n.Obj().Name() == "Ref" && f == "Scheme" }) {
			if _, isK := core.ConstString(fs.Store.Val); isK {
				continue
			}
			var ocs []*ssa.Call
			for _, o := range core.Origins(fs.Store.Val, core.SliceOpts{Helpers: helpers}) {
				if o.Kind == core.OCall {
					ocs = append(ocs, o.Call)
				}
			}
			for _, oc := range ocs {
				cal := core.Callee(oc)
				if cal != nil && core.IsMethod(cal, "regexp", "Regexp", "FindStringSubmatch") {
					if u, isU := core.CallArg(oc, 0).(*ssa.UnOp); isU {
						if g, isG := u.X.(*ssa.Global); isG {
							if pat, has := pats[g.Name()]; has {
								if re, err := syntax.Parse(pat, syntax.Perl); err == nil && anchoredBoth(re) {
									ok = true
									detail = "scheme = submatch of " + g.Name()
								}
							}
						}
					}
				}
				if cal != nil && cal.Pkg() != nil && cal.Pkg().Path() == "strings" {
					detail = "the scheme is cut out with strings." + cal.Name() + ": strings outside the grammar (empty or upper-case scheme) are silently reinterpreted"
				}
			}
		}
		r.Check(ok, rule, fname, "scheme from the grammar", p.Pos(fn.Pos()), detail)
	}
	// Hub order in New: no store of the canonical registry name is reachable after the library prefix was added
	fn := p.Func("types/ref", "New")
	if fn == nil {
		return
	}
	// the normalisation may live in an unexported helper and may work on locals instead of fields: the
	// library/ prefix is a concatenation whose leftmost operand is the constant, the alias rewrite is
	// the constant docker.io arriving in a registry value (a field store, or a phi edge of a local)
	var prefix, alias []ssa.Instruction
	for _, f := range sortedFuncs(core.Helpers(fn, 1)) {
		for _, blk := range f.Blocks {
			for _, in := range blk.Instrs {
				switch x := in.(type) {
				case *ssa.BinOp:
					if x.Op == token.ADD && isStringType(x.Type()) {
						if s, isK := core.ConstString(leftmost(x)); isK && strings.HasPrefix(s, "library") {
							// only the outermost concatenation
							outer := true
							for _, ref := range *x.Referrers() {
								if bo, ok := ref.(*ssa.BinOp); ok && bo.Op == token.ADD && bo.X == ssa.Value(x) {
									outer = false
								}
							}
							if outer {
								prefix = append(prefix, x)
							}
						}
					}
				case *ssa.Store:
					if fa, ok := x.Addr.(*ssa.FieldAddr); ok {
						if n, fld := core.FieldAddrInfo(fa); n != nil && n.Obj().Name() == "Ref" && fld == "Registry" {
							if s, isK := core.ConstString(x.Val); isK && s == "docker.io" {
								alias = append(alias, x)
							}
						}
					}
				case *ssa.Phi:
					if isStringType(x.Type()) {
						for _, e := range x.Edges {
							if s, isK := core.ConstString(e); isK && s == "docker.io" {
								alias = append(alias, x)
								break
							}
						}
					}
				}
			}
		}
	}
	if len(prefix) == 0 || len(alias) == 0 {
		r.Violated(rule, p.FuncName(fn), "Docker Hub normalisation", p.Pos(fn.Pos()), fmt.Sprintf("library/ prefix stores: %d, docker.io rewrites: %d (both are needed)", len(prefix), len(alias)))
		return
	}
	ok := true
	for _, pr := range prefix {
		after := core.DeepReach{Scope: core.Helpers(fn, 1)}.FromInstr(pr)
		for _, a := range alias {
			if after[a] {
				ok = false
			}
		}
	}
	r.Check(ok, rule, p.FuncName(fn), "Docker Hub normalisation", p.Pos(prefix[0].Pos()), "index.docker.io / registry-1.docker.io / empty are rewritten to docker.io before the single-component test adds library/ (otherwise alias hosts lose the prefix and the reference does not round-trip)")
}

func leftmost(bo *ssa.BinOp) ssa.Value {
	v := ssa.Value(bo)
	for {
		b, ok := v.(*ssa.BinOp)
		if !ok || b.Op != token.ADD {
			return v
		}
		v = b.X
	}
}

// ---------------------------------------------------------------------------------------------
// R6 the printed form carries the fields as they are stored

func c15R6(p *core.Prog, r *core.Report) {
	const rule = "C15.R6"
	r.Rule(rule, "CommonName prints the stored fields unchanged: no field of the reference is passed through a string-rewriting function (trim, clean, case folding, replace, escape) on its way into the printed form; the parsers store what they match, so any rewriting on the way out is lost information and the printed form no longer parses back to the same reference", 1)
	ref := p.Named("types/ref", "Ref")
	if ref == nil {
		r.MissingAnchor(rule, "types/ref.Ref")
		return
	}
	fn := p.MethodOf(ref, "CommonName")
	if fn == nil {
		r.MissingAnchor(rule, "types/ref.(Ref).CommonName")
		return
	}
	rewriting := map[string]bool{"strings": true, "path": true, "path/filepath": true, "net/url": true, "unicode": true, "bytes": true, "regexp": true}
	fields := []string{"Path", "Registry", "Repository", "Tag", "Digest", "Scheme"}
	lab := labeler{}
	n := 0
	core.Calls(fn, func(c ssa.CallInstruction) {
		cal := core.Callee(c)
		if cal == nil || cal.Pkg() == nil || !rewriting[cal.Pkg().Path()] {
			return
		}
		sig, _ := cal.Type().(*types.Signature)
		if sig == nil || sig.Results().Len() == 0 {
			return
		}
		if b, ok := sig.Results().At(0).Type().Underlying().(*types.Basic); !ok || b.Kind() != types.String {
			return
		}
		for _, a := range c.Common().Args {
			for _, f := range fields {
				if dependsOnField(a, modPath("types/ref"), "Ref", f) {
					n++
					r.Violated(rule, p.FuncName(fn), lab.next("field "+f+" rewritten by "+cal.Pkg().Name()+"."+cal.Name()), p.Pos(c.Pos()),
						"the printed form of the reference is computed from a rewritten "+f+"; New(CommonName()) then differs from the reference for the inputs the rewriting changes")
				}
			}
		}
	})
	if n == 0 {
		r.Held(rule, p.FuncName(fn), "fields printed as stored", p.Pos(fn.Pos()), "no string-rewriting call takes a field of the reference")
	}
}

// c15R7: reject means reject. Where a caller sees the reference parser refuse an input, it does not
// hand the same input to a parser of the package again (the looser host grammar accepts strings the
// reference grammar refuses, and what comes back does not round-trip).
func c15R7(p *core.Prog, r *core.Report) {
	const rule = "C15.R7"
	r.Rule(rule, "a refused input stays refused: from the error edge of a call of a parser of types/ref (string in, Ref and error out) no call of such a parser with the same argument is reachable within the same loop iteration", 2)
	isParser := func(f *types.Func) bool {
		if f == nil || f.Pkg() == nil || f.Pkg().Path() != modPath("types/ref") || !f.Exported() {
			return false
		}
		sig := f.Type().(*types.Signature)
		if sig.Recv() != nil || sig.Params().Len() != 1 || sig.Results().Len() != 2 {
			return false
		}
		return isStringType(sig.Params().At(0).Type()) && core.IsModNamed(sig.Results().At(0).Type(), "types/ref", "Ref")
	}
	same := func(a, b ssa.Value) bool {
		if a == b {
			return true
		}
		la, ok1 := a.(*ssa.UnOp)
		lb, ok2 := b.(*ssa.UnOp)
		if ok1 && ok2 && la.Op == token.MUL && lb.Op == token.MUL {
			ia, ok1 := la.X.(*ssa.IndexAddr)
			ib, ok2 := lb.X.(*ssa.IndexAddr)
			if ok1 && ok2 {
				ka, okA := core.ConstInt(ia.Index)
				kb, okB := core.ConstInt(ib.Index)
				pa := accessPath(ia.X)
				return okA && okB && ka == kb && pa != "" && pa == accessPath(ib.X)
			}
		}
		pa := accessPath(a)
		return pa != "" && !strings.Contains(pa, "[]") && !strings.Contains(pa, "@") && pa == accessPath(b)
	}
	n := 0
	for _, fn := range p.ModFuncs {
		if len(fn.Blocks) == 0 || fn.Synthetic != "" {
			continue
		}
		lab := labeler{}
		for _, ci := range core.CallsTo(fn, isParser) {
			c, ok := ci.(*ssa.Call)
			if !ok || len(c.Call.Args) != 1 {
				continue
			}
			n++
			label := lab.next("parse by " + core.Callee(c).Name())
			var again *ssa.Call
			for _, e := range errEdgesOf(fn, c) {
				reach := core.Reach{StopEdge: func(from, to *ssa.BasicBlock) bool { return to.Dominates(from) }}
				for in := range reach.FromEdge(e[0], e[1]) {
					c2, ok := in.(*ssa.Call)
					if ok && c2 != c && isParser(core.Callee(c2)) && len(c2.Call.Args) == 1 && same(c.Call.Args[0], c2.Call.Args[0]) {
						if again == nil || c2.Pos() < again.Pos() {
							again = c2
						}
					}
				}
			}
			if again == nil {
				r.Held(rule, p.FuncName(fn), label, p.Pos(c.Pos()), "no second parse of the same input after the parser refused it")
			} else {
				r.Violated(rule, p.FuncName(fn), label, p.Pos(again.Pos()), "after "+core.Callee(c).Name()+" refused the input, the same input is parsed by "+core.Callee(again).Name()+": a string outside the reference grammar is accepted under another reading")
			}
		}
	}
	if n == 0 {
		r.MissingAnchor(rule, "calls of the parsers of types/ref")
	}
}

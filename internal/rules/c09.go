package rules

import (
	"fmt"
	"go/token"
	"go/types"
	"strings"

	"golang.org/x/tools/go/ssa"

	"verif/internal/core"
)

func init() {
	register(&Spec{
		ID: "C09",
		Decides: "export, import and copy consult the same three getters and agree on which media types are manifests; export writes each digest once (the 'already written' test dominates every write) under a name built from the same validated descriptor whose content it fetches, and compares the number of blob bytes written with the descriptor; " +
			"on import every manifest push of the OCI path sits in a function appended to the finish list, the list is run from its last entry down and only after the archive was read without error; the Docker path pushes its manifest only after the second pass succeeded; the Docker-loadable manifest names the image by a reference whose digest was cleared; a handler registered during the scan requests a rescan; an entry stream has one reader; the Docker manifest.json entry that is imported is the one the selection picked (no constant index next to the selection loop).",
		NotCovered: "the archive state machine over entry orders (only the 'a handler added during the scan requests a rescan' step is checked), links (seeded change C09-1 is about the string semantics of Rel/Join and not detected), compression, Docker-format layer re-compression, round-trip equality.",
		Run:        runC09,
	})
}

func runC09(p *core.Prog, r *core.Report) {
	const r1 = "C09.R1"
	r.Rule(r1, "edge kinds and tables: export and import consult GetManifestList, GetConfig and GetLayers and treat the same media types as manifests as the copy does", 8)
	ts := traversals(p)
	for _, n := range []string{"export", "import"} {
		fn := ts[n]
		if fn == nil {
			r.MissingAnchor(r1, n+" traversal")
			continue
		}
		for _, g := range []string{"GetManifestList", "GetConfig", "GetLayers"} {
			r.Check(len(getterCallsUnit(fn, g)) > 0, r1, p.FuncName(fn), n+" consults "+g, p.Pos(fn.Pos()), "content reachable only through this edge kind would be missing from the archive / not imported")
		}
	}
	c03R5(p, r, r1)
	c09R2R3(p, r)
	c09R4(p, r)
	c09R5(p, r)
	c09R6(p, r)
	c09R7(p, r)
	c09R8(p, r)
	// an import into a layout is followed by Close: the collector keeps every entry the index lists,
	// blob-typed entries included (shared with C08.R8)
	c08R8(p, r, "C09.R9")
	importOrderRule(p, r, "C09.R10")
	c09R11(p, r)
	// the importer skips what the target already has: that question goes to the target
	headAsksRule(p, r, "C09.R12")
	c09R13(p, r)
	c09R14(p, r)
}

// c09R11: the archive names the image by the tag it was exported under, and the export takes that
// name from the reference it is given. SetDigest replaces the tag by the digest; a caller that wants
// to pin what is exported adds the digest and keeps the tag.
func c09R11(p *core.Prog, r *core.Report) {
	const rule = "C09.R11"
	r.Rule(rule, "the exported reference keeps its tag: no reference handed to RegClient.ImageExport comes out of Ref.SetDigest (which clears the tag; AddDigest keeps it)", 1)
	n := 0
	for _, fn := range p.ModFuncs {
		if len(fn.Blocks) == 0 {
			continue
		}
		lab := labeler{}
		for _, c := range core.CallsTo(fn, func(f *types.Func) bool { return core.IsModMethod(f, ".", "RegClient", "ImageExport") }) {
			n++
			bad := false
			for _, o := range core.Origins(core.CallArg(c, 2), core.SliceOpts{Helpers: core.Helpers(fn, 1)}) {
				if o.Kind == core.OCall && o.Callee() != nil && o.Callee().Name() == "SetDigest" && core.IsModNamed(o.Call.Call.Args[0].Type(), "types/ref", "Ref") {
					bad = true
				}
			}
			r.Check(!bad, rule, p.FuncName(fn), lab.next("reference exported"), p.Pos(c.Pos()), "the reference handed to the export went through SetDigest, which drops the tag: the archive's index entry and RepoTags no longer name the image by the tag it was exported under")
		}
	}
	if n == 0 {
		r.MissingAnchor(rule, "calls of RegClient.ImageExport")
	}
}

// importOrderRule: the import queues one push step per manifest and runs the queue backwards, so the
// order of queueing decides that children are pushed before their parent and the tag last. A child is
// therefore never handled at once from the code that handles its parent: the recursion lives only in
// handlers that the archive scan calls later, after the parent's own step was queued.
func importOrderRule(p *core.Prog, r *core.Report, rule string) {
	r.Rule(rule, "children are queued after their parent: every recursive call of the import's manifest handler sits inside a function literal that is stored into the handler table (run later by the archive scan), never in the handler's own body or in a literal it calls directly", 1)
	imp := p.Method(".", "RegClient", "imageImportOCIHandleManifest")
	if imp == nil {
		r.MissingAnchor(rule, "regclient.(*RegClient).imageImportOCIHandleManifest")
		return
	}
	// literals that are registered: the value of a map update or of a store into a field, not called in place
	registered := map[*ssa.Function]bool{}
	for _, f := range core.WithAnon(imp) {
		for _, b := range f.Blocks {
			for _, in := range b.Instrs {
				var v ssa.Value
				switch x := in.(type) {
				case *ssa.MapUpdate:
					v = x.Value
				default:
					continue
				}
				for i := 0; i < 3; i++ {
					if ct, ok := v.(*ssa.ChangeType); ok {
						v = ct.X
					}
				}
				if mc, ok := v.(*ssa.MakeClosure); ok {
					if lit, ok := mc.Fn.(*ssa.Function); ok {
						registered[lit] = true
					}
				}
				if lit, ok := v.(*ssa.Function); ok {
					registered[lit] = true
				}
			}
		}
	}
	n := 0
	lab := labeler{}
	for _, f := range core.WithAnon(imp) {
		core.Calls(f, func(c ssa.CallInstruction) {
			if core.CalleeFn(c) != imp {
				return
			}
			n++
			// the call is deferred to the scan when f, or a literal enclosing f, is registered
			ok := false
			for g := f; g != nil && g != imp; g = g.Parent() {
				if registered[g] {
					ok = true
				}
			}
			r.Check(ok, rule, p.FuncName(f), lab.next("recursion into a child manifest"), p.Pos(c.Pos()), "the child manifest is handled at once, before the step that pushes its parent is queued: the queue is run backwards, so the parent (and for the top level the tag) is written before the child — a crash in between leaves a tag that names an incomplete image")
		})
	}
	if n == 0 {
		r.Held(rule, p.FuncName(imp), "no recursion", p.Pos(imp.Pos()), "the handler does not call itself")
	}
}

func c09R2R3(p *core.Prog, r *core.Report) {
	const rule2, rule3 = "C09.R2", "C09.R3"
	r.Rule(rule2, "each digest once: in the export walk the 'file already written' test dominates every write to the archive and its hit edge returns without writing; the header writer refuses duplicates", 2)
	r.Rule(rule3, "name and content from one descriptor: the entry name and the fetched content come from the same validated descriptor; blob entries compare the bytes written with the descriptor size", 4)
	fn := p.Method(".", "RegClient", "imageExportDescriptor")
	if fn == nil {
		r.MissingAnchor(rule2, "regclient.(*RegClient).imageExportDescriptor")
		return
	}
	name := p.FuncName(fn)
	var descParam *ssa.Parameter
	for _, pr := range fn.Params {
		if core.IsModNamed(pr.Type(), "types/descriptor", "Descriptor") {
			descParam = pr
		}
	}
	// the "already written" test: a lookup in a map[string]bool field keyed by the entry name
	var seenIf *ssa.BasicBlock
	for _, b := range fn.Blocks {
		ifi, ok := core.LastInstr(b).(*ssa.If)
		if !ok {
			continue
		}
		if cnd, _ := core.StripNot(ifi.Cond, true); isMapMembership(cnd, 0) {
			seenIf = b
		}
	}
	writes := 0
	okDom := seenIf != nil
	primWrite := func(c ssa.CallInstruction) bool {
		g := core.CalleeFn(c)
		cal := core.Callee(c)
		return (g != nil && canon(g) == "tarWriteHeader") || (cal != nil && core.IsMethod(cal, "archive/tar", "Writer", "Write")) || (cal != nil && core.IsFunc(cal, "io", "Copy"))
	}
	// unexported helpers that write to the archive count as a write where they are called
	writers := map[*ssa.Function]bool{}
	for h := range core.Helpers(fn, 2) {
		if h == fn {
			continue
		}
		core.Calls(h, func(c ssa.CallInstruction) {
			if primWrite(c) {
				writers[h] = true
			}
		})
	}
	core.Calls(fn, func(c ssa.CallInstruction) {
		g := core.CalleeFn(c)
		isWrite := primWrite(c) || (g != nil && writers[g])
		if !isWrite {
			return
		}
		writes++
		hit := 0
		if seenIf != nil {
			if _, pol := core.StripNot(core.LastInstr(seenIf).(*ssa.If).Cond, true); !pol {
				hit = 1
			}
		}
		if seenIf == nil || !seenIf.Dominates(c.Block()) || (core.Reach{}).FromEdge(seenIf, seenIf.Succs[hit])[c.(ssa.Instruction)] {
			okDom = false
		}
	})
	r.Check(okDom && writes >= 1, rule2, name, "already-written test dominates every write", p.Pos(fn.Pos()), "a digest shared by several manifests is written to the archive once; the hit edge reaches no write")
	// header writer refuses duplicates
	hw := p.Method(".", "tarWriteData", "tarWriteHeader")
	if hw == nil {
		r.MissingAnchor(rule2, "regclient.(*tarWriteData).tarWriteHeader")
	} else {
		refuses := false
		for _, b := range hw.Blocks {
			ifi, ok := core.LastInstr(b).(*ssa.If)
			if !ok {
				continue
			}
			if cnd, pol := core.StripNot(ifi.Cond, true); isMapMembership(cnd, 0) {
				hit := 0
				if !pol {
					hit = 1
				}
				if ret, isRet := core.LastInstr(b.Succs[hit]).(*ssa.Return); isRet && !core.IsNilConst(core.ReturnOperand(ret, 0)) {
					refuses = true
				}
			}
		}
		r.Check(refuses, rule2, p.FuncName(hw), "duplicate entry refused", p.Pos(hw.Pos()), "writing a name that is already in the archive returns an error")
	}
	// R3: name from tarOCILayoutDescPath(desc param); ManifestGet with WithManifestDesc(desc); BlobGet(ctx, r, desc)
	nameOK := false
	core.Calls(fn, func(c ssa.CallInstruction) {
		if cal := core.Callee(c); cal != nil && cal.Pkg() != nil && cal.Pkg().Path() == modPath(".") && canonObj(cal) == "tarOCILayoutDescPath" {
			for _, o := range core.Origins(c.Common().Args[0], core.SliceOpts{FieldsThrough: true}) {
				if o.Kind == core.OParam && o.Param == descParam {
					nameOK = true
				}
			}
		}
	})
	r.Check(nameOK, rule3, name, "entry name from the descriptor", p.Pos(fn.Pos()), "blobs/<alg>/<hex> is computed from the descriptor parameter")
	isDescParam := func(v ssa.Value) bool {
		for _, o := range core.Origins(v, core.SliceOpts{}) {
			if o.Kind == core.OParam && o.Param == descParam {
				return true
			}
		}
		return false
	}
	lab := labeler{}
	core.Calls(fn, func(c ssa.CallInstruction) {
		cal := core.Callee(c)
		if cal == nil {
			return
		}
		switch {
		case core.IsModMethod(cal, ".", "RegClient", "ManifestGet"):
			ok := false
			call, _ := c.(*ssa.Call)
			if call != nil {
				for _, oc := range optCalls(call.Call.Args[len(call.Call.Args)-1]) {
					if f := core.Callee(oc); f != nil && f.Name() == "WithManifestDesc" && isDescParam(oc.Call.Args[0]) {
						ok = true
					}
				}
			}
			r.Check(ok, rule3, name, lab.next("manifest fetched by the descriptor"), p.Pos(c.Pos()), "ManifestGet(…, WithManifestDesc(desc)): the bytes stored under the name are verified against the same digest")
		case core.IsModMethod(cal, ".", "RegClient", "BlobGet"):
			r.Check(isDescParam(core.CallArg(c, 3)), rule3, name, lab.next("blob fetched by the descriptor"), p.Pos(c.Pos()), "BlobGet(ctx, r, desc) with the descriptor the name was computed from")
		}
	})
	// size comparison on blob copy
	sizeOK := false
	for _, e := range mismatchEdges(fn, func(bo *ssa.BinOp) bool {
		for _, side := range []ssa.Value{bo.X, bo.Y} {
			for _, o := range core.Origins(side, core.SliceOpts{}) {
				// the byte count (result 0) of io.Copy, not its error
				if o.Kind == core.OCall && o.Res == 0 && o.Callee() != nil && core.IsFunc(o.Callee(), "io", "Copy") {
					return true
				}
			}
		}
		return false
	}) {
		if ret, isRet := core.LastInstr(e[1]).(*ssa.Return); isRet && !core.IsNilConst(core.ReturnOperand(ret, 0)) {
			sizeOK = true
		}
	}
	r.Check(sizeOK, rule3, name, "blob size compared", p.Pos(fn.Pos()), "the number of bytes copied into the archive is compared with the descriptor size and a difference is an error (the tar header was written with that size)")
}

func c09R4(p *core.Prog, r *core.Report) {
	const rule = "C09.R4"
	r.Rule(rule, "manifests after blobs, nested first, tag last: every ManifestPut of the OCI import sits in a function appended to the finish list; the list is run from the last entry down, only after the archive was read without error; the Docker path pushes after its second pass succeeded", 4)
	imp := p.Method(".", "RegClient", "ImageImport")
	handle := p.Method(".", "RegClient", "imageImportOCIHandleManifest")
	push := p.Method(".", "RegClient", "imageImportOCIPushManifests")
	if imp == nil || handle == nil || push == nil {
		r.MissingAnchor(rule, "ImageImport / imageImportOCIHandleManifest / imageImportOCIPushManifests")
		return
	}
	// (a) every ManifestPut under handle is inside a literal that is appended to a `finish` slice field
	okAll := true
	n := 0
	for _, f := range core.WithAnon(handle) {
		core.Calls(f, func(c ssa.CallInstruction) {
			cal := core.Callee(c)
			if cal == nil || !core.IsModMethod(cal, ".", "RegClient", "ManifestPut") {
				return
			}
			n++
			// f must be a literal whose closure value is appended and stored into a slice-of-func field
			appended := false
			if par := f.Parent(); par != nil {
				for _, b := range par.Blocks {
					for _, in := range b.Instrs {
						mc, ok := in.(*ssa.MakeClosure)
						if !ok || mc.Fn != f {
							continue
						}
						for _, fs := range fieldStores([]*ssa.Function{par}, func(nn *types.Named, fld string) bool { return core.TypeCanon(nn) == "tarReadData" }) {
							if flowsInto(mc, fs.Store.Val) {
								appended = true
							}
						}
					}
				}
			}
			if !appended {
				okAll = false
			}
		})
	}
	r.Check(okAll && n > 0, rule, p.FuncName(handle), "manifest pushes are deferred to the finish list", p.Pos(handle.Pos()), "no manifest is pushed while blobs are still being read from the archive")
	// (b) push iterates from the last index down
	rev := false
	for _, l := range core.Loops(push) {
		// the index of the element that is called in the loop decreases from one iteration to the next:
		// a loop variable stepped by -1, or (invariant - ascending loop variable)
		var stepOf func(v ssa.Value) int
		stepOf = func(v ssa.Value) int {
			// the rotated form of range loops: the value used is phi+1, which is also the back-edge value
			if bo, ok := v.(*ssa.BinOp); ok {
				if ph, isPhi := bo.X.(*ssa.Phi); isPhi && ph.Block() == l.Header {
					for i, e := range ph.Edges {
						if i < len(l.Header.Preds) && l.Blocks[l.Header.Preds[i]] && e == v {
							return stepOf(ph)
						}
					}
				}
				return 0
			}
			ph, ok := v.(*ssa.Phi)
			if !ok || ph.Block() != l.Header {
				return 0
			}
			step := 0
			for i, e := range ph.Edges {
				if i >= len(l.Header.Preds) || !l.Blocks[l.Header.Preds[i]] {
					continue // entry edge
				}
				bo, ok := e.(*ssa.BinOp)
				if !ok || bo.X != ssa.Value(ph) {
					return 0
				}
				k, isK := core.ConstInt(bo.Y)
				if !isK || k != 1 {
					return 0
				}
				switch bo.Op {
				case token.ADD:
					step = 1
				case token.SUB:
					step = -1
				default:
					return 0
				}
			}
			return step
		}
		decreasing := func(idx ssa.Value) bool {
			if stepOf(idx) == -1 {
				return true
			}
			if bo, ok := idx.(*ssa.BinOp); ok && bo.Op == token.SUB && stepOf(bo.Y) == 1 {
				if xi, isInstr := bo.X.(ssa.Instruction); !isInstr || !l.Blocks[xi.Block()] {
					return true // invariant minus ascending
				}
			}
			return false
		}
		l.Instrs(func(in ssa.Instruction) {
			var idx ssa.Value
			switch x := in.(type) {
			case *ssa.IndexAddr:
				idx = x.Index
			case *ssa.Index:
				idx = x.Index
			default:
				return
			}
			if decreasing(idx) {
				rev = true
			}
		})
	}
	r.Check(rev, rule, p.FuncName(push), "finish list run in reverse", p.Pos(push.Pos()), "nested manifests (appended later) are pushed before their parents; the tagged top manifest (appended first) last")
	// (c) push only on the nil edge of tarReadAll
	var reads []*ssa.Call
	var pushCall, dockerPut ssa.Instruction
	core.Calls(imp, func(c ssa.CallInstruction) {
		if g := core.CalleeFn(c); g != nil {
			if canon(g) == "tarReadAll" {
				if call, ok := c.(*ssa.Call); ok {
					reads = append(reads, call)
				}
			}
			if g == push {
				pushCall = c.(ssa.Instruction)
			}
		}
		if cal := core.Callee(c); cal != nil && core.IsModMethod(cal, ".", "RegClient", "ManifestPut") {
			dockerPut = c.(ssa.Instruction)
		}
	})
	if len(reads) == 0 || pushCall == nil {
		r.Undecided(rule, p.FuncName(imp), "push after read", p.Pos(imp.Pos()), "tarReadAll / push call not found")
		return
	}
	ok := true
	// on a path that took the error edge, later tests of the same error value cannot take their nil edge
	nilEdges := map[[2]*ssa.BasicBlock]bool{}
	for _, e := range nilErrEdgesOf(imp, reads[0]) {
		nilEdges[e] = true
	}
	for _, e := range errEdgesOf(imp, reads[0]) {
		if (core.Reach{StopEdge: func(a, b *ssa.BasicBlock) bool { return nilEdges[[2]*ssa.BasicBlock{a, b}] }, Stop: func(in ssa.Instruction) bool {
			// the docker fall-back re-reads the archive
			for _, rd := range reads[1:] {
				if in == ssa.Instruction(rd) {
					return true
				}
			}
			return false
		}}).FromEdge(e[0], e[1])[pushCall] {
			ok = false
		}
	}
	r.Check(ok && len(errEdgesOf(imp, reads[0])) > 0, rule, p.FuncName(imp), "manifests pushed only after a clean read", p.Pos(pushCall.Pos()), "the finish list is unreachable from the error edge of the archive scan")
	if dockerPut != nil && len(reads) > 1 {
		okD := errGuardedNil(dockerPut, reads[len(reads)-1])
		r.Check(okD, rule, p.FuncName(imp), "Docker manifest pushed after its layers", p.Pos(dockerPut.Pos()), "the rebuilt Docker manifest is pushed only on the success edge of the second archive pass")
	}
}

func c09R5(p *core.Prog, r *core.Report) {
	const rule = "C09.R5"
	r.Rule(rule, "Docker-loadable manifest: the RepoTags entry is CommonName() of a reference that went through SetTag on every path (SetTag clears the digest; docker cannot load name:tag@digest)", 1)
	fn := p.Method(".", "RegClient", "ImageExport")
	if fn == nil {
		r.MissingAnchor(rule, "regclient.(*RegClient).ImageExport")
		return
	}
	name := p.FuncName(fn)
	found := false
	// (the body of the export may live in an unexported helper of the package)
	for _, fs := range fieldStores(sortedFuncs(core.Helpers(fn, 2)), func(n *types.Named, f string) bool { return f == "RepoTags" }) {
		found = true
		ok := true
		n := 0
		var walk func(v ssa.Value)
		walk = func(v ssa.Value) {
			for _, e := range variadicElems(v) {
				for _, cn := range originCalls(e) {
					cal := core.Callee(cn)
					if cal == nil || !core.IsModMethod(cal, "types/ref", "Ref", "CommonName") {
						continue
					}
					n++
					if !core.AllOrigins(core.Origins(core.CallArg(cn, 0), core.SliceOpts{Helpers: core.Helpers(fn, 2)}), func(o core.Origin) bool {
						return o.Kind == core.OCall && o.Callee() != nil && core.IsModMethod(o.Callee(), "types/ref", "Ref", "SetTag")
					}) {
						ok = false
					}
				}
			}
		}
		walk(fs.Store.Val)
		detail := "RepoTags = [ref.SetTag(tag).CommonName()]"
		if !ok {
			detail = "on some path the reference printed into RepoTags did not go through SetTag: a reference that carries tag and digest (export --platform) is printed as name:tag@sha256:…, which docker load cannot use as an image name"
		}
		if n == 0 {
			ok = false
			detail = "RepoTags is not built from Ref.CommonName()"
		}
		r.Check(ok, rule, name, "RepoTags entry", p.Pos(fs.Store.Pos()), detail)
	}
	if !found {
		r.Undecided(rule, name, "RepoTags entry", p.Pos(fn.Pos()), "no store to a RepoTags field found")
	}
	_ = strings.Contains
}

// ---------------------------------------------------------------------------------------------
// R6 a handler added while the archive is being scanned requests another pass

func c09R6(p *core.Prog, r *core.Report) {
	const rule = "C09.R6"
	r.Rule(rule, "import scan protocol: code that runs during the scan of the archive (a handler, or anything reachable from one) and registers a further handler sets the rescan flag on every path afterwards; without it an entry that precedes the one that caused the registration is never delivered (entry order must not matter)", 2)
	trd := p.Named(".", "tarReadData")
	if trd == nil {
		r.MissingAnchor(rule, "regclient.tarReadData")
		return
	}
	isField := func(v ssa.Value, name string) bool {
		// load of trd.<name> or its address
		if u, ok := v.(*ssa.UnOp); ok && u.Op == token.MUL {
			v = u.X
		}
		fa, ok := v.(*ssa.FieldAddr)
		if !ok {
			return false
		}
		n, f := core.FieldAddrInfo(fa)
		return n == trd && f == name
	}
	// handler functions: function values stored into the handlers map
	handlers := map[*ssa.Function]bool{}
	type regSite struct {
		fn *ssa.Function
		mu *ssa.MapUpdate
	}
	var regs []regSite
	for _, fn := range pkgFuncs(p, ".") {
		for _, b := range fn.Blocks {
			for _, in := range b.Instrs {
				mu, ok := in.(*ssa.MapUpdate)
				if !ok || !isField(mu.Map, "handlers") {
					continue
				}
				regs = append(regs, regSite{fn, mu})
				for _, o := range core.Origins(mu.Value, core.SliceOpts{}) {
					if g := closureOf(o.Val); g != nil {
						handlers[g] = true
					}
				}
				if g := closureOf(mu.Value); g != nil {
					handlers[g] = true
				}
			}
		}
	}
	if len(regs) == 0 || len(handlers) == 0 {
		r.Undecided(rule, "regclient", "handler registrations", "", fmt.Sprintf("found %d registrations and %d handler functions", len(regs), len(handlers)))
		return
	}
	during := map[*ssa.Function]bool{}
	for h := range handlers {
		for f := range p.ReachSet(h, core.ReachQuery{}) {
			during[f] = true
		}
	}
	setsFlag := func(in ssa.Instruction) bool {
		st, ok := in.(*ssa.Store)
		if !ok || !isField(st.Addr, "handleAdded") {
			return false
		}
		b, isC := core.ConstBool(st.Val)
		return isC && b
	}
	// flagged(fn, at): every path from `at` to a return of fn passes a store of true to the flag; for a
	// literal that is called where it is written the check continues at the call in the parent
	var flagged func(fn *ssa.Function, at ssa.Instruction, depth int) bool
	flagged = func(fn *ssa.Function, at ssa.Instruction, depth int) bool {
		seen := core.Reach{Stop: setsFlag}.FromInstr(at)
		escapes := false
		for in := range seen {
			if ret, isRet := in.(*ssa.Return); isRet && !failureReturn(fn, ret) {
				escapes = true
			}
		}
		if !escapes {
			return true
		}
		if handlers[fn] || depth > 3 {
			return false
		}
		found := false
		ok := true
		if fn.Parent() != nil {
			// immediately invoked literal: continue after each call in the parent
			par := fn.Parent()
			core.Calls(par, func(c ssa.CallInstruction) {
				if closureOf(c.Common().Value) == fn {
					found = true
					if !flagged(par, c.(ssa.Instruction), depth+1) {
						ok = false
					}
				}
			})
			return found && ok
		}
		// a named helper that registers for its caller: continue after each of its calls made during the scan
		for caller := range during {
			core.Calls(caller, func(c ssa.CallInstruction) {
				if _, isCall := c.(*ssa.Call); !isCall || core.CalleeFn(c) != fn {
					return
				}
				found = true
				if !flagged(caller, c.(ssa.Instruction), depth+1) {
					ok = false
				}
			})
		}
		return found && ok
	}
	lab := map[*ssa.Function]labeler{}
	n := 0
	for _, rs := range regs {
		if !during[rs.fn] {
			continue
		}
		n++
		if lab[rs.fn] == nil {
			lab[rs.fn] = labeler{}
		}
		label := lab[rs.fn].next("handler registered during the scan")
		r.Check(flagged(rs.fn, rs.mu, 0), rule, p.FuncName(rs.fn), label, p.Pos(rs.mu.Pos()),
			"after the registration every path sets the rescan flag (a registration without it is only honoured for entries that come later in the archive)")
	}
	if n == 0 {
		r.Held(rule, "regclient", "no handler is registered during the scan", "", "all handlers are installed before the scan starts")
	}
}

// failureReturn: the return hands back a non-nil error (its last result is an error value that is
// returned from the non-nil edge of a test of that value, or a fresh error).
func failureReturn(fn *ssa.Function, ret *ssa.Return) bool {
	res := fn.Signature.Results()
	if res.Len() == 0 {
		return false
	}
	last := res.Len() - 1
	if !types.Identical(res.At(last).Type(), types.Universe.Lookup("error").Type()) {
		return false
	}
	v := core.ReturnOperand(ret, last)
	if v == nil || core.IsNilConst(v) {
		return false
	}
	for _, oc := range originCalls(v) {
		if cal := core.Callee(oc); cal != nil && (core.IsFunc(cal, "fmt", "Errorf") || core.IsFunc(cal, "errors", "New")) {
			return true
		}
	}
	// a package-level error value (errs.ErrNotFound)
	if u, ok := v.(*ssa.UnOp); ok && u.Op == token.MUL {
		if _, isG := u.X.(*ssa.Global); isG {
			return true
		}
	}
	return anyGuard(ret.Block(), func(c ssa.Value, pol bool) bool {
		x, neq, isNil := errCmpNil(c)
		return isNil && neq == pol && (x == v || sameCellValue(x, v))
	})
}

// sameCellValue: two loads of one local cell that see the same stores (a named result that go/ssa
// keeps in memory because the function defers: the test loads it, the return loads it again).
func sameCellValue(a, b ssa.Value) bool {
	ua, ok1 := a.(*ssa.UnOp)
	ub, ok2 := b.(*ssa.UnOp)
	if !ok1 || !ok2 || ua.Op != token.MUL || ub.Op != token.MUL || ua.X != ub.X {
		return false
	}
	cell, ok := ua.X.(*ssa.Alloc)
	if !ok {
		return false
	}
	// walk back from the second load: every path must meet the first load before a store to the cell
	// (deferred literals run after the return value is set; any other call that could write the cell
	// through a closure ends the walk)
	ok = true
	seen := map[*ssa.BasicBlock]bool{}
	var back func(b *ssa.BasicBlock, from int)
	back = func(b *ssa.BasicBlock, from int) {
		for i := from; i >= 0 && ok; i-- {
			in := b.Instrs[i]
			if in == ssa.Instruction(ua) {
				return
			}
			switch x := in.(type) {
			case *ssa.Store:
				if x.Addr == ssa.Value(cell) {
					ok = false
				}
			case *ssa.Call:
				if mc, isMC := x.Call.Value.(*ssa.MakeClosure); isMC {
					for _, bnd := range mc.Bindings {
						if bnd == ssa.Value(cell) {
							ok = false
						}
					}
				}
			}
		}
		if !ok {
			return
		}
		if len(b.Preds) == 0 {
			ok = false
			return
		}
		for _, p := range b.Preds {
			if !seen[p] {
				seen[p] = true
				back(p, len(p.Instrs)-1)
			}
		}
	}
	back(ub.Block(), core.InstrIndex(ub)-1)
	return ok
}

// ---------------------------------------------------------------------------------------------
// R7 the content of an archive entry is read once

func c09R7(p *core.Prog, r *core.Report) {
	const rule = "C09.R7"
	r.Rule(rule, "an archive entry's stream is consumed once: after a call that reads the current tar entry (the tar reader field handed to a reader, or a helper that reads it) no second such call is reachable in the same handler; the second reader would see an empty stream (a blob imported after the entry had been read to look for a manifest is uploaded empty)", 3)
	trd := p.Named(".", "tarReadData")
	if trd == nil {
		r.MissingAnchor(rule, "regclient.tarReadData")
		return
	}
	isTr := func(v ssa.Value) bool {
		for i := 0; i < 3; i++ {
			switch x := v.(type) {
			case *ssa.MakeInterface:
				v = x.X
				continue
			case *ssa.ChangeInterface:
				v = x.X
				continue
			}
			break
		}
		u, ok := v.(*ssa.UnOp)
		if !ok || u.Op != token.MUL {
			return false
		}
		fa, ok := u.X.(*ssa.FieldAddr)
		if !ok {
			return false
		}
		n, f := core.FieldAddrInfo(fa)
		return n == trd && f == "tr"
	}
	// helpers that read the entry: functions (not literals) that hand the tar reader to a reader
	consumesDirect := func(c ssa.CallInstruction) bool {
		cal := core.Callee(c)
		if cal != nil && cal.Name() == "Next" {
			return false // advancing to the next entry
		}
		for _, a := range c.Common().Args {
			if isTr(a) {
				return true
			}
		}
		return false
	}
	helpers := map[*ssa.Function]bool{}
	for _, fn := range pkgFuncs(p, ".") {
		if fn.Parent() != nil {
			continue
		}
		core.Calls(fn, func(c ssa.CallInstruction) {
			if consumesDirect(c) {
				helpers[fn] = true
			}
		})
	}
	n := 0
	for _, fn := range pkgFuncs(p, ".") {
		var cons []ssa.CallInstruction
		core.Calls(fn, func(c ssa.CallInstruction) {
			if _, isDefer := c.(*ssa.Defer); isDefer {
				return
			}
			if consumesDirect(c) {
				cons = append(cons, c)
				return
			}
			if g := core.CalleeFn(c); g != nil && helpers[g] && g != fn {
				cons = append(cons, c)
			}
		})
		if len(cons) == 0 {
			continue
		}
		// a loop that advances the tar reader between reads is the scan itself
		advances := false
		core.Calls(fn, func(c ssa.CallInstruction) {
			if cal := core.Callee(c); cal != nil && cal.Name() == "Next" && core.IsNamed(core.CallArg(c, 0).Type(), "archive/tar", "Reader") {
				advances = true
			}
		})
		lab := labeler{}
		for _, c1 := range cons {
			n++
			label := lab.next("entry read")
			bad := ""
			if !advances {
				seen := (core.Reach{}).FromInstr(c1.(ssa.Instruction))
				for _, c2 := range cons {
					if c2 != c1 && seen[c2.(ssa.Instruction)] {
						bad = p.Pos(c2.Pos())
					}
				}
			}
			if bad != "" {
				r.Violated(rule, p.FuncName(fn), label, p.Pos(c1.Pos()), "the entry is read here and again at "+bad+": the second reader gets nothing")
			} else {
				r.Held(rule, p.FuncName(fn), label, p.Pos(c1.Pos()), "no second read of the same entry is reachable")
			}
		}
	}
	if n == 0 {
		r.Undecided(rule, "regclient", "entry reads", "", "no read of the tar reader field found")
	}
}

// c09R8: a Docker archive lists several images; the importer selects one by name. What is imported
// must be the entry that was selected: a function that walks the list to select an entry does not
// read the list at a constant position.
func c09R8(p *core.Prog, r *core.Report) {
	const rule = "C09.R8"
	r.Rule(rule, "the image imported from a Docker archive is the one selected: in a function that walks the list of manifest.json entries to pick one, every other read of the list is indexed by a value the selection can set, never by a constant", 1)
	isList := func(v ssa.Value) bool {
		ld, ok := v.(*ssa.UnOp)
		if !ok || ld.Op != token.MUL {
			return false
		}
		fa, ok := ld.X.(*ssa.FieldAddr)
		if !ok {
			return false
		}
		sl, ok := ld.Type().Underlying().(*types.Slice)
		if !ok {
			return false
		}
		st, ok := sl.Elem().Underlying().(*types.Struct)
		if nt := core.NamedOf(fa.X.Type()); !ok || nt == nil || nt.Obj().Pkg() == nil || !strings.HasPrefix(nt.Obj().Pkg().Path(), modPath(".")) {
			return false
		}
		for i := 0; i < st.NumFields(); i++ {
			if st.Field(i).Name() == "RepoTags" {
				return true
			}
		}
		return false
	}
	n := 0
	for _, fn := range pkgFuncs(p, ".") {
		if fn.Parent() != nil {
			continue
		}
		unit := core.WithAnon(fn)
		type access struct {
			ia *ssa.IndexAddr
			in *ssa.Function
		}
		var reads []access
		walks := false
		for _, f := range unit {
			loops := core.Loops(f)
			for _, b := range f.Blocks {
				for _, in := range b.Instrs {
					ia, ok := in.(*ssa.IndexAddr)
					if !ok || !isList(ia.X) {
						continue
					}
					// the element access of a range loop over the list is the walk itself
					ranged := false
					for _, l := range loops {
						if l.Blocks[b] {
							for _, o := range core.Origins(ia.Index, core.SliceOpts{}) {
								if ph, ok := o.Val.(*ssa.Phi); ok && ph.Block() == l.Header {
									ranged = true
								}
								if o.Kind == core.OBinOp {
									ranged = true
								}
							}
						}
					}
					if ranged {
						walks = true
						continue
					}
					reads = append(reads, access{ia, f})
				}
			}
		}
		if !walks {
			continue
		}
		lab := labeler{}
		for _, a := range reads {
			n++
			label := lab.next("read of the manifest.json list")
			constant := true
			os := core.Origins(a.ia.Index, core.SliceOpts{})
			for _, o := range os {
				if o.Kind != core.OConst {
					constant = false
				}
			}
			if constant && len(os) > 0 {
				r.Violated(rule, p.FuncName(a.in), label, p.Pos(a.ia.Pos()), "the list is read at a constant position in a function that selects an entry by walking the list: the entry imported is this one whatever the selection found")
			} else {
				r.Held(rule, p.FuncName(a.in), label, p.Pos(a.ia.Pos()), "indexed by a value the selection can set")
			}
		}
	}
	if n == 0 {
		r.MissingAnchor(rule, "reads of the manifest.json entry list next to its selection loop")
	}
}

// headAsksRule: "is it there" is answered by the place that was asked about. The client's BlobHead
// and ManifestHead return, on success, what the scheme's method of the same name returned to this
// call; a reader built from the descriptor itself (inline data, a cache of earlier answers) says
// "present" for a target that never received the content, and importers and copiers skip the upload.
func headAsksRule(p *core.Prog, r *core.Report, rule string) {
	r.Rule(rule, "existence is asked, not assumed: every return of the client's BlobHead / ManifestHead that can report success hands back the result of the scheme's method of the same name made by this call (a reader built from the descriptor's inline data would report content present on a target that never received it)", 2)
	for _, name := range []string{"BlobHead", "ManifestHead"} {
		fn := p.Method(".", "RegClient", name)
		if fn == nil {
			r.MissingAnchor(rule, "regclient.(*RegClient)."+name)
			continue
		}
		ok, bad, n := true, "", 0
		for _, ret := range core.Returns(fn) {
			if len(ret.Results) < 2 || failureReturn(fn, ret) {
				continue
			}
			v := core.ReturnOperand(ret, 0)
			if core.IsNilConst(v) {
				continue
			}
			n++
			for _, o := range core.Origins(v, core.SliceOpts{}) {
				if o.Kind == core.OCall && o.Call != nil && o.Call.Call.IsInvoke() && (o.Call.Call.Method.Name() == name || (name == "ManifestHead" && o.Call.Call.Method.Name() == "ManifestGet")) {
					continue // (a platform lookup in an index fetches the index from the same scheme)
				}
				if o.Val != nil && core.IsNilConst(o.Val) {
					continue // `var rdr blob.Reader; if err == nil { rdr = answer }`: nothing is not an answer
				}
				ok, bad = false, p.Pos(ret.Pos())
			}
		}
		r.Check(ok && n > 0, rule, p.FuncName(fn), "answer comes from the scheme", p.Pos(fn.Pos()),
			"the return at "+bad+" reports success with a value that is not the scheme's answer: the question whether the target holds the content is answered without asking the target")
	}
}

// ---------------------------------------------------------------------------------------------
// R13 the archive is finished, and a failure to finish it is reported

// isArchiveWriterCtor: constructors of writers that hold data back until Close (the end-of-archive
// blocks of a tar stream, the last compressed block and the trailer of gzip / zstd).
func isArchiveWriterCtor(f *types.Func) bool {
	if f == nil || f.Pkg() == nil {
		return false
	}
	switch f.Pkg().Path() {
	case "archive/tar":
		return f.Name() == "NewWriter"
	case "compress/gzip", "compress/zlib", "compress/flate":
		return f.Name() == "NewWriter" || f.Name() == "NewWriterLevel" || f.Name() == "NewWriterLevelDict" || f.Name() == "NewWriterDict"
	case "github.com/klauspost/compress/zstd":
		return f.Name() == "NewWriter"
	}
	return false
}

// c09R13: what an export hands to its caller is a complete archive or an error. tar.Writer.Close
// writes the end-of-archive blocks, gzip.Writer.Close the data still buffered and the trailer; both
// report the failure of the output they write to. A writer that is closed only by a deferred call
// whose result is dropped lets an export to an output that fails late return nil.
func c09R13(p *core.Prog, r *core.Report) {
	const rule = "C09.R13"
	r.Rule(rule, "the archive is finished and a failure to finish it is reported: for every tar/gzip/zstd writer created in a function of the client package that returns an error, the error of the writer's Close reaches the caller — Close is called with its result used on every path to a return that can report success, or inside a deferred literal that stores the result into the function's error result (found D20 on the unchanged tree: both writers of ImageExport were closed by `defer w.Close()`)", 2)
	fns := pkgFuncs(p, ".")
	// helpers of the package that close a writer they are given (or find in a field) and return the error
	closers := map[*ssa.Function]bool{}
	isWriterClose := func(c ssa.CallInstruction) bool {
		f := core.Callee(c)
		if f == nil || f.Name() != "Close" || f.Pkg() == nil {
			return false
		}
		switch f.Pkg().Path() {
		case "archive/tar", "compress/gzip", "compress/zlib", "compress/flate", "github.com/klauspost/compress/zstd":
			return true
		}
		return false
	}
	usedResult := func(c ssa.CallInstruction) bool {
		cl, ok := c.(*ssa.Call)
		if !ok {
			return false
		}
		rf := cl.Referrers()
		return rf != nil && len(*rf) > 0
	}
	for _, h := range fns {
		if h.Parent() != nil || h.Signature.Results().Len() == 0 {
			continue
		}
		core.Calls(h, func(c ssa.CallInstruction) {
			if !isWriterClose(c) || !usedResult(c) {
				return
			}
			for _, o := range core.Origins(core.CallArg(c, 0), core.SliceOpts{FieldsThrough: true}) {
				if o.Kind == core.OParam {
					closers[h] = true
				}
			}
		})
	}
	// closers also look into the literals of the helper (a deferred close of a second writer)
	for _, h := range fns {
		if h.Parent() == nil || closers[h] {
			continue
		}
		root := h
		for root.Parent() != nil {
			root = root.Parent()
		}
		core.Calls(h, func(c ssa.CallInstruction) {
			if isWriterClose(c) && usedResult(c) && root.Signature.Results().Len() > 0 {
				closers[root] = true
			}
		})
	}
	// helpers that close what they are given and store the result through an error pointer
	// (`defer closeKeepErr(w, &err)`)
	ptrClosers := map[*ssa.Function]bool{}
	for _, h := range fns {
		if h.Parent() != nil || len(h.Blocks) == 0 {
			continue
		}
		closes, stores := false, false
		core.Calls(h, func(c ssa.CallInstruction) {
			cal := core.Callee(c)
			isClose := (c.Common().IsInvoke() && c.Common().Method.Name() == "Close") || (cal != nil && cal.Name() == "Close")
			if !isClose || !usedResult(c) {
				return
			}
			recv := c.Common().Value
			if !c.Common().IsInvoke() {
				recv = core.CallArg(c, 0)
			}
			for _, o := range core.Origins(recv, core.SliceOpts{}) {
				if o.Kind == core.OParam {
					closes = true
				}
			}
		})
		for _, b := range h.Blocks {
			for _, in := range b.Instrs {
				if st, ok := in.(*ssa.Store); ok {
					if pr, ok := st.Addr.(*ssa.Parameter); ok {
						if pt, ok := pr.Type().Underlying().(*types.Pointer); ok && isErr(pt.Elem()) {
							stores = true
						}
					}
				}
			}
		}
		if closes && stores {
			ptrClosers[h] = true
		}
	}
	lab := labeler{}
	for _, fn := range fns {
		if fn.Parent() != nil || len(fn.Blocks) == 0 {
			continue
		}
		res := fn.Signature.Results()
		if res.Len() == 0 || !isErr(res.At(res.Len()-1).Type()) {
			continue
		}
		// result cells of fn (named results forced into memory by a deferred literal)
		cells := map[*ssa.Alloc]bool{}
		for _, ret := range core.Returns(fn) {
			for _, v := range ret.Results {
				if u, ok := v.(*ssa.UnOp); ok && u.Op == token.MUL && isErr(v.Type()) {
					if al, ok := u.X.(*ssa.Alloc); ok {
						cells[al] = true
					}
				}
			}
		}
		unit := core.WithAnon(fn)
		var ctors []*ssa.Call
		for _, g := range unit {
			core.Calls(g, func(c ssa.CallInstruction) {
				if cl, ok := c.(*ssa.Call); ok && isArchiveWriterCtor(core.Callee(c)) {
					ctors = append(ctors, cl)
				}
			})
		}
		for _, w := range ctors {
			wf := w.Parent()
			fromW := func(v ssa.Value) bool {
				for _, o := range core.Origins(v, core.SliceOpts{FieldsThrough: true}) {
					if o.Kind == core.OCall && o.Call == w {
						return true
					}
				}
				return false
			}
			// the writer is kept in a field of a struct that is handed to a closing helper
			// the struct allocation(s) a value points to, through captured variables and local cells
			allocsOf := func(v ssa.Value) map[*ssa.Alloc]bool {
				out := map[*ssa.Alloc]bool{}
				seenA := map[ssa.Value]bool{}
				var resolve func(x ssa.Value, d int)
				resolve = func(x ssa.Value, d int) {
					if x == nil || d > 8 || seenA[x] {
						return
					}
					seenA[x] = true
					switch y := x.(type) {
					case *ssa.Alloc:
						if _, isStruct := y.Type().(*types.Pointer).Elem().Underlying().(*types.Struct); isStruct {
							out[y] = true
							return
						}
						for _, st := range core.StoresToCell(y) {
							resolve(st.Val, d+1)
						}
					case *ssa.FreeVar:
						resolve(core.FreeVarBinding(y), d+1)
					case *ssa.UnOp:
						resolve(y.X, d+1)
					case *ssa.Phi:
						for _, e := range y.Edges {
							resolve(e, d+1)
						}
					}
				}
				resolve(v, 0)
				return out
			}
			holdsW := func(v ssa.Value) bool {
				mine := allocsOf(v)
				if len(mine) == 0 {
					return false
				}
				for _, g := range unit {
					for _, b := range g.Blocks {
						for _, in := range b.Instrs {
							st, ok := in.(*ssa.Store)
							if !ok || !fromW(st.Val) {
								continue
							}
							fa, ok := st.Addr.(*ssa.FieldAddr)
							if !ok {
								continue
							}
							for al := range allocsOf(fa.X) {
								if mine[al] {
									return true
								}
							}
						}
					}
				}
				return false
			}
			var explicit []ssa.Instruction // used Close calls in the creating function
			deferredHeard, closedAtAll := false, false
			for _, g := range unit {
				core.Calls(g, func(c ssa.CallInstruction) {
					var recv ssa.Value
					viaHolder := false
					switch {
					case isWriterClose(c):
						recv = core.CallArg(c, 0)
					case closers[core.CalleeFn(c)]:
						for i := range c.Common().Args {
							if a := core.CallArg(c, i); a != nil && (fromW(a) || holdsW(a)) {
								recv = a
								viaHolder = !fromW(a)
							}
						}
					case ptrClosers[core.CalleeFn(c)]:
						hasW, hasCell := false, false
						for _, a := range c.Common().Args {
							if fromW(underIface(a)) {
								hasW = true
							}
							if al, ok := a.(*ssa.Alloc); ok && cells[al] {
								hasCell = true
							}
						}
						if hasW && hasCell {
							closedAtAll, deferredHeard = true, true
						}
						return
					}
					if recv == nil || !(fromW(recv) || viaHolder) {
						return
					}
					closedAtAll = true
					if !usedResult(c) {
						return
					}
					cl := c.(*ssa.Call)
					if g == wf {
						explicit = append(explicit, cl)
						return
					}
					// inside a literal: the result has to arrive in an error result of fn
					if storesIntoResult(cl, cells, 0) {
						deferredHeard = true
					}
				})
			}
			construct := lab.next(core.ShortFunc(core.Callee(w)) + " writer")
			if deferredHeard {
				r.Held(rule, p.FuncName(fn), construct, p.Pos(w.Pos()), "a deferred literal closes the writer and stores the result into the function's error result")
				continue
			}
			if len(explicit) > 0 {
				stop := map[ssa.Instruction]bool{}
				for _, e := range explicit {
					stop[e] = true
				}
				bad := ""
				// after the creation the writer is not nil: the nil edge of a test of it (`if gz != nil`
				// around the Close of a writer that is created conditionally) is not a path from here
				nilEdge := func(from, to *ssa.BasicBlock) bool {
					ifi, ok := core.LastInstr(from).(*ssa.If)
					if !ok || len(from.Succs) != 2 {
						return false
					}
					cnd, pol := core.StripNot(ifi.Cond, true)
					bo, ok := cnd.(*ssa.BinOp)
					if !ok || (bo.Op != token.EQL && bo.Op != token.NEQ) {
						return false
					}
					var x ssa.Value
					switch {
					case core.IsNilConst(bo.Y):
						x = bo.X
					case core.IsNilConst(bo.X):
						x = bo.Y
					default:
						return false
					}
					if !fromW(x) {
						return false
					}
					// successor 0 is taken when cond is true
					isNilOnTrue := (bo.Op == token.EQL) == pol
					if isNilOnTrue {
						return to == from.Succs[0]
					}
					return to == from.Succs[1]
				}
				seen := core.Reach{Stop: func(in ssa.Instruction) bool { return stop[in] }, StopEdge: nilEdge}.FromInstr(w)
				for _, ret := range core.Returns(wf) {
					if seen[ret] && !failureReturn(wf, ret) {
						bad = p.Pos(ret.Pos())
						break
					}
				}
				if bad == "" {
					r.Held(rule, p.FuncName(fn), construct, p.Pos(w.Pos()), fmt.Sprintf("%d checked Close call(s); no return that can report success is reachable from the creation without one", len(explicit)))
					continue
				}
				r.Violated(rule, p.FuncName(fn), construct, p.Pos(w.Pos()), "the return at "+bad+" can report success and is reachable from the creation of the writer without a Close whose result is looked at: data the writer still holds is written by Close, and its failure is lost")
				continue
			}
			what := "the writer is never closed in this function or its literals"
			if closedAtAll {
				what = "the writer is closed only by calls whose result is dropped (`defer w.Close()`)"
			}
			r.Violated(rule, p.FuncName(fn), construct, p.Pos(w.Pos()), what+": the end of the archive and the data still buffered are written by Close, so an output that fails late yields a truncated archive and a nil error")
		}
	}
}

// storesIntoResult: the value v (an error) arrives, possibly joined or wrapped, in a store to a free
// variable of its literal that is bound to one of the given result cells.
func storesIntoResult(v ssa.Value, cells map[*ssa.Alloc]bool, depth int) bool {
	if depth > 4 {
		return false
	}
	rf := v.Referrers()
	if rf == nil {
		return false
	}
	for _, u := range *rf {
		switch x := u.(type) {
		case *ssa.Store:
			if x.Val != v {
				continue
			}
			if fv, ok := x.Addr.(*ssa.FreeVar); ok {
				if al, ok := core.FreeVarBinding(fv).(*ssa.Alloc); ok && cells[al] {
					return true
				}
			}
			if al, ok := x.Addr.(*ssa.Alloc); ok && cells[al] {
				return true
			}
		case *ssa.Phi:
			if storesIntoResult(x, cells, depth+1) {
				return true
			}
		case *ssa.MakeInterface:
			if storesIntoResult(x, cells, depth+1) {
				return true
			}
		case *ssa.ChangeInterface:
			if storesIntoResult(x, cells, depth+1) {
				return true
			}
		case *ssa.Call:
			if f := core.Callee(x); f != nil && (core.IsFunc(f, "errors", "Join") || core.IsFunc(f, "fmt", "Errorf")) {
				if storesIntoResult(x, cells, depth+1) {
					return true
				}
			}
			}
	}
	// variadic packing: the value is stored into the slice handed to errors.Join / fmt.Errorf
	for _, u := range *rf {
		if st, ok := u.(*ssa.Store); ok && st.Val == v {
			if ia, ok := st.Addr.(*ssa.IndexAddr); ok {
				if al, ok := ia.X.(*ssa.Alloc); ok {
					if arf := al.Referrers(); arf != nil {
						for _, au := range *arf {
							if sl, ok := au.(*ssa.Slice); ok {
								if srf := sl.Referrers(); srf != nil {
									for _, su := range *srf {
										if c, ok := su.(*ssa.Call); ok {
											if f := core.Callee(c); f != nil && (core.IsFunc(f, "errors", "Join") || core.IsFunc(f, "fmt", "Errorf")) {
												if storesIntoResult(c, cells, depth+1) {
													return true
												}
											}
										}
									}
								}
							}
						}
					}
				}
			}
		}
	}
	return false
}

// ---------------------------------------------------------------------------------------------
// R14 a Docker import that selects nothing fails

// c09R14: importing a Docker-format archive by name walks the entries of manifest.json for one whose
// RepoTags contain the name. When none does there is nothing to import: the function that made the
// selection has to say so with an error. A warning and a plain return let the caller go on and push
// the manifest it had prepared — empty — under the target tag (found D26).
func c09R14(p *core.Prog, r *core.Report) {
	const rule = "C09.R14"
	r.Rule(rule, "a Docker import that selects nothing fails: in the function of the client package that looks a requested name up in the RepoTags of the manifest.json entries, with the edges removed on which an entry matched or no name was requested, every reachable return reports a failure", 1)
	n := 0
	for _, fn := range pkgFuncs(p, ".") {
		if fn.Parent() != nil {
			continue
		}
		// membership tests of a RepoTags field
		var tests []ssa.Value
		core.Calls(fn, func(c ssa.CallInstruction) {
			cal := core.Callee(c)
			if cal == nil || cal.Pkg() == nil || cal.Pkg().Path() != "slices" || !(cal.Name() == "Contains" || cal.Name() == "Index" || cal.Name() == "ContainsFunc" || cal.Name() == "IndexFunc") {
				return
			}
			if len(c.Common().Args) < 1 {
				return
			}
			for _, o := range core.Origins(c.Common().Args[0], core.SliceOpts{}) {
				if o.Kind == core.OField && o.Field == "RepoTags" {
					if v, ok := c.(ssa.Value); ok {
						tests = append(tests, v)
					}
				}
			}
		})
		if len(tests) == 0 {
			continue
		}
		n++
		dependsOnTest := func(v ssa.Value) bool {
			seen := map[ssa.Value]bool{}
			var walk func(x ssa.Value, d int) bool
			walk = func(x ssa.Value, d int) bool {
				if x == nil || d > 5 || seen[x] {
					return false
				}
				seen[x] = true
				for _, t := range tests {
					if x == t {
						return true
					}
				}
				if in, ok := x.(ssa.Instruction); ok {
					if _, isCall := x.(*ssa.Call); isCall {
						return false
					}
					for _, op := range in.Operands(nil) {
						if op != nil && *op != nil && walk(*op, d+1) {
							return true
						}
					}
				}
				return false
			}
			return walk(v, 0)
		}
		stopEdge := func(from, to *ssa.BasicBlock) bool {
			ifi, ok := core.LastInstr(from).(*ssa.If)
			if !ok || len(from.Succs) != 2 {
				return false
			}
			cnd, pol := core.StripNot(ifi.Cond, true)
			// an entry matched
			if dependsOnTest(cnd) {
				if bo, isB := cnd.(*ssa.BinOp); isB {
					// slices.Index(...) >= 0 / != -1: treat the edge on which the comparison holds as "matched"
					_ = bo
				}
				matched := from.Succs[0]
				if !pol {
					matched = from.Succs[1]
				}
				return to == matched
			}
			// no name requested: `name != ""` false edge / `name == ""` true edge
			if bo, isB := cnd.(*ssa.BinOp); isB && (bo.Op == token.EQL || bo.Op == token.NEQ) && isStringType(bo.X.Type()) {
				if sv, isC := core.ConstString(bo.Y); isC && sv == "" {
					if _, isF := core.Origins(bo.X, core.SliceOpts{})[0].Val.(ssa.Value); isF || true {
						empty := from.Succs[0]
						if (bo.Op == token.EQL) != pol {
							empty = from.Succs[1]
						}
						return to == empty
					}
				}
			}
			return false
		}
		// the "found" state may be carried in an integer (`index := -1 … if index < 0`): with the matched
		// edges removed, a test of a phi whose values on the blocks still reachable are all constants has
		// one outcome only
		reach0 := map[*ssa.BasicBlock]bool{}
		var bfs func(b *ssa.BasicBlock)
		bfs = func(b *ssa.BasicBlock) {
			if reach0[b] {
				return
			}
			reach0[b] = true
			for _, sc := range b.Succs {
				if !stopEdge(b, sc) {
					bfs(sc)
				}
			}
		}
		if len(fn.Blocks) > 0 {
			bfs(fn.Blocks[0])
		}
		phiCut := func(from, to *ssa.BasicBlock) bool {
			ifi, ok := core.LastInstr(from).(*ssa.If)
			if !ok || len(from.Succs) != 2 {
				return false
			}
			bo, ok := ifi.Cond.(*ssa.BinOp)
			if !ok {
				return false
			}
			k, isK := core.ConstInt(bo.Y)
			if !isK {
				return false
			}
			// the values the tested variable can have here: the incoming values of a phi on the edges
			// still reachable, or — for a variable that lives in a cell because a literal captures it —
			// the nearest stores on the paths still reachable
			var vals []ssa.Value
			switch x := bo.X.(type) {
			case *ssa.Phi:
				for i, pr := range x.Block().Preds {
					if reach0[pr] && !stopEdge(pr, x.Block()) {
						vals = append(vals, x.Edges[i])
					}
				}
			case *ssa.UnOp:
				cell, isCell := x.X.(*ssa.Alloc)
				if x.Op != token.MUL || !isCell {
					return false
				}
				seenB := map[*ssa.BasicBlock]bool{}
				var back func(b *ssa.BasicBlock, from int)
				back = func(b *ssa.BasicBlock, from int) {
					for i := from; i >= 0; i-- {
						if st, isSt := b.Instrs[i].(*ssa.Store); isSt && st.Addr == ssa.Value(cell) {
							vals = append(vals, st.Val)
							return
						}
					}
					for _, pr := range b.Preds {
						if reach0[pr] && !stopEdge(pr, b) && !seenB[pr] {
							seenB[pr] = true
							back(pr, len(pr.Instrs)-1)
						}
					}
				}
				back(x.Block(), core.InstrIndex(x)-1)
			default:
				return false
			}
			var outcome *bool
			for _, val := range vals {
				v, isC := core.ConstInt(val)
				if !isC {
					return false
				}
				var res bool
				switch bo.Op {
				case token.LSS:
					res = v < k
				case token.LEQ:
					res = v <= k
				case token.GTR:
					res = v > k
				case token.GEQ:
					res = v >= k
				case token.EQL:
					res = v == k
				case token.NEQ:
					res = v != k
				default:
					return false
				}
				if outcome != nil && *outcome != res {
					return false
				}
				outcome = &res
			}
			if outcome == nil {
				return false
			}
			dead := from.Succs[1]
			if !*outcome {
				dead = from.Succs[0]
			}
			return to == dead
		}
		bad := ""
		seen := core.Reach{StopEdge: func(f, t *ssa.BasicBlock) bool { return stopEdge(f, t) || phiCut(f, t) }}.FromEntry(fn)
		for _, ret := range core.Returns(fn) {
			if seen[ret] && !failureReturn(fn, ret) {
				if pos := p.Pos(ret.Pos()); bad == "" || pos < bad {
					bad = pos
				}
			}
		}
		r.Check(bad == "", rule, p.FuncName(fn), "selection that finds nothing", p.Pos(fn.Pos()), "the return at "+bad+" is reached when a name was requested and no entry of manifest.json carries it, and it does not report a failure: the caller pushes the empty manifest it had prepared and the import reports success")
	}
	if n == 0 {
		r.MissingAnchor(rule, "lookup of a name in the RepoTags of manifest.json entries")
	}
}

package rules

import (
	"fmt"
	"go/ast"
	"go/constant"
	"go/token"
	"go/types"
	"sort"
	"strings"

	"golang.org/x/tools/go/ssa"

	"verif/internal/core"
)

func init() {
	register(&Spec{
		ID: "C03",
		Decides: "the copy traversal consults index entries, config, layers and (under their options) referrers and the tag list, and each result feeds goroutines that copy it; the five traversals of the image graph (copy, layout GC mark, export, import, mod) consult the same three getters; the media types treated as manifests agree between copy, import and export; " +
			"the only success returns before the manifest write are under the digest-equality test; completions carry the child's error, nested copies go by digest with the child flag and tagged copies without it; the first copier records its error before waking waiters and a failed entry is forgotten under the lock; list filters do not write into their input's backing array; the existence test on the target in BlobCopy is made with a descriptor whose external URLs were cleared; the copy holds the layout's GC lock for its whole duration and the lock cannot be lost (shared with C08.R1/R2).",
		NotCovered: "that the target really holds the closure for every graph, pairing, pre-existing state and interleaving; which layers are fetched from external URLs; registry features.",
		Run:        runC03,
	})
}

func runC03(p *core.Prog, r *core.Report) {
	trav := copyTraversal(p)
	if trav == nil {
		r.MissingAnchor("C03.R1", "copy traversal")
		return
	}
	c03R1(p, r, trav)
	c03R2(p, r, trav)
	r.Rule("C03.R3", "child errors propagate: completions carry the child's own error; nested manifests are copied by digest with the child flag, tags without it; a failed blob transfer never reports success", 10)
	c04R4(p, r, trav, "C03.R3")
	c04R6(p, r, trav, "C03.R3")
	// after a successful copy the target tag resolves to what was copied: the layout looks the tag up exactly before any loose match (shared with C06.R6)
	c06R6(p, r, "C03.R14")
	// a blob is skipped only when the target says it has it (shared with C09.R12)
	headAsksRule(p, r, "C03.R15")
	c03R4(p, r, "C03.R4")
	c03R5(p, r, "C03.R5")
	c03R7(p, r, "C03.R7")
	// a copy into a layout is complete only if the collector cannot run under it
	c08R1(p, r, "C03.R8")
	c08R2(p, r, "C03.R9")
	c03R6(p, r, "C03.R6")
	c03R10(p, r)
	// referrers are part of the image when asked for: what the client learned about the referrers API of one repository answers for that repository only (shared with C10.R8)
	structKeyRule(p, r, "C03.R11")
	// a copy with referrers or digest tags copies what the listings say: the referrer cache never holds a filtered answer (shared with C10.R2), and the tag listing reports a failing page instead of a short list (shared with C06.R4)
	c10R2(p, r, "C03.R12")
	c06R4(p, r, "C03.R13")
	c03R16(p, r, trav, "C03.R16")
}

// c03R10: the copy skips what the target already has, and asks the target with a head request. A
// layout answers "present" only after looking at the file: an index entry whose blob is gone is not
// a manifest the target has.
func c03R10(p *core.Prog, r *core.Report) {
	const rule = "C03.R10"
	r.Rule(rule, "a layout's head request looks at the file: in scheme/ocidir ManifestHead and BlobHead no success return is reachable from the entry without passing the nil-error edge of a file-system read of the content (os.Stat, os.Open, os.ReadFile)", 2)
	isRead := func(f *types.Func) bool {
		return isOS(f, "Stat") || isOS(f, "Open") || isOS(f, "ReadFile") || isOS(f, "Lstat")
	}
	for _, name := range []string{"ManifestHead", "BlobHead"} {
		fn := p.Method(ocidirRel, "OCIDir", name)
		if fn == nil {
			r.MissingAnchor(rule, ocidirRel+".(*OCIDir)."+name)
			continue
		}
		unit := core.Helpers(fn, 2)
		// the reads, in the function or in helpers it calls (a helper counts at its call site)
		var reads, boolReads []*ssa.Call
		helperReads := map[*ssa.Call]*ssa.Call{}
		// a read of the content: the path names the blob directory
		blobRead := func(c ssa.CallInstruction) bool {
			if !isRead(core.Callee(c)) || len(c.Common().Args) == 0 {
				return false
			}
			for _, l := range pathLeaves(c.Common().Args[0]) {
				if sv, ok := core.ConstString(l); ok && strings.Contains(sv, "blobs") {
					return true
				}
			}
			return false
		}
		core.Calls(fn, func(c ssa.CallInstruction) {
			call, ok := c.(*ssa.Call)
			if !ok {
				return
			}
			if blobRead(c) {
				reads = append(reads, call)
				return
			}
			if g := core.CalleeFn(c); g != nil && g != fn && unit[g] {
				res := g.Signature.Results()
				has := false
				core.Calls(g, func(gc ssa.CallInstruction) {
					has = has || blobRead(gc)
					// a helper that is handed the file's path and looks at it
					if gcall, isCall := gc.(*ssa.Call); isCall && isRead(core.Callee(gc)) && len(gc.Common().Args) > 0 && !has {
						for _, o := range core.Origins(gc.Common().Args[0], core.SliceOpts{}) {
							if o.Kind == core.OParam && o.Param.Parent() == g {
								helperReads[call] = gcall
								has = true
							}
						}
					}
				})
				if res.Len() > 0 && isErrType(res.At(res.Len()-1).Type()) && has {
					reads = append(reads, call)
				} else if has && helperReads[call] != nil && res.Len() > 0 && types.Identical(res.At(res.Len()-1).Type(), types.Typ[types.Bool]) {
					boolReads = append(boolReads, helperReads[call])
				}
			}
		})
		stopEdge := func(from, to *ssa.BasicBlock) bool {
			for _, rd := range reads {
				for _, e := range nilEdgesOf(fn, rd) {
					if e[0] == from && e[1] == to {
						return true
					}
				}
			}
			// a helper that answers "is it there" with a bool: the edges on which it said yes
			for _, w := range boolReads {
				for _, e := range successEdgesIn(fn, w) {
					if e[0] == from && e[1] == to {
						return true
					}
				}
			}
			return false
		}
		seen := core.Reach{StopEdge: stopEdge}.FromEntry(fn)
		bad := ""
		for _, ret := range core.Returns(fn) {
			if !seen[ret] || len(ret.Results) < 2 {
				continue
			}
			// a return that can report success: its error is not known to be non-nil
			if !failureReturn(fn, ret) {
				bad = p.Pos(ret.Pos())
			}
		}
		r.Check(bad == "" && len(reads)+len(boolReads) > 0, rule, p.FuncName(fn), "presence decided by the file", p.Pos(fn.Pos()),
			"the return at "+bad+" can report the content as present without any look at the file: an entry that index.json lists but whose blob is missing is answered as present, and a copy onto such a target reports success without writing the manifest")
	}
}

func isErrorBuilder(f *types.Func) bool {
	return f != nil && (core.IsFunc(f, "fmt", "Errorf") || core.IsFunc(f, "errors", "New") || core.IsFunc(f, "errors", "Join"))
}

// getterCalls returns the invoke calls of the named interface method in fn and its closures.
func getterCalls(fn *ssa.Function, method string) []*ssa.Call {
	var out []*ssa.Call
	for _, f := range core.WithAnon(fn) {
		core.Calls(f, func(c ssa.CallInstruction) {
			if isInvoke(c, method) {
				if call, ok := c.(*ssa.Call); ok {
					out = append(out, call)
				}
			}
		})
	}
	return out
}

// traversals lists the functions that walk the image graph. Each is looked up by its name and, when a
// refactoring renamed or split it, by its role.
func traversals(p *core.Prog) map[string]*ssa.Function {
	out := map[string]*ssa.Function{}
	out["copy"] = copyTraversal(p)
	hasParam := func(f *ssa.Function, rel, name string) bool {
		for _, pr := range f.Params {
			if core.IsModNamed(pr.Type(), rel, name) {
				return true
			}
		}
		return false
	}
	selfCall := func(f *ssa.Function) bool {
		rec := false
		for _, g := range core.WithAnon(f) {
			core.Calls(g, func(c ssa.CallInstruction) { rec = rec || core.CalleeFn(c) == f })
		}
		return rec
	}
	byRole := func(named *ssa.Function, rel string, role func(f *ssa.Function) bool) *ssa.Function {
		if named != nil {
			return named
		}
		var found []*ssa.Function
		for _, f := range pkgFuncs(p, rel) {
			if f.Parent() == nil && role(f) {
				found = append(found, f)
			}
		}
		if len(found) == 1 {
			return found[0]
		}
		return nil
	}
	// export: the recursive function that is handed the archive writer and a descriptor
	out["export"] = byRole(p.Method(".", "RegClient", "imageExportDescriptor"), ".", func(f *ssa.Function) bool {
		return hasParam(f, ".", "tarWriteData") && hasParam(f, "types/descriptor", "Descriptor") && selfCall(f)
	})
	// import: the handler builder that is handed the archive reader and a parsed manifest
	out["import"] = byRole(p.Method(".", "RegClient", "imageImportOCIHandleManifest"), ".", func(f *ssa.Function) bool {
		return hasParam(f, ".", "tarReadData") && hasParam(f, "types/manifest", "Manifest")
	})
	// layout GC: the recursive walk below Close
	mark := p.Method(ocidirRel, "OCIDir", "closeProcManifest")
	if mark == nil {
		_, mark, _ = gcMarkWalkers(p)
	}
	out["layout GC mark"] = mark
	// mod: the recursive loader of the image DAG
	out["mod"] = byRole(p.Func("mod", "dagGet"), "mod", func(f *ssa.Function) bool {
		res := f.Signature.Results()
		return res.Len() == 2 && core.IsModNamed(res.At(0).Type(), "mod", "dagManifest") && selfCall(f)
	})
	return out
}

// getterCallsUnit is getterCalls over fn, its literals and the unexported helpers they call.
func getterCallsUnit(fn *ssa.Function, method string) []*ssa.Call {
	var out []*ssa.Call
	for _, f := range sortedFuncs(unitFuncs(fn, 2, nil)) {
		core.Calls(f, func(c ssa.CallInstruction) {
			if isInvoke(c, method) {
				if call, ok := c.(*ssa.Call); ok {
					out = append(out, call)
				}
			}
		})
	}
	return out
}

func c03R1(p *core.Prog, r *core.Report, trav *ssa.Function) {
	const rule = "C03.R1"
	r.Rule(rule, "edge kinds: every traversal of the image graph consults GetManifestList, GetConfig and GetLayers; in the copy each result (and, under their options, ReferrerList and TagList) feeds the goroutines that copy it", 18)
	ts := traversals(p)
	var names []string
	for n := range ts {
		names = append(names, n)
	}
	sort.Strings(names)
	for _, n := range names {
		fn := ts[n]
		if fn == nil {
			r.MissingAnchor(rule, n+" traversal")
			continue
		}
		for _, g := range []string{"GetManifestList", "GetConfig", "GetLayers"} {
			r.Check(len(getterCallsUnit(fn, g)) > 0, rule, p.FuncName(fn), n+" consults "+g, p.Pos(fn.Pos()), "content reachable only through this edge kind would be skipped by the "+n+" traversal")
		}
	}
	// the copy: results feed goroutines
	name := p.FuncName(trav)
	// forward data flow from the getter's result into the descriptor argument of a copy call (the
	// traversal itself or the blob copy), through range elements, captured variables and helpers
	feeds := func(g *ssa.Call) bool {
		return forwardReaches(p, g, func(c ssa.CallInstruction, argIdx int) bool {
			gfn := core.CalleeFn(c)
			if gfn == nil || (gfn != trav && canon(gfn) != "imageCopyBlob") {
				return false
			}
			return argIdx == 4
		})
	}
	for _, g := range []string{"GetManifestList", "GetConfig", "GetLayers"} {
		for _, c := range getterCalls(trav, g) {
			if c.Parent() != trav {
				continue
			}
			r.Check(feeds(c), rule, name, "copy uses "+g, p.Pos(c.Pos()), "the descriptors returned by "+g+" are handed to goroutines that copy them")
		}
	}
	// referrers and digest tags
	for _, m := range []string{"ReferrerList", "TagList"} {
		var calls []*ssa.Call
		// in the traversal, its literals (a lazily loaded list) or the unexported helpers they call
		scope := map[*ssa.Function]bool{}
		for _, f := range core.WithAnon(trav) {
			for h := range core.Helpers(f, 1) {
				for _, g := range core.WithAnon(h) {
					scope[g] = true
				}
			}
		}
		for _, f := range sortedFuncs(scope) {
			core.Calls(f, func(c ssa.CallInstruction) {
				if cal := core.Callee(c); cal != nil && core.IsModMethod(cal, ".", "RegClient", m) {
					if call, ok := c.(*ssa.Call); ok {
						calls = append(calls, call)
					}
				}
			})
		}
		if len(calls) == 0 {
			r.Violated(rule, name, "copy consults "+m, p.Pos(trav.Pos()), m+" is never called: the option that asks for this content copies nothing")
			continue
		}
		for _, c := range calls {
			r.Held(rule, name, "copy consults "+m, p.Pos(c.Pos()), "consulted under its option")
		}
	}
}

func c03R2(p *core.Prog, r *core.Report, trav *ssa.Function) {
	const rule = "C03.R2"
	r.Rule(rule, "only one way to succeed without writing: every path of the traversal that returns success without having called ManifestPut passes the edge on which the source digest equals the digest of the target's manifest", 1)
	name := p.FuncName(trav)
	isPut := func(in ssa.Instruction) bool {
		c, ok := in.(ssa.CallInstruction)
		if !ok {
			return false
		}
		cal := core.Callee(c)
		return cal != nil && core.IsModMethod(cal, ".", "RegClient", "ManifestPut")
	}
	fromDesc := func(v ssa.Value) bool {
		for _, o := range core.Origins(v, core.SliceOpts{FieldsThrough: true}) {
			if o.Kind == core.OCall && o.Call.Call.IsInvoke() && o.Call.Call.Method.Name() == "GetDescriptor" {
				return true
			}
		}
		return false
	}
	equalEdge := func(from, to *ssa.BasicBlock) bool {
		ifi, ok := core.LastInstr(from).(*ssa.If)
		if !ok {
			return false
		}
		cnd, pol := core.StripNot(ifi.Cond, true)
		bo, ok := cnd.(*ssa.BinOp)
		if !ok || (bo.Op != token.EQL && bo.Op != token.NEQ) || !isDigestType(bo.X.Type()) {
			return false
		}
		if !fromDesc(bo.X) && !fromDesc(bo.Y) {
			return false
		}
		// the edge on which the digests are equal
		eq := bo.Op == token.EQL
		if eq == pol {
			return to == from.Succs[0]
		}
		return to == from.Succs[1]
	}
	seen := core.Reach{Stop: isPut, StopEdge: equalEdge}.FromEntry(trav)
	lab := labeler{}
	n := 0
	for _, ret := range core.Returns(trav) {
		last := len(ret.Results) - 1
		if last < 0 {
			continue
		}
		v := core.ReturnOperand(ret, last)
		if !core.IsNilConst(v) {
			continue
		}
		n++
		r.Check(!seen[ret], rule, name, lab.next("success return without a manifest write"), p.Pos(ret.Pos()), "a success return that is reached without ManifestPut must lie behind the 'target already has this digest' edge; any other such return leaves the target incomplete")
	}
	if n == 0 {
		r.Undecided(rule, name, "success return", p.Pos(trav.Pos()), "the traversal has no `return nil`")
	}
}

func c03R4(p *core.Prog, r *core.Report, rule string) {
	r.Rule(rule, "waiter protocol: the first copier stores its error before closing the done channel and forgets a failed entry under the lock; waiters read the error only after receiving from the done channel, and a caller that finds the content in flight is told 'nothing to do' (no callback, no error) only after that receive: a manifest is never pushed while a blob it shares with another image is still a temporary file or an open upload", 4)
	fn := p.Func(".", "imageSeenOrWait")
	if fn == nil {
		r.MissingAnchor(rule, "regclient.imageSeenOrWait")
		return
	}
	name := p.FuncName(fn)
	// the callback literal: the function literal returned
	var cb *ssa.Function
	for _, ret := range core.Returns(fn) {
		// a literal, or a method value of the entry (resolved through the bound-method wrapper)
		for _, f := range hookFuncs(p, core.ReturnOperand(ret, 0), 0) {
			cb = f
		}
	}
	if cb == nil {
		r.Undecided(rule, name, "completion callback", p.Pos(fn.Pos()), "no function literal returned")
		return
	}
	// the callback may hand its work to a helper: the protocol is checked where the channel is closed
	for _, h := range sortedFuncs(core.Helpers(cb, 2)) {
		if h == cb {
			continue
		}
		core.Calls(h, func(c ssa.CallInstruction) {
			if bi, ok := c.Common().Value.(*ssa.Builtin); ok && bi.Name() == "close" {
				cb = h
			}
		})
	}
	var errStore, closeCall, del ssa.Instruction
	for _, b := range cb.Blocks {
		for _, in := range b.Instrs {
			switch x := in.(type) {
			case *ssa.Store:
				if fa, ok := x.Addr.(*ssa.FieldAddr); ok && types.Identical(fa.Type().(*types.Pointer).Elem(), types.Universe.Lookup("error").Type()) {
					errStore = in
				}
			case *ssa.Call:
				if bi, ok := x.Call.Value.(*ssa.Builtin); ok {
					if bi.Name() == "close" {
						closeCall = in
					}
					if bi.Name() == "delete" {
						del = in
					}
				}
			}
		}
	}
	ok := errStore != nil && closeCall != nil && core.DominatesInstr(errStore, closeCall)
	r.Check(ok, rule, p.FuncName(cb), "error stored before waiters are woken", p.Pos(cb.Pos()), "the store to the shared error field dominates close(done): a waiter that wakes up reads the copier's real result")
	// delete under the mutex and only on failure
	okDel := false
	if del != nil {
		// a Lock call dominates and an Unlock follows
		locked := false
		core.Calls(cb, func(c ssa.CallInstruction) {
			if _, op := core.MutexOp(c); op == "lock" && core.DominatesInstr(c.(ssa.Instruction), del) {
				locked = true
			}
		})
		onErr := anyGuard(del.Block(), func(c ssa.Value, pol bool) bool {
			_, neq, isNil := errCmpNil(c)
			return isNil && neq == pol
		})
		okDel = locked && onErr
	}
	r.Check(okDel, rule, p.FuncName(cb), "failed entry forgotten under the lock", p.Pos(cb.Pos()), "on failure the entry is deleted from the seen map while holding its mutex, so a retry (or another image of the same copy) can copy the content again")
	// waiters: every return of the entry's error is preceded by a receive from done on that path
	okWait := true
	for _, ret := range core.Returns(fn) {
		v := core.ReturnOperand(ret, 1)
		u, isLoad := v.(*ssa.UnOp)
		if !isLoad {
			continue
		}
		fa, isFA := u.X.(*ssa.FieldAddr)
		if !isFA || !types.Identical(fa.Type().(*types.Pointer).Elem(), types.Universe.Lookup("error").Type()) {
			continue
		}
		// must be in a block reached from a select/recv on a channel field
		recv := false
		for _, g := range core.Guards(ret.Block()) {
			_ = g
		}
		for _, b := range fn.Blocks {
			for _, in := range b.Instrs {
				switch x := in.(type) {
				case *ssa.Select:
					if b.Dominates(ret.Block()) {
						recv = true
					}
				case *ssa.UnOp:
					if x.Op == token.ARROW && b.Dominates(ret.Block()) {
						recv = true
					}
				}
			}
		}
		if !recv {
			okWait = false
		}
	}
	r.Check(okWait, rule, name, "waiters read the error after the wake-up", p.Pos(fn.Pos()), "the shared error is only returned on paths that received from the done channel")
	// a 'nothing to do' answer (no callback; the error is nil or the entry's stored error) is only
	// given behind the receive from the entry's done channel
	okSkip, skipPos := true, fn.Pos()
	for _, ret := range core.Returns(fn) {
		if len(ret.Results) < 2 || !core.IsNilConst(core.ReturnOperand(ret, 0)) {
			continue
		}
		ev := core.ReturnOperand(ret, 1)
		skip := core.IsNilConst(ev)
		if u, isLoad := ev.(*ssa.UnOp); isLoad && u.Op == token.MUL {
			if _, isFA := u.X.(*ssa.FieldAddr); isFA {
				skip = true
			}
		}
		if skip && !afterFieldChanRecv(ret) {
			okSkip, skipPos = false, ret.Pos()
		}
	}
	// after the wake-up the waiter reports what the first copier stored — its failure included
	isErrField := func(v ssa.Value) bool {
		u, ok := v.(*ssa.UnOp)
		if !ok || u.Op != token.MUL {
			return false
		}
		fa, ok := u.X.(*ssa.FieldAddr)
		return ok && isErr(fa.Type().(*types.Pointer).Elem())
	}
	var fromErrField func(v ssa.Value, d int) bool
	fromErrField = func(v ssa.Value, d int) bool {
		if v == nil || d > 5 {
			return false
		}
		if isErrField(v) {
			return true
		}
		switch x := v.(type) {
		case *ssa.Call:
			for _, a := range x.Call.Args {
				for _, e := range variadicElems(a) {
					if fromErrField(underIface(e), d+1) {
						return true
					}
				}
			}
		case *ssa.Phi:
			for _, e := range x.Edges {
				if !core.IsNilConst(e) && !fromErrField(e, d+1) {
					return false
				}
			}
			return len(x.Edges) > 0
		case *ssa.MakeInterface:
			return fromErrField(x.X, d+1)
		}
		return false
	}
	okOwner, ownerPos := true, fn.Pos()
	for _, ret := range core.Returns(fn) {
		if len(ret.Results) < 2 || !afterFieldChanRecv(ret) {
			continue
		}
		ev := core.ReturnOperand(ret, 1)
		ok := fromErrField(ev, 0)
		if !ok && core.IsNilConst(ev) {
			ok = anyGuard(ret.Block(), func(c ssa.Value, pol bool) bool {
				x, neq, isNil := errCmpNil(c)
				return isNil && neq != pol && isErrField(x)
			})
		}
		if !ok {
			okOwner, ownerPos = false, ret.Pos()
		}
	}
	r.Check(okOwner, rule, name, "the waiter reports the first copier's result", p.Pos(ownerPos), "a return behind the receive from the entry's done channel hands back something other than the error the first copier stored (or a wrap of it): a waiter that is told nil after the shared copy failed lets its own image be published without that content")
	r.Check(okSkip, rule, name, "in-flight content is waited for", p.Pos(skipPos), "every return that hands back neither a callback nor a fresh error lies behind a receive from the entry's done channel; answering 'already copied' while the first copier is still running lets the caller publish a manifest (and its tag) before the shared blob exists at the target")
}

// afterFieldChanRecv: the instruction executes only after a receive from a channel that is loaded
// from a struct field (the done channel of a shared entry): the receive case of a select, or a plain
// receive that dominates it.
func afterFieldChanRecv(at ssa.Instruction) bool {
	fieldChan := func(v ssa.Value) bool {
		u, ok := v.(*ssa.UnOp)
		if !ok || u.Op != token.MUL {
			return false
		}
		_, ok = u.X.(*ssa.FieldAddr)
		return ok
	}
	isCase := func(c ssa.Value, pol bool) bool {
		b, ok := c.(*ssa.BinOp)
		if !ok || b.Op != token.EQL || !pol {
			return false
		}
		ex, ok := b.X.(*ssa.Extract)
		if !ok || ex.Index != 0 {
			return false
		}
		sel, ok := ex.Tuple.(*ssa.Select)
		if !ok {
			return false
		}
		k, ok := core.ConstInt(b.Y)
		if !ok || k < 0 || int(k) >= len(sel.States) {
			return false
		}
		st := sel.States[k]
		return st.Dir == types.RecvOnly && fieldChan(st.Chan)
	}
	if anyGuard(at.Block(), isCase) {
		return true
	}
	// the case body only sets a flag that is tested afterwards (`finished := false; select { case
	// <-e.done: finished = true; default: }; if finished { … }`): every edge on which the flag has the
	// tested value comes out of the receive case
	for _, g := range core.Guards(at.Block()) {
		cnd, pol := core.StripNot(g.Cond, g.Polarity)
		ph, ok := cnd.(*ssa.Phi)
		if !ok {
			continue
		}
		all, some := true, false
		for i, e := range ph.Edges {
			v, isC := core.ConstBool(e)
			if !isC {
				all = false
				break
			}
			if v != pol {
				continue
			}
			some = true
			if !anyGuard(ph.Block().Preds[i], isCase) {
				all = false
			}
		}
		if all && some {
			return true
		}
	}
	fn := at.Parent()
	for _, b := range fn.Blocks {
		for _, in := range b.Instrs {
			if u, ok := in.(*ssa.UnOp); ok && u.Op == token.ARROW && fieldChan(u.X) && core.DominatesInstr(in, at) {
				return true
			}
		}
	}
	return false
}

// mediaTypeSwitches extracts, from the syntax of fn and its closures, the constant sets of the case
// clauses of switches over a `.MediaType` selector, keyed by whether the clause handles a manifest
// (its body builds or fetches a manifest or recurses) or a blob.
func mediaTypeSwitches(p *core.Prog, fn *ssa.Function) (manifests map[string]bool, found bool) {
	manifests = map[string]bool{}
	syn := p.Syntax(fn)
	if syn == nil {
		return nil, false
	}
	info := syn.Pkg.TypesInfo
	ast.Inspect(syn.Body(), func(n ast.Node) bool {
		sw, ok := n.(*ast.SwitchStmt)
		if !ok || sw.Tag == nil {
			return true
		}
		se, ok := sw.Tag.(*ast.SelectorExpr)
		if !ok || se.Sel.Name != "MediaType" {
			return true
		}
		for _, cl := range sw.Body.List {
			cc := cl.(*ast.CaseClause)
			if len(cc.List) == 0 {
				continue
			}
			isMan := false
			for _, st := range cc.Body {
				ast.Inspect(st, func(x ast.Node) bool {
					if call, ok := x.(*ast.CallExpr); ok {
						s := types.ExprString(call.Fun)
						if strings.Contains(s, "ManifestGet") || strings.Contains(s, "manifest.New") || strings.HasSuffix(s, "."+fn.Name()) || strings.Contains(s, "imageCopyOpt") || strings.Contains(s, "HandleManifest") {
							isMan = true
						}
					}
					return true
				})
			}
			if !isMan {
				continue
			}
			found = true
			for _, e := range cc.List {
				if tv, ok := info.Types[e]; ok && tv.Value != nil && tv.Value.Kind() == constant.String {
					manifests[constant.StringVal(tv.Value)] = true
				}
			}
		}
		return true
	})
	return manifests, found
}

func c03R5(p *core.Prog, r *core.Report, rule string) {
	r.Rule(rule, "media-type table agreement: copy, import and export treat the same set of media types as manifests (a type known to one and not to another is copied as an opaque blob or not descended into)", 1)
	ts := traversals(p)
	sets := map[string]map[string]bool{}
	var noSwitch []string
	for _, n := range []string{"copy", "export", "import"} {
		fn := ts[n]
		if fn == nil {
			r.MissingAnchor(rule, n+" traversal")
			return
		}
		// the switch may have moved into an unexported helper called from the traversal or its literals
		m, ok := map[string]bool{}, false
		tops := map[*ssa.Function]bool{}
		for h := range unitFuncs(fn, 3, nil) {
			for h.Parent() != nil {
				h = h.Parent()
			}
			tops[h] = true
		}
		for _, h := range sortedFuncs(tops) {
			if mm, found := mediaTypeSwitches(p, h); found {
				ok = true
				for k := range mm {
					m[k] = true
				}
			}
		}
		if !ok {
			noSwitch = append(noSwitch, n)
			continue
		}
		sets[n] = m
	}
	if len(noSwitch) > 0 {
		// The table of a traversal may be written as predicates (`isManifestType(mt)` over a list) or an
		// if-chain. Its case sets cannot be read off then; what is still decided is the necessary
		// half: every manifest media type of the traversals that do have a switch is named in this
		// traversal (its literals, the package helpers it calls, the package-level lists they use).
		ref := map[string]bool{}
		for _, m := range sets {
			for k := range m {
				ref[k] = true
			}
		}
		if len(ref) == 0 {
			r.Undecided(rule, p.FuncName(ts[noSwitch[0]]), "manifest media types", p.Pos(ts[noSwitch[0]].Pos()), "no switch over a descriptor's MediaType with a manifest-handling case found in any traversal")
			return
		}
		for _, n := range noSwitch {
			fn := ts[n]
			mentioned := map[string]bool{}
			collect := func(f *ssa.Function) {
				for _, b := range f.Blocks {
					for _, in := range b.Instrs {
						for _, op := range in.Operands(nil) {
							if op == nil || *op == nil {
								continue
							}
							if sv, ok := core.ConstString(*op); ok {
								mentioned[sv] = true
							}
							if g, ok := (*op).(*ssa.Global); ok && g.Pkg != nil && g.Pkg.Func("init") != nil && p.InModule(g.Pkg.Func("init")) {
								for _, ib := range g.Pkg.Func("init").Blocks {
									for _, iin := range ib.Instrs {
										for _, iop := range iin.Operands(nil) {
											if iop != nil && *iop != nil {
												if sv, ok := core.ConstString(*iop); ok {
													mentioned[sv] = true
												}
											}
										}
									}
								}
							}
						}
					}
				}
			}
			for h := range unitFuncs(fn, 3, nil) {
				collect(h)
			}
			var missing []string
			for k := range ref {
				if !mentioned[k] {
					missing = append(missing, k)
				}
			}
			sort.Strings(missing)
			r.Check(len(missing) == 0, rule, p.FuncName(fn), "manifest media types agree with copy", p.Pos(fn.Pos()),
				"the "+n+" traversal has no switch over the media type (predicates or an if-chain); of the manifest media types the other traversals handle, it does not name: "+strings.Join(missing, ", "))
		}
		if sets["copy"] == nil {
			return
		}
	}
	render := func(m map[string]bool) string {
		var s []string
		for k := range m {
			s = append(s, strings.TrimPrefix(k, "application/vnd."))
		}
		sort.Strings(s)
		return strings.Join(s, ",")
	}
	for _, n := range []string{"export", "import"} {
		if sets[n] == nil {
			continue
		}
		diff := []string{}
		for k := range sets["copy"] {
			if !sets[n][k] {
				diff = append(diff, k+" (copy only)")
			}
		}
		for k := range sets[n] {
			if !sets["copy"][k] {
				diff = append(diff, k+" ("+n+" only)")
			}
		}
		sort.Strings(diff)
		r.Check(len(diff) == 0, rule, p.FuncName(ts[n]), "manifest media types agree with copy", p.Pos(ts[n].Pos()),
			fmt.Sprintf("copy: {%s}; %s: {%s}; differences: %s", render(sets["copy"]), n, render(sets[n]), strings.Join(diff, "; ")))
	}
}

// c03R6: in-place filtering (`ret := in[:0]; ret = append(ret, …)`) writes into the caller's backing
// array; a caller that filters one list several times loses entries.
func c03R6(p *core.Prog, r *core.Report, rule string) {
	r.Rule(rule, "list filters do not reuse their input's backing array: no append to a zero-length re-slice of a slice parameter in the descriptor / scheme / referrer packages", 3)
	n := 0
	for _, rel := range []string{"types/descriptor", "scheme", "types/referrer", "types/manifest"} {
		for _, fn := range pkgFuncs(p, rel) {
			if fn.Signature.Results().Len() == 0 {
				continue
			}
			returnsSlice := false
			for i := 0; i < fn.Signature.Results().Len(); i++ {
				if _, ok := fn.Signature.Results().At(i).Type().Underlying().(*types.Slice); ok {
					returnsSlice = true
				}
			}
			if !returnsSlice {
				continue
			}
			n++
			bad := ""
			for _, b := range fn.Blocks {
				for _, in := range b.Instrs {
					sl, ok := in.(*ssa.Slice)
					if !ok || sl.High == nil {
						continue
					}
					if k, isK := core.ConstInt(sl.High); !isK || k != 0 {
						continue
					}
					for _, o := range core.Origins(sl.X, core.SliceOpts{}) {
						if o.Kind == core.OParam {
							bad = p.Pos(sl.Pos())
						}
					}
				}
			}
			if bad != "" {
				r.Violated(rule, p.FuncName(fn), "fresh result slice", bad, "the result is built in `param[:0]`: appending overwrites the caller's list, so filtering the same list again (several referrer filters, cached referrer lists) silently loses entries")
			} else {
				r.Held(rule, p.FuncName(fn), "fresh result slice", p.Pos(fn.Pos()), "no zero-length re-slice of a parameter")
			}
		}
	}
	if n == 0 {
		r.MissingAnchor(rule, "slice-returning functions")
	}
}

// reachesValue: the backward slice of v (through loads, phis and extracts) contains target.
func reachesValue(v ssa.Value, target ssa.Value) bool {
	seen := map[ssa.Value]bool{}
	var walk func(x ssa.Value, d int) bool
	walk = func(x ssa.Value, d int) bool {
		if x == nil || d > 10 || seen[x] {
			return false
		}
		seen[x] = true
		if x == target {
			return true
		}
		switch y := x.(type) {
		case *ssa.UnOp:
			return walk(y.X, d+1)
		case *ssa.Phi:
			for _, e := range y.Edges {
				if walk(e, d+1) {
					return true
				}
			}
		case *ssa.Extract:
			return walk(y.Tuple, d+1)
		case *ssa.FieldAddr:
			return walk(y.X, d+1)
		case *ssa.Field:
			return walk(y.X, d+1)
		case *ssa.Alloc:
			for _, st := range core.StoresToCell(y) {
				if walk(st.Val, d+1) {
					return true
				}
			}
		}
		return false
	}
	return walk(v, 0)
}

// ---------------------------------------------------------------------------------------------
// R7 the target's existence test is answered by the target

// emptySlice: nil, or a slice of a zero-length array / make with length 0.
func emptySlice(v ssa.Value) bool {
	switch x := v.(type) {
	case *ssa.Const:
		return x.IsNil()
	case *ssa.Slice:
		if al, ok := x.X.(*ssa.Alloc); ok {
			if pt, ok := al.Type().Underlying().(*types.Pointer); ok {
				if at, ok := pt.Elem().Underlying().(*types.Array); ok {
					return at.Len() == 0
				}
			}
		}
	case *ssa.MakeSlice:
		n, ok := core.ConstInt(x.Len)
		return ok && n == 0
	}
	return false
}

func c03R7(p *core.Prog, r *core.Report, rule string) {
	r.Rule(rule, "in BlobCopy the 'already at the target' test (BlobHead on the target reference) is given a copy of the descriptor whose URLs field has been overwritten with an empty list: a registry BlobHead falls back to the descriptor's external URLs, so with the caller's descriptor a third-party server would answer for the target and the layer would be skipped", 1)
	fn := p.Method(".", "RegClient", "BlobCopy")
	if fn == nil {
		r.MissingAnchor(rule, "regclient.(*RegClient).BlobCopy")
		return
	}
	fname := p.FuncName(fn)
	var refs []*ssa.Parameter
	for _, pr := range fn.Params {
		if core.IsModNamed(pr.Type(), "types/ref", "Ref") {
			refs = append(refs, pr)
		}
	}
	if len(refs) != 2 {
		r.Undecided(rule, fname, "source/target parameters", p.Pos(fn.Pos()), "expected two reference parameters")
		return
	}
	tgt := refs[1]
	n := 0
	lab := labeler{}
	core.Calls(fn, func(c ssa.CallInstruction) {
		cal := core.Callee(c)
		if cal == nil || !core.IsClientOp(cal, "BlobHead") {
			return
		}
		if !core.HasOrigin(core.Origins(core.CallArg(c, 2), core.SliceOpts{}), func(o core.Origin) bool { return o.Kind == core.OParam && o.Param == tgt }) {
			return
		}
		n++
		label := lab.next("BlobHead on the target")
		arg := core.CallArg(c, 3)
		ld, ok := arg.(*ssa.UnOp)
		var cell *ssa.Alloc
		if ok && ld.Op == token.MUL {
			cell, _ = ld.X.(*ssa.Alloc)
		}
		if cell == nil {
			r.Violated(rule, fname, label, p.Pos(c.Pos()), "the descriptor is passed as received (not a local copy with its URLs cleared)")
			return
		}
		cleared := false
		if refsTo := cell.Referrers(); refsTo != nil {
			for _, rf := range *refsTo {
				fa, ok := rf.(*ssa.FieldAddr)
				if !ok || core.FieldName(fa.X.Type(), fa.Field) != "URLs" {
					continue
				}
				for _, u := range *fa.Referrers() {
					if st, ok := u.(*ssa.Store); ok && st.Addr == fa && emptySlice(st.Val) && core.DominatesInstr(st, c) {
						// no later whole-cell store between the clearing and the call
						later := false
						for _, ws := range core.StoresToCell(cell) {
							if core.DominatesInstr(st, ws) && (core.Reach{}).FromInstr(ws)[c.(ssa.Instruction)] {
								later = true
							}
						}
						if !later {
							cleared = true
						}
					}
				}
			}
		}
		r.Check(cleared, rule, fname, label, p.Pos(c.Pos()), "the descriptor handed to the target's BlobHead is a local copy whose URLs were set to an empty list before the call")
	})
	if n == 0 {
		r.Held(rule, fname, "no existence test on the target", p.Pos(fn.Pos()), "BlobCopy does not ask the target whether the blob exists; nothing can be answered by a third party")
	}
}

// c03R16: an index entry whose media type is not in the table could be a manifest (an artifact
// manifest of a type this client does not know) or a blob. Trying it as a manifest first is what
// makes its config, layers and nested entries part of the copy: where manifests can be read through
// the blob API (layouts, layout-backed registries, a mount) a blob copy of a manifest succeeds, and
// nothing below it is copied while the copy reports success.
func c03R16(p *core.Prog, r *core.Report, trav *ssa.Function, rule string) {
	r.Rule(rule, "unknown entries are tried as a manifest first: where a goroutine of the copy traversal copies one descriptor both with the traversal itself and as a blob, the blob copy is reachable only from the failure edge of the manifest copy", 1)
	n := 0
	for _, g := range core.WithAnon(trav) {
		var recs, blobs []*ssa.Call
		core.Calls(g, func(c ssa.CallInstruction) {
			call, ok := c.(*ssa.Call)
			if !ok {
				return
			}
			switch gfn := core.CalleeFn(c); {
			case gfn == trav:
				recs = append(recs, call)
			case gfn != nil && canon(gfn) == "imageCopyBlob":
				blobs = append(blobs, call)
			}
		})
		lab := labeler{}
		for _, bc := range blobs {
			for _, rc := range recs {
				// the same descriptor: some argument of the blob copy is also an argument of the recursion
				same := false
				for _, a := range bc.Call.Args {
					if !core.IsModNamed(a.Type(), "types/descriptor", "Descriptor") {
						continue
					}
					for _, b := range rc.Call.Args {
						if a == b {
							same = true
							continue
						}
						if !core.IsModNamed(b.Type(), "types/descriptor", "Descriptor") {
							continue
						}
						// two loads of one variable
						oa := map[ssa.Value]bool{}
						for _, o := range core.Origins(a, core.SliceOpts{}) {
							if o.Val != nil {
								oa[o.Val] = true
							}
						}
						for _, o := range core.Origins(b, core.SliceOpts{}) {
							if o.Val != nil && oa[o.Val] {
								same = true
							}
						}
					}
				}
				if !same {
					continue
				}
				// only where one of the two copies can follow the other (the same case of the switch)
				if !(core.Reach{}).FromInstr(rc)[bc] && !(core.Reach{}).FromInstr(bc)[rc] {
					continue
				}
				n++
				ok := false
				for _, e := range errEdgesOf(g, rc) {
					if (core.Reach{}).FromEdge(e[0], e[1])[bc] {
						ok = true
					}
				}
				// and not reachable on a path that never made the manifest copy
				if ok {
					entry := core.Reach{Stop: func(in ssa.Instruction) bool { return in == ssa.Instruction(rc) }}.FromEntry(g)
					if entry[bc] {
						ok = false
					}
				}
				r.Check(ok, rule, p.FuncName(g), lab.next("manifest copy before blob copy"), p.Pos(bc.Pos()),
					"the blob copy of this entry does not (only) follow a failed manifest copy of it: an entry that is a manifest of an unknown type is stored as an opaque blob and what it references is never copied")
			}
		}
	}
	if n == 0 {
		r.Held(rule, p.FuncName(trav), "manifest copy before blob copy", p.Pos(trav.Pos()), "no goroutine copies one descriptor both ways")
	}
}

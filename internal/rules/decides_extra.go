package rules

// decidesExtra: sentences appended to Spec.Decides for the rules added after the third round of
// seeded changes (kept apart from the specs so that each addition is visible as such).
var decidesExtra = map[string]string{
	"C01": " No blob reader is consumed up to a byte count (io.CopyN and the like); inline data of a descriptor reaches module code only through GetData.",
	"C02": " The bytes given to manifest.WithRaw are never the result of a rewriting function; a body the constructor refused is not handed to it again.",
	"C03": " The layout answers a head request only after looking at the blob file; what was learned about one repository's referrers API is keyed by that repository.",
	"C04": " Index entries of manifest type are copied as manifests: the copy's media-type switch agrees with import and export.",
	"C05": " The reader BlobCopy hands to BlobPut can seek.",
	"C06": " An index entry is removed only under an exact comparison of its own annotation (or digest) with what was asked for, and is never matched by an empty tag; every origin of the digest the tag-delete fallback deletes is the placeholder.",
	"C07": " A temp file is created in the directory of its final name.",
	"C08": " An index entry is marked before the collector tries to load it; temp files are created where the sweep looks.",
	"C09": " A layout target keeps blob-typed index entries across Close.",
	"C10": " Every access to a struct-keyed cache of scheme/reg builds its key with the same fields.",
	"C11": " No code outside package config stores TLSDisabled into a host entry.",
	"C12": " The blob GET declares the expected length so that a truncated body is resumed.",
	"C13": " A push by digest into a layout cannot replace the untagged entries of other images.",
	"C14": " The target is asked before the source manifest is fetched, on every path; the layout resolves the target tag exactly.",
	"C16": " A platform parsed from a request is handed on, not dropped.",
	"C17": " No function of scheme/reg sends another request while a response it obtained is still open.",
	"C20": " A layout directory is only ever put into a reference by the reference parsers.",
}

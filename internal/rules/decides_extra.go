package rules

// decidesExtra: sentences appended to Spec.Decides for the rules added after the third round of
// seeded changes (kept apart from the specs so that each addition is visible as such).
var decidesExtra = map[string]string{
	"C01": " No blob reader is consumed up to a byte count (io.CopyN and the like); inline data of a descriptor reaches module code only through GetData. The limit reader reports an end of stream only when its source did (or behind the limit test); a deferred clean-up does not replace the error the body returned.",
	"C02": " The bytes given to manifest.WithRaw are never the result of a rewriting function; a body the constructor refused is not handed to it again. The manifest cache never stores a manifest rebuilt from a struct; a digest pinned in the reference is not overridden by a response header.",
	"C03": " The layout answers a head request only after looking at the blob file; what was learned about one repository's referrers API is keyed by that repository. A caller that finds content in flight is told it is there only after the first copier has finished; filtered referrer listings are not cached under the subject; the tag listing ends only on the limit, an error, or a page without a next link.",
	"C04": " Index entries of manifest type are copied as manifests: the copy's media-type switch agrees with import and export. The barrier never replaces a collected failure by a later completion unless that completion is itself a failure; a Close with a cancelled context after an interrupted copy cannot sweep what other tags need.",
	"C05": " The reader BlobCopy hands to BlobPut can seek. The layout upload writes into a CreateTemp file; a connection reset in an upload session is retried on the registry.",
	"C06": " An index entry is removed only under an exact comparison of its own annotation (or digest) with what was asked for, and is never matched by an empty tag; every origin of the digest the tag-delete fallback deletes is the placeholder. The layout's sweep runs under the mutex that every writer of the index takes.",
	"C07": " A temp file is created in the directory of its final name. The index reader never refuses an index it has parsed while the updater replaces unreadable ones; a manifest is not published into a layout while a blob it shares is in flight.",
	"C08": " An index entry is marked before the collector tries to load it; temp files are created where the sweep looks. Nothing a loader calls whose failure the mark phase passes over consults the context.",
	"C09": " A layout target keeps blob-typed index entries across Close.",
	"C10": " Every access to a struct-keyed cache of scheme/reg builds its key with the same fields. A filtered query builds its answer in fresh storage; every ReferrerList call of the client is answered by a scheme call made by that very call.",
	"C11": " No code outside package config stores TLSDisabled into a host entry. The existence test of BlobCopy does not offer the target's login to the hosts named in a layer's external URLs.",
	"C12": " The blob GET declares the expected length so that a truncated body is resumed. A transport failure is retried on the same host after the backoff.",
	"C13": " A push by digest into a layout cannot replace the untagged entries of other images. Where the diff-id digester is fed by a tee and the stream goes on to the compressor, nothing sits between the two.",
	"C14": " The target is asked before the source manifest is fetched, on every path; the layout resolves the target tag exactly. The layout's existence tests follow links as its reads do.",
	"C16": " A platform parsed from a request is handed on, not dropped. A value remembered by a per-image step does not depend on the image it was computed for.",
	"C17": " No function of scheme/reg sends another request while a response it obtained is still open. A sync.Map of queues is only filled with LoadOrStore.",
	"C20": " A layout directory is only ever put into a reference by the reference parsers.",
	"C18": " The layout resolves a tag exactly before any loose match.",
	"C19": " Nothing but the flag binding writes the dry-run option; the runner never asserts the type of a script-controlled value without the comma-ok form.",
}

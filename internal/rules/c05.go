package rules

import (
	"fmt"
	"go/token"
	"go/types"
	"strings"

	"golang.org/x/tools/go/ssa"

	"verif/internal/core"
)

func init() {
	register(&Spec{
		ID: "C05",
		Decides: "layout: the bytes written to the temp file are the caller's whole stream teed into the digester (no truncating wrapper), and the rename is unreachable from the digest-mismatch and size-mismatch edges; registry (chunked): the closing PUT is unreachable from the digest-mismatch and size-mismatch edges, its digest parameter and the returned descriptor come from the digester and the byte counter; " +
			"the chunked fall-back after a failed single PUT is reachable only through a successful rewind, the other edges cancel the upload, and the fall-back is skipped only over a branch about whether the source can be rewound; the body function of the single PUT rewinds or refuses a retry; every failure of an upload step cancels the session before returning.",
		NotCovered: "the four coupled offsets of the chunk loop for every (length, chunk size, accepted range) triple (seeded change C05-1 is numeric and not detected), server minimum-chunk handling, that a conforming server checks the digest of a single PUT.",
		Run:        runC05,
	})
}

func runC05(p *core.Prog, r *core.Report) {
	c05R1(p, r)
	c05R2(p, r)
	c05R3(p, r)
	c05R6(p, r, "C05.R6")
	afterFailureRule(p, r, "C05.R7")
	// the layout upload writes into a file nobody else can have open: a temp file with a fresh name (shared with C07.R1)
	c07R1(p, r, "C05.R8")
	// a connection reset in the middle of the session is retried, not answered by giving up the only host (shared with C12.R10)
	transportRetryRule(p, r, "C05.R9")
	readKeepsSourceRule(p, r, "C05.R10")
}

// afterFailureRule: when the last upload step failed, the upload is over. The function cancels the
// session and returns the error; it does not go on to do what it does after a successful upload
// (record the blob as present, log it as pushed, …).
func afterFailureRule(p *core.Prog, r *core.Report, rule string) {
	r.Rule(rule, "a failed upload ends the call: from the failure edge of the chunked upload in the registry scheme's BlobPut no function of the scheme other than the cancel request is called before the return", 1)
	fn := p.Method("scheme/reg", "Reg", "BlobPut")
	if fn == nil {
		r.MissingAnchor(rule, "scheme/reg.(*Reg).BlobPut")
		return
	}
	var chunked *ssa.Call
	core.Calls(fn, func(c ssa.CallInstruction) {
		if g := core.CalleeFn(c); g != nil && canon(g) == "blobPutUploadChunked" {
			chunked, _ = c.(*ssa.Call)
		}
	})
	if chunked == nil {
		r.MissingAnchor(rule, "chunked upload step in BlobPut")
		return
	}
	// a helper that only logs or formats is not "going on"
	var inert func(g *ssa.Function, d int) bool
	inert = func(g *ssa.Function, d int) bool {
		if len(g.Blocks) == 0 || d > 2 {
			return false
		}
		ok := true
		for _, b := range g.Blocks {
			for _, in := range b.Instrs {
				switch x := in.(type) {
				case *ssa.MapUpdate:
					ok = false
				case *ssa.Store:
					if _, isField := x.Addr.(*ssa.FieldAddr); isField {
						if _, local := x.Addr.(*ssa.FieldAddr).X.(*ssa.Alloc); !local {
							ok = false
						}
					}
				case ssa.CallInstruction:
					if h := core.CalleeFn(x); h != nil && p.InModule(h) && !inert(h, d+1) {
						ok = false
					}
					if x.Common().IsInvoke() {
						if m := x.Common().Method; m != nil && m.Pkg() != nil && strings.HasPrefix(m.Pkg().Path(), modPath(".")) {
							ok = false
						}
					}
				}
			}
		}
		return ok
	}
	bad := ""
	edges := errEdgesOf(fn, chunked)
	for _, e := range edges {
		for in := range (core.Reach{}).FromEdge(e[0], e[1]) {
			c, ok := in.(ssa.CallInstruction)
			if !ok {
				continue
			}
			g := core.CalleeFn(c)
			if g == nil || core.FuncPkg(g) != core.FuncPkg(fn) || isCancelFn(g) || inert(g, 0) {
				continue
			}
			bad = g.Name() + " at " + p.Pos(in.Pos())
		}
	}
	if len(edges) == 0 {
		// no branch on the error: everything after the step runs on failure as well
		for in := range (core.Reach{}).FromInstr(chunked) {
			c, ok := in.(ssa.CallInstruction)
			if !ok {
				continue
			}
			g := core.CalleeFn(c)
			if g == nil || core.FuncPkg(g) != core.FuncPkg(fn) || isCancelFn(g) || inert(g, 0) {
				continue
			}
			if _, isDefer := in.(*ssa.Defer); isDefer {
				continue
			}
			bad = g.Name() + " at " + p.Pos(in.Pos())
		}
	}
	r.Check(bad == "", rule, p.FuncName(fn), "nothing but cancel after a failed upload", p.Pos(chunked.Pos()), "after the chunked upload failed the function still calls "+bad+": what is meant for a blob that was stored (for instance remembering it as present) happens for one that was not")
}

// c05R6: the fall-back from a single request to a chunked transfer, and the resend of a request body
// after a transient failure, rewind the source. Where the client itself uploads a blob it fetched
// (BlobCopy), the value it hands to BlobPut must be able to seek.
func c05R6(p *core.Prog, r *core.Report, rule string) {
	r.Rule(rule, "the copy hands over a rewindable source: in the client's BlobCopy the reader given to BlobPut has a static type with a Seek method (a wrapper that only reads takes the fall-back to a chunked transfer and the resend after a transient failure away)", 1)
	fn := p.Method(".", "RegClient", "BlobCopy")
	if fn == nil {
		r.MissingAnchor(rule, "regclient.(*RegClient).BlobCopy")
		return
	}
	n := 0
	lab := labeler{}
	for _, f := range sortedFuncs(unitFuncs(fn, 2, nil)) {
		for _, c := range core.CallsTo(f, func(cal *types.Func) bool { return core.IsClientOp(cal, "BlobPut") }) {
			n++
			arg := core.CallArg(c, 4)
			// every concrete or interface type the argument can have before it became an io.Reader
			bad := ""
			for _, o := range core.Origins(arg, core.SliceOpts{}) {
				t := o.Val.Type()
				if mi, ok := o.Val.(*ssa.MakeInterface); ok {
					t = mi.X.Type()
				}
				if !hasMethod(t, "Seek") {
					bad = t.String()
				}
			}
			if t := underIface(arg).Type(); bad == "" && !hasMethod(t, "Seek") && len(core.Origins(arg, core.SliceOpts{})) == 0 {
				bad = t.String()
			}
			r.Check(bad == "", rule, p.FuncName(f), lab.next("source of BlobPut"), p.Pos(c.Pos()), "the upload source is a "+bad+", which cannot seek: after a refused or failed single PUT the registry scheme can neither fall back to a chunked upload nor resend the body")
		}
	}
	if n == 0 {
		r.MissingAnchor(rule, "BlobPut call in BlobCopy")
	}
}

func hasMethod(t types.Type, name string) bool {
	for _, tt := range []types.Type{t, types.NewPointer(t)} {
		ms := types.NewMethodSet(tt)
		for i := 0; i < ms.Len(); i++ {
			if ms.At(i).Obj().Name() == name {
				return true
			}
		}
	}
	return false
}

// mismatchEdges returns the edges on which a comparison satisfying pred found a difference.
func mismatchEdges(fn *ssa.Function, pred func(bo *ssa.BinOp) bool) [][2]*ssa.BasicBlock {
	var out [][2]*ssa.BasicBlock
	for _, b := range fn.Blocks {
		ifi, ok := core.LastInstr(b).(*ssa.If)
		if !ok {
			continue
		}
		cnd, pol := core.StripNot(ifi.Cond, true)
		bo, ok := cnd.(*ssa.BinOp)
		if !ok || (bo.Op != token.NEQ && bo.Op != token.EQL) || !pred(bo) {
			continue
		}
		// the successor taken when the two sides differ
		if (bo.Op == token.NEQ) == pol {
			out = append(out, [2]*ssa.BasicBlock{b, b.Succs[0]})
		} else {
			out = append(out, [2]*ssa.BasicBlock{b, b.Succs[1]})
		}
	}
	return out
}

// mismatchEdgesIn is mismatchEdges over a set of functions.
func mismatchEdgesIn(scope map[*ssa.Function]bool, pred func(bo *ssa.BinOp) bool) [][2]*ssa.BasicBlock {
	var out [][2]*ssa.BasicBlock
	for _, f := range sortedFuncs(scope) {
		out = append(out, mismatchEdges(f, pred)...)
	}
	return out
}

// fromDigesterIn is fromDigester that looks through the helpers of scope.
func fromDigesterIn(v ssa.Value, scope map[*ssa.Function]bool) bool {
	for _, o := range core.Origins(v, core.SliceOpts{Helpers: scope}) {
		if o.Kind == core.OCall {
			if cal := o.Callee(); cal != nil && cal.Name() == "Digest" && core.IsNamed(core.CallArg(o.Call, 0).Type(), "github.com/opencontainers/go-digest", "Digester") {
				return true
			}
		}
	}
	return false
}

func fromDigester(v ssa.Value) bool {
	for _, oc := range originCalls(v) {
		if cal := core.Callee(oc); cal != nil && cal.Name() == "Digest" && core.IsNamed(core.CallArg(oc, 0).Type(), "github.com/opencontainers/go-digest", "Digester") {
			return true
		}
	}
	return false
}

func c05R1(p *core.Prog, r *core.Report) {
	const rule = "C05.R1"
	r.Rule(rule, "layout commit behind verification: the temp file receives the caller's whole stream teed into the digester; the rename is unreachable from the digest-mismatch and size-mismatch edges", 3)
	fn := p.Method(ocidirRel, "OCIDir", "BlobPut")
	if fn == nil {
		r.MissingAnchor(rule, ocidirRel+".(*OCIDir).BlobPut")
		return
	}
	fname := p.FuncName(fn)
	var rename ssa.Instruction
	var cp *ssa.Call
	// the copy into the temp file may live in an unexported helper that BlobPut hands the stream to
	scope := core.Helpers(fn, 1)
	for _, f := range sortedFuncs(scope) {
		core.Calls(f, func(c ssa.CallInstruction) {
			cal := core.Callee(c)
			if cal == nil {
				return
			}
			if isOS(cal, "Rename") && f == fn {
				rename = c.(ssa.Instruction)
			}
			if core.IsFunc(cal, "io", "Copy") || core.IsFunc(cal, "io", "CopyN") || core.IsFunc(cal, "io", "CopyBuffer") {
				cp, _ = c.(*ssa.Call)
			}
		})
	}
	if rename == nil || cp == nil {
		r.Undecided(rule, fname, "commit", p.Pos(fn.Pos()), "os.Rename / io.Copy not found")
		return
	}
	// the source of the copy: TeeReader(caller's reader, digester.Hash()), nothing else
	var rdrParam *ssa.Parameter
	for _, pr := range fn.Params {
		if core.IsNamed(pr.Type(), "io", "Reader") {
			rdrParam = pr
		}
	}
	okSrc := false
	detail := "the copy does not read from io.TeeReader(caller's reader, digester.Hash())"
	var walk func(v ssa.Value, depth int) bool
	walk = func(v ssa.Value, depth int) bool {
		if depth > 6 {
			return false
		}
		os := core.Origins(v, core.SliceOpts{Helpers: scope})
		if len(os) == 0 {
			return false
		}
		for _, o := range os {
			switch o.Kind {
			case core.OParam:
				if o.Param != rdrParam {
					return false
				}
			case core.OCall:
				cal := o.Callee()
				if cal == nil {
					return false
				}
				switch {
				case core.IsFunc(cal, "io", "TeeReader"), core.IsFunc(cal, "bufio", "NewReader"), core.IsFunc(cal, "bufio", "NewReaderSize"):
					if !walk(o.Call.Call.Args[0], depth+1) {
						return false
					}
				case core.IsFunc(cal, "io", "LimitReader"), core.IsFunc(cal, "io", "NewSectionReader"):
					detail = "the stream is wrapped in io." + cal.Name() + " before it is copied: bytes beyond the declared size are silently dropped, the size comparison can no longer see an over-long stream and the digest only covers the truncated part"
					return false
				default:
					detail = "the copied stream comes from " + core.ShortFunc(cal)
					return false
				}
			default:
				return false
			}
		}
		return true
	}
	src := cp.Call.Args[1]
	if rdrParam != nil && walk(src, 0) {
		// and a TeeReader into a digester is on the chain
		tee := false
		var findTee func(v ssa.Value, depth int)
		findTee = func(v ssa.Value, depth int) {
			if depth > 6 {
				return
			}
			var ocs []*ssa.Call
			for _, o := range core.Origins(v, core.SliceOpts{Helpers: scope}) {
				if o.Kind == core.OCall {
					ocs = append(ocs, o.Call)
				}
			}
			for _, oc := range ocs {
				cal := core.Callee(oc)
				if cal == nil {
					continue
				}
				if core.IsFunc(cal, "io", "TeeReader") {
					for _, h := range originCalls(oc.Call.Args[1]) {
						if hc := core.Callee(h); hc != nil && hc.Name() == "Hash" {
							tee = true
						}
					}
				}
				if len(oc.Call.Args) > 0 {
					findTee(oc.Call.Args[0], depth+1)
				}
			}
		}
		findTee(src, 0)
		// or the destination fans out: io.Copy(io.MultiWriter(temp file, digester.Hash()), caller's reader)
		for _, oc := range originCalls(cp.Call.Args[0]) {
			if cal := core.Callee(oc); cal != nil && core.IsFunc(cal, "io", "MultiWriter") && len(oc.Call.Args) == 1 {
				for _, w := range variadicElems(oc.Call.Args[0]) {
					for _, h := range originCalls(underIface(w)) {
						if hc := core.Callee(h); hc != nil && hc.Name() == "Hash" {
							tee = true
						}
					}
				}
			}
		}
		okSrc = tee
		if tee {
			detail = "the caller's whole stream reaches both the temp file and digester.Hash() (TeeReader on the source or MultiWriter on the destination)"
		}
	}
	r.Check(okSrc, rule, fname, "whole stream teed into the digester", p.Pos(cp.Pos()), detail)
	// mismatch edges
	dig := mismatchEdges(fn, func(bo *ssa.BinOp) bool {
		return isDigestType(bo.X.Type()) && (fromDigester(bo.X) || fromDigester(bo.Y))
	})
	size := mismatchEdges(fn, func(bo *ssa.BinOp) bool {
		// i != d.Size : one side is the byte count returned by the copy
		for _, side := range []ssa.Value{bo.X, bo.Y} {
			for _, o := range core.Origins(side, core.SliceOpts{Helpers: scope}) {
				if o.Kind == core.OCall && o.Call == cp && (o.Res == 0 || o.Res == -1) {
					return true
				}
			}
		}
		return false
	})
	reach := func(edges [][2]*ssa.BasicBlock) bool {
		for _, e := range edges {
			if (core.Reach{}).FromEdge(e[0], e[1])[rename] {
				return true
			}
		}
		return false
	}
	r.Check(len(dig) > 0 && !reach(dig), rule, fname, "rename behind the digest comparison", p.Pos(rename.Pos()), "the declared digest is compared with the digester's result and the mismatch edge cannot reach the rename")
	r.Check(len(size) > 0 && !reach(size), rule, fname, "rename behind the size comparison", p.Pos(rename.Pos()), "the declared size is compared with the number of bytes copied and the mismatch edge cannot reach the rename")
}

func c05R2(p *core.Prog, r *core.Report) {
	const rule = "C05.R2"
	r.Rule(rule, "registry commit behind verification: the closing PUT of a chunked upload is unreachable from the digest-mismatch and size-mismatch edges; its digest parameter and the returned descriptor come from the digester and the byte counter", 4)
	fn := p.Method("scheme/reg", "Reg", "blobPutUploadChunked")
	if fn == nil {
		r.MissingAnchor(rule, "scheme/reg.(*Reg).blobPutUploadChunked")
		return
	}
	fname := p.FuncName(fn)
	// the upload may be split over unexported helpers of the package (verification, commit)
	scope := core.Helpers(fn, 2)
	fromDig := func(v ssa.Value) bool { return fromDigesterIn(v, scope) }
	// the closing PUT: Do with a Req literal whose Method is PUT
	var put ssa.Instruction
	for _, f := range sortedFuncs(scope) {
		core.Calls(f, func(c ssa.CallInstruction) {
			cal := core.Callee(c)
			if cal == nil || !core.IsModMethod(cal, "internal/reghttp", "Client", "Do") {
				return
			}
			if al, ok := core.CallArg(c, 2).(*ssa.Alloc); ok {
				for _, ref := range *al.Referrers() {
					if fa, ok := ref.(*ssa.FieldAddr); ok && core.FieldName(fa.X.Type(), fa.Field) == "Method" {
						for _, r2 := range *fa.Referrers() {
							if st, ok := r2.(*ssa.Store); ok {
								if s, ok := core.ConstString(st.Val); ok && s == "PUT" {
									put = c.(ssa.Instruction)
								}
							}
						}
					}
				}
			}
		})
	}
	if put == nil {
		r.Undecided(rule, fname, "closing PUT", p.Pos(fn.Pos()), "no PUT request found")
		return
	}
	dig := mismatchEdgesIn(scope, func(bo *ssa.BinOp) bool {
		return isDigestType(bo.X.Type()) && (fromDig(bo.X) || fromDig(bo.Y))
	})
	size := mismatchEdgesIn(scope, func(bo *ssa.BinOp) bool {
		return isIntegerType(bo.X.Type()) && (dependsOnField(bo.X, modPath("types/descriptor"), "Descriptor", "Size") || dependsOnField(bo.Y, modPath("types/descriptor"), "Descriptor", "Size")) && !isConstZero(bo.Y) && !isConstZero(bo.X)
	})
	reach := func(edges [][2]*ssa.BasicBlock) bool {
		for _, e := range edges {
			if (core.DeepReach{Scope: scope}).FromEdge(e[0], e[1])[put] {
				return true
			}
		}
		return false
	}
	r.Check(len(dig) > 0 && !reach(dig), rule, fname, "PUT behind the digest comparison", p.Pos(put.Pos()), "the declared digest is compared with the digest of everything read; the mismatch edge cannot reach the closing PUT")
	r.Check(len(size) > 0 && !reach(size), rule, fname, "PUT behind the size comparison", p.Pos(put.Pos()), "the declared size is compared with the number of bytes sent; the mismatch edge cannot reach the closing PUT")
	// digest query parameter from the digester
	qOK := false
	dOK := false
	for _, f := range sortedFuncs(scope) {
		core.Calls(f, func(c ssa.CallInstruction) {
			cal := core.Callee(c)
			if cal == nil || !core.IsFunc(cal, "net/url", "QueryEscape") {
				return
			}
			for _, o := range core.Origins(c.Common().Args[0], core.SliceOpts{Helpers: scope}) {
				if o.Kind == core.OCall && o.Callee() != nil && o.Callee().Name() == "String" {
					recv := core.CallArg(o.Call, 0)
					if fromDig(recv) {
						qOK = true
					}
					// the descriptor's digest, which the comparison above has established to be the
					// computed one (or which was filled in from it)
					if dependsOnField(recv, modPath("types/descriptor"), "Descriptor", "Digest") && len(dig) > 0 && !reach(dig) {
						qOK = true
					}
					for _, o2 := range core.Origins(recv, core.SliceOpts{Helpers: scope}) {
						if o2.Kind == core.OField && o2.Field == "Digest" && len(dig) > 0 && !reach(dig) {
							qOK = true
						}
					}
				}
			}
		})
		// returned descriptor after the PUT: Digest stored from the digester
		for _, fs := range fieldStores([]*ssa.Function{f}, func(n *types.Named, fl string) bool { return n.Obj().Name() == "Descriptor" && fl == "Digest" }) {
			if fromDig(fs.Store.Val) {
				dOK = true
			}
		}
	}
	if !qOK {
		// any other way of building the query (url.Values{…}.Encode()): the String() of the computed
		// digest flows into the value stored into a URL's RawQuery
		for _, f := range sortedFuncs(scope) {
			core.Calls(f, func(c ssa.CallInstruction) {
				cal := core.Callee(c)
				call, isCall := c.(*ssa.Call)
				if !isCall || cal == nil || cal.Name() != "String" || !isDigestType(core.CallArg(c, 0).Type()) {
					return
				}
				recv := core.CallArg(c, 0)
				verified := len(dig) > 0 && !reach(dig) && (dependsOnField(recv, modPath("types/descriptor"), "Descriptor", "Digest"))
				if (fromDig(recv) || verified) && reachesRawQuery(call) {
					qOK = true
				}
			})
		}
	}
	r.Check(qOK, rule, fname, "digest parameter from the digester", p.Pos(put.Pos()), "the digest= parameter of the closing PUT is the digest computed over the bytes that were sent")
	r.Check(dOK, rule, fname, "returned digest from the digester", p.Pos(put.Pos()), "the descriptor returned on success carries the computed digest")
}

func isConstZero(v ssa.Value) bool {
	k, ok := core.ConstInt(v)
	return ok && k == 0
}

func c05R3(p *core.Prog, r *core.Report) {
	const rule = "C05.R3"
	r.Rule(rule, "fallback only after rewind, failures cancel: after a failed single PUT the chunked upload is reachable only through a successful Seek to the start; every failure edge of an upload step reaches a return only through the cancel request (or the fall-back); the single PUT's body function rewinds or refuses a retry", 4)
	fn := p.Method("scheme/reg", "Reg", "BlobPut")
	if fn == nil {
		r.MissingAnchor(rule, "scheme/reg.(*Reg).BlobPut")
		return
	}
	fname := p.FuncName(fn)
	var full, chunked *ssa.Call
	var seek ssa.Instruction
	core.Calls(fn, func(c ssa.CallInstruction) {
		if g := core.CalleeFn(c); g != nil {
			switch canon(g) {
			case "blobPutUploadFull":
				full, _ = c.(*ssa.Call)
			case "blobPutUploadChunked":
				chunked, _ = c.(*ssa.Call)
			}
		}
		if isInvoke(c, "Seek") {
			seek = c.(ssa.Instruction)
		}
	})
	helperRewind := false
	if full != nil && chunked != nil && seek == nil {
		// the rewind may be a predicate helper: `if !rewind(src) { cancel; return }`
		helperRewind = c05R3Helper(p, r, rule, fn, full, chunked)
	}
	if full == nil || chunked == nil || (seek == nil && !helperRewind) {
		r.Undecided(rule, fname, "upload steps", p.Pos(fn.Pos()), "single PUT, chunked upload and rewind not all found")
		return
	}
	isCancel := func(in ssa.Instruction) bool {
		c, ok := in.(ssa.CallInstruction)
		if !ok {
			return false
		}
		g := core.CalleeFn(c)
		return g != nil && isCancelFn(g)
	}
	// the cancel may be deferred behind a flag: `abandon := false; defer func(){ if abandon { cancel } }()`.
	// Setting the flag then counts as the cancel.
	flagCells := map[*ssa.Alloc]bool{}
	core.Calls(fn, func(c ssa.CallInstruction) {
		d, ok := c.(*ssa.Defer)
		if !ok {
			return
		}
		mc, ok := d.Call.Value.(*ssa.MakeClosure)
		if !ok {
			return
		}
		lit, _ := mc.Fn.(*ssa.Function)
		if lit == nil {
			return
		}
		for i, bnd := range mc.Bindings {
			cell, ok := bnd.(*ssa.Alloc)
			if !ok || i >= len(lit.FreeVars) {
				continue
			}
			if pt, ok := cell.Type().Underlying().(*types.Pointer); !ok || !types.Identical(pt.Elem().Underlying(), types.Typ[types.Bool]) {
				continue
			}
			fv := lit.FreeVars[i]
			for _, b := range lit.Blocks {
				for _, in := range b.Instrs {
					if !isCancel(in) {
						continue
					}
					if guardedBy(b, true, func(v ssa.Value) bool {
						u, ok := v.(*ssa.UnOp)
						return ok && u.Op == token.MUL && u.X == ssa.Value(fv)
					}) {
						flagCells[cell] = true
					}
				}
			}
		}
	})
	setsFlag := func(in ssa.Instruction, step *ssa.Call) bool {
		st, ok := in.(*ssa.Store)
		if !ok {
			return false
		}
		cell, ok := st.Addr.(*ssa.Alloc)
		if !ok || !flagCells[cell] {
			return false
		}
		if b, isC := core.ConstBool(st.Val); isC && b {
			return true
		}
		// flag = err != nil, err being the step's own error
		if step != nil {
			if x, neq, isNil := errCmpNil(st.Val); isNil && neq {
				for _, oc := range originCalls(x) {
					if oc == step {
						return true
					}
				}
			}
		}
		return false
	}
	// (a) chunked only via the Seek
	if !helperRewind {
		ok := true
		for _, e := range errEdgesOf(fn, full) {
			if (core.Reach{Stop: func(in ssa.Instruction) bool { return in == seek }}).FromEdge(e[0], e[1])[chunked] {
				ok = false
			}
		}
		r.Check(ok && len(errEdgesOf(fn, full)) > 0, rule, fname, "fall-back passes the rewind", p.Pos(chunked.Pos()), "from the failure edge of the single PUT the chunked upload is only reachable through Seek(0, SeekStart) on the source")
		// (b) seek failure edges do not reach chunked
		sc := seek.(*ssa.Call)
		ok = len(errEdgesOf(fn, sc)) > 0
		for _, e := range errEdgesOf(fn, sc) {
			if (core.Reach{}).FromEdge(e[0], e[1])[chunked] {
				ok = false
			}
		}
		// the position reached by the rewind is compared with 0 (as a branch or into a flag that is
		// branched on later); with that comparison failing, the chunked upload is unreachable
		ncmp := 0
		for _, b := range fn.Blocks {
			for _, in := range b.Instrs {
				bo, isCmp := in.(*ssa.BinOp)
				if !isCmp || (bo.Op != token.EQL && bo.Op != token.NEQ) || !isConstZero(bo.Y) {
					continue
				}
				fromSeek := false
				for _, o := range core.Origins(bo.X, core.SliceOpts{}) {
					if o.Kind == core.OCall && o.Call == sc && o.Res == 0 {
						fromSeek = true
					}
				}
				if !fromSeek {
					continue
				}
				ncmp++
				if (core.Reach{Assume: map[ssa.Value]bool{bo: bo.Op == token.NEQ}}).FromInstr(bo)[chunked] {
					ok = false
				}
			}
		}
		if ncmp == 0 {
			ok = false // the position reached by the rewind is not compared with 0
		}
		r.Check(ok, rule, fname, "no fall-back after a failed rewind", p.Pos(seek.Pos()), "when the source cannot be rewound to offset 0 the chunked upload (which would send a stream missing its beginning) is unreachable")
	}
	// (e) the fall-back is taken whenever the source can be rewound: from the failure edge of the single
	// PUT, a return is reachable without the chunked upload only over a branch that concerns nothing but
	// whether the source can be rewound (not seekable, seek failed, not at offset 0) or a cancelled context
	{
		var rewindOnly func(v ssa.Value, d int) bool
		rewindOnly = func(v ssa.Value, d int) bool {
			if d > 8 {
				return false
			}
			switch x := v.(type) {
			case *ssa.Const:
				return true
			case *ssa.UnOp:
				return x.Op == token.NOT && rewindOnly(x.X, d+1)
			case *ssa.BinOp:
				return rewindOnly(x.X, d+1) && rewindOnly(x.Y, d+1)
			case *ssa.Extract:
				return rewindOnly(x.Tuple, d+1)
			case *ssa.Phi:
				for _, e := range x.Edges {
					if !rewindOnly(e, d+1) {
						return false
					}
				}
				return true
			case *ssa.TypeAssert:
				if it, ok := x.AssertedType.Underlying().(*types.Interface); ok {
					for i := 0; i < it.NumMethods(); i++ {
						if it.Method(i).Name() == "Seek" {
							return true
						}
					}
				}
				return false
			case *ssa.Call:
				if isInvoke(x, "Seek") || isInvoke(x, "Err") && core.IsNamed(x.Call.Value.Type(), "context", "Context") {
					return true
				}
				if g := core.CalleeFn(x); g != nil && g != fn && core.Helpers(fn, 1)[g] {
					rew := false
					core.Calls(g, func(c ssa.CallInstruction) { rew = rew || isInvoke(c, "Seek") })
					return rew
				}
			}
			return false
		}
		reachesChunked := func(b *ssa.BasicBlock) bool {
			if b == chunked.Block() {
				return true
			}
			return (core.Reach{}).FromInstr(b.Instrs[0])[chunked] || b.Instrs[0] == ssa.Instruction(chunked)
		}
		skip := ""
		for _, e := range errEdgesOf(fn, full) {
			reach := core.Reach{
				Stop: func(in ssa.Instruction) bool { return in == ssa.Instruction(chunked) },
				StopEdge: func(from, to *ssa.BasicBlock) bool {
					ifi, ok := core.LastInstr(from).(*ssa.If)
					return ok && rewindOnly(ifi.Cond, 0) && !reachesChunked(to)
				},
			}
			for in := range reach.FromEdge(e[0], e[1]) {
				if ret, isRet := in.(*ssa.Return); isRet {
					skip = p.Pos(ret.Pos())
				}
			}
		}
		r.Check(skip == "" && len(errEdgesOf(fn, full)) > 0, rule, fname, "fall-back taken whenever the source rewinds", p.Pos(full.Pos()),
			"after a failed single PUT the return at "+skip+" is reachable without the chunked upload over a branch that is not about rewinding the source: a destination that forces the fall-back (for instance by refusing the single request) makes the upload fail although a chunked transfer would succeed")
	}
	// (c) failures cancel
	for _, step := range []*ssa.Call{full, chunked} {
		step := step
		stop := func(in ssa.Instruction) bool {
			return isCancel(in) || in == ssa.Instruction(chunked) || setsFlag(in, step)
		}
		okc := len(errEdgesOf(fn, step)) > 0
		for _, e := range errEdgesOf(fn, step) {
			seen := core.Reach{Stop: stop}.FromEdge(e[0], e[1])
			for in := range seen {
				if _, isRet := in.(*ssa.Return); isRet {
					okc = false
				}
			}
		}
		if len(errEdgesOf(fn, step)) == 0 {
			// no branch on the step's error: every path from the step to a return must record the failure
			// in the cancel flag (`abandon = err != nil`)
			okc = true
			for in := range (core.Reach{Stop: func(in ssa.Instruction) bool { return setsFlag(in, step) && !isConstTrueStore(in) }}).FromInstr(step) {
				if _, isRet := in.(*ssa.Return); isRet {
					okc = false
				}
			}
		}
		r.Check(okc, rule, fname, "failure of "+step.Call.StaticCallee().Name()+" cancels the session", p.Pos(step.Pos()), "every return reachable from the failure edge passes the cancel request (or the chunked fall-back)")
	}
	// (d) body function of the single PUT
	fullFn := p.Method("scheme/reg", "Reg", "blobPutUploadFull")
	if fullFn == nil {
		r.MissingAnchor(rule, "scheme/reg.(*Reg).blobPutUploadFull")
		return
	}
	bodyOK := false
	// the body function: a literal of the function, or whatever is stored into the request's body
	// field (a method value, a function returned by a helper)
	cands := append([]*ssa.Function{}, fullFn.AnonFuncs...)
	for _, fs := range fieldStores([]*ssa.Function{fullFn}, func(n *types.Named, fl string) bool {
		return fl == "BodyFunc" && n.Obj().Pkg() != nil && n.Obj().Pkg().Path() == modPath("internal/reghttp")
	}) {
		cands = append(cands, hookFuncs(p, fs.Store.Val, 0)...)
	}
	for _, lit := range cands {
		seeks, refuses := false, false
		core.Calls(lit, func(c ssa.CallInstruction) {
			if isInvoke(c, "Seek") {
				seeks = true
			}
			if cal := core.Callee(c); cal != nil && core.IsFunc(cal, "fmt", "Errorf") {
				for _, a := range variadicElems(c.Common().Args[len(c.Common().Args)-1]) {
					if globalNamed(underIface(a), "ErrNotRetryable") || strings.Contains(underIface(a).String(), "ErrNotRetryable") {
						refuses = true
					}
				}
			}
		})
		if seeks && refuses {
			bodyOK = true
		}
	}
	r.Check(bodyOK, rule, p.FuncName(fullFn), "body function rewinds or refuses", p.Pos(fullFn.Pos()), "a re-used body either seeks the source to its start or returns ErrNotRetryable (a retried PUT never sends the tail of a partly consumed stream)")
}

func isConstTrueStore(in ssa.Instruction) bool {
	st, ok := in.(*ssa.Store)
	if !ok {
		return false
	}
	b, isC := core.ConstBool(st.Val)
	return isC && b
}

// c05R3Helper handles the rewind written as a predicate helper of BlobPut: a bool function that
// seeks the source to its start and reports whether that worked. It records the obligations (a) and
// (b) of C05.R3 and reports whether such a helper was found.
func c05R3Helper(p *core.Prog, r *core.Report, rule string, fn *ssa.Function, full, chunked *ssa.Call) bool {
	fname := p.FuncName(fn)
	for h := range core.Helpers(fn, 1) {
		if h == fn {
			continue
		}
		res := h.Signature.Results()
		if res.Len() != 1 || !types.Identical(res.At(0).Type().Underlying(), types.Typ[types.Bool]) {
			continue
		}
		var seek *ssa.Call
		core.Calls(h, func(c ssa.CallInstruction) {
			if isInvoke(c, "Seek") {
				seek, _ = c.(*ssa.Call)
			}
		})
		if seek == nil {
			continue
		}
		// the call sites in BlobPut
		var sites []*ssa.Call
		core.Calls(fn, func(c ssa.CallInstruction) {
			if call, ok := c.(*ssa.Call); ok && core.CalleeFn(c) == h {
				sites = append(sites, call)
			}
		})
		if len(sites) == 0 {
			continue
		}
		isSite := func(in ssa.Instruction) bool {
			for _, s := range sites {
				if in == ssa.Instruction(s) {
					return true
				}
			}
			return false
		}
		// (a) from the failure of the single PUT the chunked upload is reachable only through the helper
		okA := len(errEdgesOf(fn, full)) > 0
		for _, e := range errEdgesOf(fn, full) {
			if (core.Reach{Stop: isSite}).FromEdge(e[0], e[1])[chunked] {
				okA = false
			}
		}
		r.Check(okA, rule, fname, "fall-back passes the rewind", p.Pos(chunked.Pos()), "from the failure edge of the single PUT the chunked upload is only reachable through "+h.Name()+", which seeks the source to its start")
		// (b) the helper's false result does not reach the chunked upload, and its true result implies
		// a nil seek error and offset 0
		okB := true
		for _, b := range fn.Blocks {
			ifi, ok := core.LastInstr(b).(*ssa.If)
			if !ok {
				continue
			}
			cnd, pol := core.StripNot(ifi.Cond, true)
			call, isCall := cnd.(*ssa.Call)
			if !isCall || !isSite(call) {
				continue
			}
			falseSucc := b.Succs[1]
			if !pol {
				falseSucc = b.Succs[0]
			}
			if (core.Reach{}).FromEdge(b, falseSucc)[chunked] {
				okB = false
			}
		}
		nilErr, zeroOff := false, false
		for _, ret := range core.Returns(h) {
			_ = ret
		}
		for _, s := range sites {
			for _, g := range core.ImpliedGuards(core.Guard{Cond: s, Polarity: true}) {
				c, pol := core.StripNot(g.Cond, g.Polarity)
				if x, neq, isNil := errCmpNil(c); isNil && neq != pol {
					for _, oc := range originCalls(x) {
						if oc == seek {
							nilErr = true
						}
					}
				}
				if bo, ok := c.(*ssa.BinOp); ok && (bo.Op == token.EQL || bo.Op == token.NEQ) && isConstZero(bo.Y) && (bo.Op == token.EQL) == pol {
					for _, o := range core.Origins(bo.X, core.SliceOpts{}) {
						if o.Kind == core.OCall && o.Call == seek && o.Res == 0 {
							zeroOff = true
						}
					}
				}
			}
		}
		r.Check(okB && nilErr && zeroOff, rule, fname, "no fall-back after a failed rewind", p.Pos(sites[0].Pos()),
			fmt.Sprintf("the chunked upload is unreachable when %s reports false: %v; its true result implies a nil Seek error: %v and offset 0: %v", h.Name(), okB, nilErr, zeroOff))
		return true
	}
	return false
}

// reachesRawQuery: forward data flow from v into a value stored into the RawQuery field of a URL,
// through concatenation, net/url encoders, map and slice literals, phis and local cells.
func reachesRawQuery(v ssa.Value) bool {
	seen := map[ssa.Value]bool{}
	work := []ssa.Value{v}
	for len(work) > 0 && len(seen) < 3000 {
		x := work[len(work)-1]
		work = work[:len(work)-1]
		if x == nil || seen[x] {
			continue
		}
		seen[x] = true
		refs := x.Referrers()
		if refs == nil {
			continue
		}
		for _, ref := range *refs {
			switch y := ref.(type) {
			case *ssa.Store:
				if y.Val != x {
					continue
				}
				if fa, ok := y.Addr.(*ssa.FieldAddr); ok && core.FieldName(fa.X.Type(), fa.Field) == "RawQuery" {
					return true
				}
				work = append(work, addrBase(y.Addr))
			case *ssa.MapUpdate:
				if y.Value == x {
					work = append(work, y.Map)
				}
			case *ssa.Call:
				if cal := core.Callee(y); cal != nil && cal.Pkg() != nil && (cal.Pkg().Path() == "net/url" || cal.Pkg().Path() == "fmt" || cal.Pkg().Path() == "strings") {
					work = append(work, y)
				}
				if b, ok := y.Call.Value.(*ssa.Builtin); ok && b.Name() == "append" {
					work = append(work, y)
				}
			case ssa.Value:
				switch y.(type) {
				case *ssa.Phi, *ssa.Slice, *ssa.MakeInterface, *ssa.ChangeType, *ssa.Convert, *ssa.UnOp, *ssa.IndexAddr, *ssa.FieldAddr, *ssa.BinOp, *ssa.MakeMap:
					work = append(work, y)
				}
			}
		}
	}
	return false
}

// readKeepsSourceRule: reading to the end does not end the stream's life. The upload rewinds its
// source after it has read it completely (the single PUT that is sent again, the fall-back to a
// chunked transfer); a blob reader that closes the underlying file or response as soon as it has seen
// the end of the stream leaves nothing to rewind.
func readKeepsSourceRule(p *core.Prog, r *core.Report, rule string) {
	r.Rule(rule, "reading to the end keeps the source open: nothing that the blob reader's Read or Seek calls (two levels, package types/blob) invokes Close on a value loaded from a field of the reader (a source closed at end of stream cannot be rewound for the resend or the chunked fall-back)", 2)
	br := p.Named("types/blob", "BReader")
	if br == nil {
		r.MissingAnchor(rule, "types/blob.BReader")
		return
	}
	for _, name := range []string{"Read", "Seek"} {
		fn := p.MethodOf(br, name)
		if fn == nil {
			r.MissingAnchor(rule, "types/blob.(*BReader)."+name)
			continue
		}
		bad := ""
		for _, f := range sortedFuncs(unitFuncs(fn, 2, nil)) {
			if pk := core.FuncPkg(f); pk == nil || pk.Path() != modPath("types/blob") {
				continue
			}
			core.Calls(f, func(c ssa.CallInstruction) {
				cc := c.Common()
				// the reader's own Close (which closes the source)
				if g := core.CalleeFn(c); g != nil && g.Name() == "Close" && core.FuncPkg(g) != nil && core.FuncPkg(g).Path() == modPath("types/blob") {
					bad = p.FuncName(f) + " at " + p.Pos(c.Pos()) + " (through " + p.FuncName(g) + ")"
					return
				}
				if !cc.IsInvoke() || cc.Method.Name() != "Close" {
					return
				}
				for _, o := range core.Origins(cc.Value, core.SliceOpts{}) {
					if o.Kind == core.OField {
						bad = p.FuncName(f) + " at " + p.Pos(c.Pos())
					}
				}
			})
		}
		r.Check(bad == "", rule, p.FuncName(fn), "source stays open", p.Pos(fn.Pos()),
			"the underlying source is closed in "+bad+": a file-backed blob cannot be sought back to its start afterwards, so a resent PUT or the chunked fall-back fails although the input was well-formed")
	}
}

// isCancelFn: the cancel request of an upload session, or a function literal that does nothing but
// send it (`abandon := func() { _ = reg.blobUploadCancel(ctx, r, putURL) }`).
func isCancelFn(g *ssa.Function) bool {
	if g == nil {
		return false
	}
	if canon(g) == "blobUploadCancel" {
		return true
	}
	if g.Parent() == nil || len(g.Blocks) == 0 || len(g.Blocks) > 3 {
		return false
	}
	n, other := 0, false
	core.Calls(g, func(c ssa.CallInstruction) {
		h := core.CalleeFn(c)
		if h != nil && canon(h) == "blobUploadCancel" {
			n++
		} else {
			other = true
		}
	})
	return n == 1 && !other
}

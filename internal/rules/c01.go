package rules

import (
	"fmt"
	"go/token"
	"go/types"
	"sort"
	"strings"

	"golang.org/x/tools/go/ssa"

	"verif/internal/core"
)

func init() {
	register(&Spec{
		ID: "C01",
		Decides: "every blob reader that wraps a stream in the registry scheme, the layout scheme and the client is built by blob.NewReader with WithDesc of the caller's descriptor; in BReader.Read every path from the EOF edge to the return evaluates the size test and the digest test, and every path that takes a mismatch edge returns a freshly built error; " +
			"LimitRead returns a fresh error on both limit-exceeded edges and bounds the slice it reads into; Seek(0) re-creates digester and reader and resets every direct field that Read writes; inline data is returned only behind the length and digest comparisons; the resume guards (Content-Range required, Content-Length compared) exist and return errors; nobody but the reader's own methods touches its raw streams; no other function drains the verifying chain without running the EOF comparisons and returning their result.",
		NotCovered: "that sha256/sha512 are computed correctly, the byte arithmetic for every slicing of reads, the off-by-one inside LimitRead, drop/resume sequences as such.",
		Run:        runC01,
	})
}

func runC01(p *core.Prog, r *core.Report) {
	c01R1(p, r)
	c01R8(p, r, c01R2(p, r))
	c01R3(p, r)
	c01R4(p, r)
	c01R5(p, r)
	c01R6(p, r)
	c01R7(p, r)
	c01R9(p, r)
	c01R10(p, r)
	c01R11(p, r)
	c01R12(p, r)
	c01R13(p, r)
}

// c01R11: the error a blob read ended with reaches whoever asked for the blob. A deferred clean-up
// that assigns the function's error result without looking at what is already there replaces the
// digest or size mismatch by the result of the clean-up (usually nil).
func c01R11(p *core.Prog, r *core.Report) {
	const rule = "C01.R11"
	r.Rule(rule, "a deferred clean-up keeps the error of the body: in every function of the module that defers a closure, a store into the function's named error result inside that closure is guarded by a test that the result is still nil, or stores a value built from the result (errors.Join, %w)", 1)
	n, held := 0, 0
	for _, fn := range p.ModFuncs {
		if len(fn.Blocks) == 0 || fn.Signature.Results().Len() == 0 {
			continue
		}
		// the cells of the results: what the returns load
		cells := map[*ssa.Alloc]bool{}
		for _, ret := range core.Returns(fn) {
			for _, v := range ret.Results {
				if u, ok := v.(*ssa.UnOp); ok && u.Op == token.MUL && isErr(v.Type()) {
					if al, ok := u.X.(*ssa.Alloc); ok {
						cells[al] = true
					}
				}
			}
		}
		if len(cells) == 0 {
			continue
		}
		lab := labeler{}
		for _, b := range fn.Blocks {
			for _, in := range b.Instrs {
				d, ok := in.(*ssa.Defer)
				if !ok {
					continue
				}
				mc, ok := d.Call.Value.(*ssa.MakeClosure)
				if !ok {
					continue
				}
				lit, _ := mc.Fn.(*ssa.Function)
				if lit == nil {
					continue
				}
				for i, bnd := range mc.Bindings {
					cell, ok := bnd.(*ssa.Alloc)
					if !ok || !cells[cell] || i >= len(lit.FreeVars) {
						continue
					}
					fv := lit.FreeVars[i]
					isLoad := func(v ssa.Value) bool {
						u, ok := v.(*ssa.UnOp)
						return ok && u.Op == token.MUL && u.X == ssa.Value(fv)
					}
					for _, lb := range lit.Blocks {
						for _, lin := range lb.Instrs {
							st, ok := lin.(*ssa.Store)
							if !ok || st.Addr != ssa.Value(fv) {
								continue
							}
							n++
							okStore := false
							// guarded by `err == nil`
							for _, g := range core.Guards(lb) {
								cnd, pol := core.StripNot(g.Cond, g.Polarity)
								if x, neq, isNil := errCmpNil(cnd); isNil && isLoad(x) && neq != pol {
									okStore = true
								}
								// after a panic the body returned nothing: the recover branch may set the error
								if bo, ok := cnd.(*ssa.BinOp); ok {
									for _, side := range []ssa.Value{bo.X, bo.Y} {
										if rc, ok := side.(*ssa.Call); ok {
											if bi, ok := rc.Call.Value.(*ssa.Builtin); ok && bi.Name() == "recover" {
												okStore = true
											}
										}
									}
								}
							}
							// or built from the old value
							var uses func(v ssa.Value, dd int) bool
							uses = func(v ssa.Value, dd int) bool {
								if v == nil || dd > 6 {
									return false
								}
								if isLoad(v) {
									return true
								}
								switch x := v.(type) {
								case *ssa.Call:
									for _, a := range x.Call.Args {
										for _, e := range variadicElems(a) {
											if uses(underIface(e), dd+1) {
												return true
											}
										}
									}
								case *ssa.Phi:
									for _, e := range x.Edges {
										if uses(e, dd+1) {
											return true
										}
									}
								case *ssa.MakeInterface:
									return uses(x.X, dd+1)
								}
								return false
							}
							if uses(st.Val, 0) {
								okStore = true
							}
							if okStore {
								held++
								continue
							}
							r.Violated(rule, p.FuncName(fn), lab.next("deferred store to the error result"), p.Pos(st.Pos()), "the deferred closure assigns the error result whatever it holds: an error the body returned (a digest or size mismatch reported at the end of a blob) is replaced by the result of the clean-up")
						}
					}
				}
			}
		}
	}
	r.Check(true, rule, "module", "deferred stores to error results", "-", fmt.Sprintf("%d deferred store(s) to a named error result, %d keep the body's error", n, held))
}

// c01R9: the comparisons happen in the Read that sees EOF. A consumer that stops after a byte count
// never makes that Read (or drops the error that arrives together with the last bytes).
func c01R9(p *core.Prog, r *core.Report) {
	const rule = "C01.R9"
	r.Rule(rule, "blob streams are read to their end: no blob reader of types/blob is handed to a consumer that stops at a byte count (io.CopyN, io.ReadFull, io.ReadAtLeast, io.LimitReader, io.NewSectionReader); every consumer in the module drains to EOF, where the reader compares size and digest", 1)
	bounded := map[string]bool{"CopyN": true, "ReadFull": true, "ReadAtLeast": true, "LimitReader": true, "NewSectionReader": true}
	isBlob := func(v ssa.Value) bool {
		for i := 0; i < 4 && v != nil; i++ {
			if n := core.NamedOf(v.Type()); n != nil && n.Obj().Pkg() != nil && n.Obj().Pkg().Path() == modPath("types/blob") {
				return true
			}
			switch x := v.(type) {
			case *ssa.MakeInterface:
				v = x.X
			case *ssa.ChangeInterface:
				v = x.X
			case *ssa.TypeAssert:
				v = x.X
			default:
				return false
			}
		}
		return false
	}
	n, drains := 0, 0
	for _, fn := range p.ModFuncs {
		if len(fn.Blocks) == 0 {
			continue
		}
		lab := labeler{}
		core.Calls(fn, func(c ssa.CallInstruction) {
			cal := core.Callee(c)
			if cal == nil || cal.Pkg() == nil || cal.Pkg().Path() != "io" {
				return
			}
			blobArg := false
			for _, a := range c.Common().Args {
				if isBlob(a) {
					blobArg = true
				}
			}
			if !blobArg {
				return
			}
			if bounded[cal.Name()] {
				n++
				r.Violated(rule, p.FuncName(fn), lab.next("io."+cal.Name()+" of a blob reader"), p.Pos(c.Pos()), "the blob is consumed up to a byte count: the Read that reports EOF, where size and digest are compared, is never made or its error is dropped (io.CopyN returns nil once the count is reached), so content of the right length and the wrong digest is accepted")
			} else if cal.Name() == "Copy" || cal.Name() == "ReadAll" || cal.Name() == "CopyBuffer" {
				drains++
			}
		})
	}
	r.Check(drains > 0, rule, "module", "consumers drain to EOF", "-", fmt.Sprintf("%d io.Copy / io.ReadAll of a blob reader, %d bounded consumer(s)", drains, n))
}

// c01R10: inline data of a descriptor is content like any other. It is used through GetData, which
// compares it with size and digest; nothing else hands the raw field to code that builds content.
func c01R10(p *core.Prog, r *core.Report) {
	const rule = "C01.R10"
	r.Rule(rule, "inline data only through its check: outside types/descriptor no load of Descriptor.Data is passed to a function of the module (GetData returns it only behind the length and digest comparisons of C01.R5)", 1)
	n := 0
	for _, fn := range p.ModFuncs {
		if len(fn.Blocks) == 0 {
			continue
		}
		// package mod maintains the inline data itself (C13.R3 decides what it stores there)
		if pk := core.FuncPkg(fn); pk == nil || pk.Path() == modPath("types/descriptor") || pk.Path() == modPath("mod") {
			continue
		}
		lab := labeler{}
		core.Calls(fn, func(c ssa.CallInstruction) {
			g := core.Callee(c)
			if g == nil || g.Pkg() == nil || !strings.HasPrefix(g.Pkg().Path(), modPath(".")) {
				return
			}
			for _, a := range c.Common().Args {
				if fieldLoadOf(a, modPath("types/descriptor"), "Descriptor", "Data") {
					n++
					r.Violated(rule, p.FuncName(fn), lab.next("Descriptor.Data handed to "+g.Name()), p.Pos(c.Pos()), "the inline data of a descriptor is used without the comparison with the descriptor's size and digest: content that does not hash to the requested digest is returned without error")
				}
			}
		})
	}
	if n == 0 {
		r.Held(rule, "module", "no raw use of Descriptor.Data", "-", "inline data reaches module code only through GetData")
	}
}

func optCalls(v ssa.Value) []*ssa.Call {
	var out []*ssa.Call
	for _, e := range variadicElems(v) {
		for _, c := range originCalls(e) {
			out = append(out, c)
		}
	}
	return out
}

func c01R1(p *core.Prog, r *core.Report) {
	const rule = "C01.R1"
	r.Rule(rule, "verifying reader at every source: every blob.NewReader that wraps a stream (WithReader / WithResp) in scheme/reg, scheme/ocidir and the client carries WithDesc of a descriptor parameter of the enclosing function", 3)
	for _, rel := range []string{"scheme/reg", "scheme/ocidir", "."} {
		for _, fn := range pkgFuncs(p, rel) {
			lab := labeler{}
			for _, c := range core.CallsTo(fn, func(f *types.Func) bool { return core.IsModFunc(f, "types/blob", "NewReader") }) {
				call, ok := c.(*ssa.Call)
				if !ok || len(call.Call.Args) == 0 {
					continue
				}
				hasStream, hasDesc, descFromParam := false, false, false
				for _, oc := range optCalls(call.Call.Args[0]) {
					cal := core.Callee(oc)
					if cal == nil {
						continue
					}
					switch cal.Name() {
					case "WithReader", "WithResp":
						hasStream = true
					case "WithDesc":
						hasDesc = true
						hs := core.Helpers(fn, 2)
						for _, o := range core.Origins(oc.Call.Args[0], core.SliceOpts{Helpers: hs, Callers: map[*ssa.Function]bool{fn: true}}) {
							if o.Kind == core.OParam && o.Param.Parent() == fn && core.IsModNamed(o.Param.Type(), "types/descriptor", "Descriptor") {
								descFromParam = true
							}
							if o.Kind == core.OFree {
								descFromParam = true // closure over the enclosing function's descriptor
							}
						}
					}
				}
				if !hasStream {
					continue
				}
				fname := p.FuncName(fn)
				label := lab.next("blob.NewReader")
				switch {
				case !hasDesc:
					r.Violated(rule, fname, label, p.Pos(c.Pos()), "the reader wraps a stream without WithDesc: its expected digest and size come only from response headers (or are learned from the stream itself), so corrupted or substituted content reads to a clean EOF")
				case !descFromParam:
					r.Violated(rule, fname, label, p.Pos(c.Pos()), "WithDesc does not carry the descriptor the caller asked for")
				case overwrites(fn) != "":
					r.Violated(rule, fname, label, p.Pos(c.Pos()), "the caller's descriptor is changed on its way into the reader: "+overwrites(fn)+" — what the caller stated (size, digest) is what the stream is checked against, so it may only be filled in where it was left unset")
				default:
					r.Held(rule, fname, label, p.Pos(c.Pos()), "verifies against the caller's descriptor")
				}
			}
		}
	}
}

// overwrites: in fn or an unexported helper it calls, the Size or Digest of a descriptor that came in
// as a parameter is stored without a dominating test that the field was unset. Returns a description.
func overwrites(fn *ssa.Function) string {
	for _, f := range sortedFuncs(core.Helpers(fn, 2)) {
		for _, b := range f.Blocks {
			for _, in := range b.Instrs {
				st, ok := in.(*ssa.Store)
				if !ok {
					continue
				}
				fa, ok := st.Addr.(*ssa.FieldAddr)
				if !ok || !core.IsModNamed(fa.X.Type(), "types/descriptor", "Descriptor") {
					continue
				}
				name := core.FieldName(fa.X.Type(), fa.Field)
				if name != "Size" && name != "Digest" {
					continue
				}
				// the cell holds a parameter of f
				cell, ok := fa.X.(*ssa.Alloc)
				if !ok {
					continue
				}
				isParam := false
				for _, cs := range core.StoresToCell(cell) {
					if _, ok := cs.Val.(*ssa.Parameter); ok {
						isParam = true
					}
				}
				if !isParam {
					continue
				}
				guarded := false
				for _, g := range core.Guards(b) {
					c, pol := core.StripNot(g.Cond, g.Polarity)
					bo, ok := c.(*ssa.BinOp)
					if !ok || !pol && bo.Op != token.NEQ && bo.Op != token.GTR {
						continue
					}
					for _, side := range []ssa.Value{bo.X, bo.Y} {
						if ld, ok := side.(*ssa.UnOp); ok {
							if gfa, ok := ld.X.(*ssa.FieldAddr); ok && gfa.X == fa.X && gfa.Field == fa.Field {
								guarded = true
							}
						}
						if cc, ok := side.(*ssa.Call); ok { // d.Digest.Validate() != nil and the like
							for _, a := range cc.Call.Args {
								if ld, ok := a.(*ssa.UnOp); ok {
									if gfa, ok := ld.X.(*ssa.FieldAddr); ok && gfa.X == fa.X && gfa.Field == fa.Field {
										guarded = true
									}
								}
							}
						}
					}
				}
				if !guarded {
					return name + " is overwritten in " + f.Name()
				}
			}
		}
	}
	return ""
}

// readCtx holds the Read method and helpers to recognise its comparisons.
// c01R2 returns the helpers of Read that carry the complete EOF verification (every way through them
// evaluates the size test and the digest test).
func c01R2(p *core.Prog, r *core.Report) (verifiers map[*ssa.Function]bool) {
	const rule = "C01.R2"
	verifiers = map[*ssa.Function]bool{}
	r.Rule(rule, "no clean EOF without the comparisons: on every path from the EOF edge of BReader.Read to the return the size test and the digest test are evaluated, and a path that takes a mismatch edge returns a fresh error", 3)
	fn := p.Method("types/blob", "BReader", "Read")
	if fn == nil {
		r.MissingAnchor(rule, "types/blob.(*BReader).Read")
		return
	}
	fname := p.FuncName(fn)
	// the EOF test: err == io.EOF, in Read or in the helper Read hands the error to
	findEOF := func(f *ssa.Function) (eofBlock, eofSucc *ssa.BasicBlock) {
		for _, b := range f.Blocks {
			ifi, ok := core.LastInstr(b).(*ssa.If)
			if !ok {
				continue
			}
			cnd, pol := core.StripNot(ifi.Cond, true)
			bo, ok := cnd.(*ssa.BinOp)
			if ok && (bo.Op == token.EQL || bo.Op == token.NEQ) && (globalNamed(bo.Y, "EOF") || globalNamed(bo.X, "EOF")) {
				eofBlock = b
				// the successor taken when the error is io.EOF
				if (bo.Op == token.EQL) == pol {
					eofSucc = b.Succs[0]
				} else {
					eofSucc = b.Succs[1]
				}
			}
		}
		return
	}
	root := fn
	eofBlock, eofSucc := findEOF(fn)
	if eofBlock == nil {
		var hs []*ssa.Function
		for g := range core.Helpers(fn, 2) {
			if g != fn && len(g.Blocks) > 0 {
				hs = append(hs, g)
			}
		}
		sort.Slice(hs, func(i, j int) bool { return hs[i].String() < hs[j].String() })
		for _, g := range hs {
			if b, sc := findEOF(g); b != nil {
				root, eofBlock, eofSucc = g, b, sc
				break
			}
		}
	}
	if eofBlock == nil {
		r.Undecided(rule, fname, "EOF test", p.Pos(fn.Pos()), "no comparison of the read error with io.EOF found")
		return
	}
	if root != fn {
		// Read must hand back what the helper returns
		dropped := 0
		core.Calls(fn, func(ci ssa.CallInstruction) {
			c, ok := ci.(*ssa.Call)
			if !ok || core.CalleeFn(c) != root {
				return
			}
			var paths []core.BlockPath
			if _, isRet := core.LastInstr(c.Block()).(*ssa.Return); isRet {
				paths = []core.BlockPath{{c.Block()}}
			}
			for _, sc := range c.Block().Succs {
				ps, _ := core.EnumPaths(c.Block(), sc, 256)
				paths = append(paths, ps...)
			}
			for _, path := range paths {
				ret := core.LastInstr(path[len(path)-1]).(*ssa.Return)
				v := core.PhiOnPath(core.ReturnOperand(ret, len(ret.Results)-1), path)
				if ex, ok := v.(*ssa.Extract); ok {
					v = ex.Tuple
				}
				if v != ssa.Value(c) {
					dropped++
				}
			}
		})
		r.Check(dropped == 0, rule, fname, "result of the EOF handling returned", p.Pos(fn.Pos()),
			fmt.Sprintf("the EOF handling lives in %s; %d paths of Read return something else than its result", p.FuncName(root), dropped))
	}
	isField := func(v ssa.Value, name string) bool {
		u, ok := v.(*ssa.UnOp)
		if !ok || u.Op != token.MUL {
			return false
		}
		fa, ok := u.X.(*ssa.FieldAddr)
		return ok && core.FieldName(fa.X.Type(), fa.Field) == name
	}
	// what a branch establishes: cond() returns the negation-stripped comparison and whether it is
	// true on the edge the path takes
	cond := func(b *ssa.BasicBlock, path core.BlockPath) (*ssa.BinOp, bool, bool) {
		ifi, ok := core.LastInstr(b).(*ssa.If)
		if !ok {
			return nil, false, false
		}
		cnd, pol := core.StripNot(ifi.Cond, true)
		bo, ok := cnd.(*ssa.BinOp)
		if !ok {
			return nil, false, false
		}
		taken := core.EdgeTaken(path, b)
		if taken < 0 {
			return nil, false, false
		}
		return bo, (taken == 0) == pol, true
	}
	// the byte counter, by what Read does with it: the field that is stored `field + n` where n is the
	// count returned by the underlying Read (its name today: readBytes)
	counterNames := map[string]bool{"readBytes": true}
	for _, rf := range sortedFuncs(core.Helpers(fn, 2)) {
		for _, b := range rf.Blocks {
			for _, in := range b.Instrs {
				st, ok := in.(*ssa.Store)
				if !ok {
					continue
				}
				fa, ok := st.Addr.(*ssa.FieldAddr)
				if !ok {
					continue
				}
				bo, ok := st.Val.(*ssa.BinOp)
				if !ok || bo.Op != token.ADD {
					continue
				}
				fromRead := false
				for _, side := range []ssa.Value{bo.X, bo.Y} {
					if cv, isConv := side.(*ssa.Convert); isConv {
						side = cv.X
					}
					for _, oc := range originCalls(side) {
						if oc.Call.IsInvoke() && oc.Call.Method.Name() == "Read" {
							fromRead = true
						}
					}
				}
				if fromRead {
					counterNames[core.FieldName(fa.X.Type(), fa.Field)] = true
				}
			}
		}
	}
	isCounter := func(v ssa.Value) bool {
		for name := range counterNames {
			if isField(v, name) {
				return true
			}
		}
		return false
	}
	isSize := func(v ssa.Value) bool { return isField(v, "Size") }
	// One way through the EOF handling: what was compared, whether a mismatch edge was taken, and what
	// the returned error is (fresh, or the value of parameter pass of the function the path is in).
	type way struct {
		size, dig, mismatch, fresh bool
		pass                       int
		sample                     string
	}
	isErr := func(t types.Type) bool { return types.Identical(t, types.Universe.Lookup("error").Type()) }
	helpers := core.Helpers(fn, 3)
	// a helper of Read that hands back an error: its ways are part of the ways of its caller
	errHelper := func(c *ssa.Call) *ssa.Function {
		g := core.CalleeFn(c)
		if g == nil || g == fn || !helpers[g] || len(g.Blocks) == 0 {
			return nil
		}
		res := g.Signature.Results()
		if res.Len() == 0 || !isErr(res.At(res.Len()-1).Type()) {
			return nil
		}
		return g
	}
	tooMany := false
	var waysOf func(f *ssa.Function, paths []core.BlockPath, depth int) []way
	summary := map[*ssa.Function][]way{}
	var summarise func(g *ssa.Function, depth int) []way
	summarise = func(g *ssa.Function, depth int) []way {
		if w, ok := summary[g]; ok {
			return w
		}
		summary[g] = nil
		entry := g.Blocks[0]
		var paths []core.BlockPath
		if _, isRet := core.LastInstr(entry).(*ssa.Return); isRet {
			paths = []core.BlockPath{{entry}}
		}
		for _, s := range entry.Succs {
			ps, ok := core.EnumPaths(entry, s, 256)
			if !ok {
				tooMany = true
			}
			paths = append(paths, ps...)
		}
		summary[g] = waysOf(g, paths, depth)
		return summary[g]
	}
	waysOf = func(f *ssa.Function, paths []core.BlockPath, depth int) []way {
		var out []way
		for _, path := range paths {
			base := way{pass: -1}
			var calls []*ssa.Call
			for _, b := range path {
				for _, in := range b.Instrs {
					if c, ok := in.(*ssa.Call); ok && depth < 3 && errHelper(c) != nil {
						calls = append(calls, c)
					}
				}
				bo, truth, ok := cond(b, path)
				if !ok {
					continue
				}
				switch {
				case (bo.Op == token.EQL || bo.Op == token.NEQ) && isSize(bo.X):
					if k, isK := core.ConstInt(bo.Y); isK && k == 0 {
						if (bo.Op == token.EQL) == truth {
							base.size = true // size unknown: learned from the stream
						}
					}
				case (isCounter(bo.X) && isSize(bo.Y)) || (isCounter(bo.Y) && isSize(bo.X)):
					base.size = true
					// does this edge establish counter != size?
					switch bo.Op {
					case token.LSS, token.GTR, token.NEQ:
						if truth {
							base.mismatch = true
						}
					case token.LEQ, token.GEQ, token.EQL:
						if !truth {
							base.mismatch = true
						}
					}
				case (bo.Op == token.NEQ || bo.Op == token.EQL) && isDigestType(bo.X.Type()):
					base.dig = true
					if (bo.Op == token.NEQ) == truth {
						base.mismatch = true
					}
				default:
					if x, neq, isNil := errCmpNil(bo); isNil {
						for _, oc := range originCalls(x) {
							if cal := core.Callee(oc); cal != nil && cal.Name() == "Validate" {
								// Validate() failed: trust on first use, the digest is learned from the stream
								if neq == truth {
									base.dig = true
								}
							}
						}
					}
				}
			}
			ret := core.LastInstr(path[len(path)-1]).(*ssa.Return)
			// every combination of ways through the helpers called on the path
			combos := []map[*ssa.Call]way{{}}
			for _, c := range calls {
				hw := summarise(errHelper(c), depth+1)
				var next []map[*ssa.Call]way
				for _, m := range combos {
					for _, w := range hw {
						n := map[*ssa.Call]way{c: w}
						for k, v := range m {
							n[k] = v
						}
						next = append(next, n)
					}
				}
				combos = next
				if len(combos) > 4096 {
					tooMany = true
					return out
				}
			}
			for _, m := range combos {
				w := base
				for _, hw := range m {
					w.size, w.dig, w.mismatch = w.size || hw.size, w.dig || hw.dig, w.mismatch || hw.mismatch
				}
				// the returned error on this way
				v := core.PhiOnPath(core.ReturnOperand(ret, len(ret.Results)-1), path)
				for i := 0; i < 8 && v != nil; i++ {
					if ex, ok := v.(*ssa.Extract); ok {
						v = ex.Tuple
					}
					c, ok := v.(*ssa.Call)
					if !ok {
						break
					}
					if cal := core.Callee(c); cal != nil && (core.IsFunc(cal, "fmt", "Errorf") || core.IsFunc(cal, "errors", "New") || core.IsFunc(cal, "errors", "Join")) {
						w.fresh = true
						break
					}
					hw, ok := m[c]
					if !ok {
						break
					}
					if hw.fresh {
						w.fresh = true
						break
					}
					if hw.pass < 0 || hw.pass >= len(c.Call.Args) {
						break
					}
					v = core.PhiOnPath(c.Call.Args[hw.pass], path)
				}
				if !w.fresh {
					if pv, ok := v.(*ssa.Parameter); ok {
						for i, q := range f.Params {
							if q == pv {
								w.pass = i
							}
						}
					}
					if v != nil {
						w.sample = v.String()
					}
				}
				out = append(out, w)
			}
		}
		return out
	}
	paths, ok := core.EnumPaths(eofBlock, eofSucc, 256)
	if !ok {
		r.Undecided(rule, fname, "EOF paths", p.Pos(fn.Pos()), "the EOF handling contains a loop or too many paths")
		return
	}
	ways := waysOf(root, paths, 0)
	if tooMany {
		r.Undecided(rule, fname, "EOF paths", p.Pos(fn.Pos()), "a helper of the EOF handling contains a loop or too many paths")
		return
	}
	badNoSize, badNoDigest, badClean := 0, 0, 0
	sample := ""
	for g, ws := range summary {
		all := len(ws) > 0
		for _, w := range ws {
			all = all && w.size && w.dig
		}
		if all {
			verifiers[g] = true
		}
	}
	for _, w := range ways {
		if !w.size {
			badNoSize++
		}
		if !w.dig {
			badNoDigest++
		}
		if w.mismatch && !w.fresh {
			badClean++
			sample = w.sample
		}
	}
	r.Check(badNoSize == 0, rule, fname, "size test on every EOF path", p.Pos(eofBlock.Instrs[len(eofBlock.Instrs)-1].Pos()),
		fmt.Sprintf("%d of %d EOF paths (through helpers) reach the return without comparing the number of bytes read with the descriptor size (truncated or over-long content would read cleanly, e.g. after a rewind)", badNoSize, len(ways)))
	r.Check(badNoDigest == 0, rule, fname, "digest test on every EOF path", p.Pos(eofBlock.Instrs[len(eofBlock.Instrs)-1].Pos()),
		fmt.Sprintf("%d of %d EOF paths (through helpers) reach the return without comparing (or learning) the digest", badNoDigest, len(ways)))
	r.Check(badClean == 0, rule, fname, "mismatch returns a fresh error", p.Pos(eofBlock.Instrs[len(eofBlock.Instrs)-1].Pos()),
		fmt.Sprintf("%d of %d EOF paths (through helpers) take a mismatch edge but return %s instead of a newly built error", badClean, len(ways), sample))
	return verifiers
}

func isErr(t types.Type) bool { return types.Identical(t, types.Universe.Lookup("error").Type()) }

func c01R3(p *core.Prog, r *core.Report) {
	const rule = "C01.R3"
	r.Rule(rule, "limit reader: both limit-exceeded edges return a fresh error and the slice handed to the underlying reader is bounded by the remaining limit", 3)
	fn := p.Method("internal/limitread", "LimitRead", "Read")
	if fn == nil {
		r.MissingAnchor(rule, "internal/limitread.(*LimitRead).Read")
		return
	}
	fname := p.FuncName(fn)
	n := 0
	lim := modPath("internal/limitread")
	// the end of the stream is reported by the source, never made up: every return hands back a fresh
	// limit error or the error of the underlying Read (an EOF invented at the limit hides trailing bytes
	// from the limit check, the digester and the byte count)
	{
		bad := ""
		for _, f := range sortedFuncs(core.Helpers(fn, 2)) {
			for _, ret := range core.Returns(f) {
				if len(ret.Results) < 2 || !isErr(ret.Results[len(ret.Results)-1].Type()) {
					continue
				}
				ok := true
				for _, o := range core.Origins(core.ReturnOperand(ret, len(ret.Results)-1), core.SliceOpts{Helpers: core.Helpers(fn, 2)}) {
					switch o.Kind {
					case core.OCall:
						cal := o.Callee()
						fresh := cal != nil && (core.IsFunc(cal, "fmt", "Errorf") || core.IsFunc(cal, "errors", "New"))
						src := o.Call.Call.IsInvoke() && o.Call.Call.Method.Name() == "Read"
						if !fresh && !src {
							ok = false
						}
					case core.OParam:
						// an error handed to a helper by its caller
					default:
						ok = false
					}
				}
				if !ok {
					bad = p.Pos(ret.Pos())
				}
			}
		}
		n++
		r.Check(bad == "", rule, fname, "end of stream comes from the source", p.Pos(fn.Pos()), "the return at "+bad+" reports an error (or a clean end) that neither is a fresh limit error nor comes from the underlying reader: an end of stream invented at the limit means the byte after the limit is never read, so an over-long stream ends cleanly")
	}
	nEdges := 0
	// a fresh error: built by fmt.Errorf / errors.New, directly or in a small helper that returns one
	isFresh := func(c *ssa.Call) bool {
		if cal := core.Callee(c); cal != nil && (core.IsFunc(cal, "fmt", "Errorf") || core.IsFunc(cal, "errors", "New")) {
			return true
		}
		g := c.Call.StaticCallee()
		if g == nil || !p.InModule(g) || len(g.Blocks) == 0 || len(g.Blocks) > 4 {
			return false
		}
		ok := false
		for _, ret := range core.Returns(g) {
			if len(ret.Results) != 1 || !isErr(ret.Results[0].Type()) {
				return false
			}
			for _, oc := range originCalls(ret.Results[0]) {
				if cal := core.Callee(oc); cal != nil && (core.IsFunc(cal, "fmt", "Errorf") || core.IsFunc(cal, "errors", "New")) {
					ok = true
				} else {
					return false
				}
			}
		}
		return ok
	}
	// the edge leaves with a fresh error: the successor builds one and a return of the function hands
	// it back (its own return, or the common return that a named result reaches)
	freshErrRet := func(succ *ssa.BasicBlock) bool {
		for _, in := range succ.Instrs {
			c, isCall := in.(*ssa.Call)
			if !isCall || !isFresh(c) {
				continue
			}
			for _, ret := range core.Returns(fn) {
				if len(ret.Results) < 2 {
					continue
				}
				for _, oc := range originCalls(core.ReturnOperand(ret, len(ret.Results)-1)) {
					if oc == c {
						return true
					}
				}
			}
		}
		return false
	}
	// an ordered comparison that involves the limit, written in place or in a predicate helper
	var limitCmp func(v ssa.Value, d int) bool
	limitCmp = func(v ssa.Value, d int) bool {
		v, _ = core.StripNot(v, true)
		switch x := v.(type) {
		case *ssa.BinOp:
			switch x.Op {
			case token.LSS, token.GTR, token.LEQ, token.GEQ:
				return dependsOnField(x.X, lim, "LimitRead", "Limit") || dependsOnField(x.Y, lim, "LimitRead", "Limit")
			}
		case *ssa.Call:
			g := x.Call.StaticCallee()
			if d > 1 || g == nil || !p.InModule(g) || len(g.Blocks) == 0 || len(g.Blocks) > 4 {
				return false
			}
			rets := core.Returns(g)
			if len(rets) == 0 {
				return false
			}
			for _, ret := range rets {
				if len(ret.Results) != 1 || !limitCmp(ret.Results[0], d+1) {
					return false
				}
			}
			return true
		}
		return false
	}
	for _, b := range fn.Blocks {
		ifi, ok := core.LastInstr(b).(*ssa.If)
		if !ok {
			continue
		}
		if !limitCmp(ifi.Cond, 0) {
			continue
		}
		if !freshErrRet(b.Succs[0]) && !freshErrRet(b.Succs[1]) {
			continue // the re-slice test: not an exit
		}
		n++
		nEdges++
		r.Held(rule, fname, fmt.Sprintf("limit exceeded edge#%d", n), p.Pos(ifi.Cond.Pos()), "the edge on which the limit is exceeded returns a freshly built error (never nil, never the underlying EOF)")
	}
	if nEdges < 2 {
		r.Violated(rule, fname, "limit tests", p.Pos(fn.Pos()), fmt.Sprintf("%d limit tests that leave with a fresh error found, 2 needed (before and after the underlying read)", nEdges))
	}
	// bounded slice: the buffer passed to the underlying Read is a phi of the parameter and a re-slice
	bounded := false
	core.Calls(fn, func(c ssa.CallInstruction) {
		if !isInvoke(c, "Read") {
			return
		}
		if phi, ok := c.Common().Args[0].(*ssa.Phi); ok {
			for _, e := range phi.Edges {
				if _, isSlice := e.(*ssa.Slice); isSlice {
					bounded = true
				}
			}
		}
		// always re-sliced: p = p[:min(len(p), remaining+1)]
		if sl, ok := c.Common().Args[0].(*ssa.Slice); ok && sl.High != nil {
			if dependsOnField(sl.High, modPath("internal/limitread"), "LimitRead", "Limit") {
				bounded = true
			}
		}
	})
	r.Check(bounded, rule, fname, "bounded read", p.Pos(fn.Pos()), "the buffer given to the underlying reader is re-sliced when it is longer than the remaining limit")
}

func c01R4(p *core.Prog, r *core.Report) {
	const rule = "C01.R4"
	r.Rule(rule, "rewind resets everything: on every path from the successful underlying Seek to the nil return, the digester, the verifying reader and every direct field that Read writes are stored again; the new reader tees into the new digester", 3)
	seek := p.Method("types/blob", "BReader", "Seek")
	read := p.Method("types/blob", "BReader", "Read")
	br := p.Named("types/blob", "BReader")
	if seek == nil || read == nil || br == nil {
		r.MissingAnchor(rule, "types/blob.(*BReader).Seek / Read")
		return
	}
	fname := p.FuncName(seek)
	// state is named by its access path below the reader ("digester", or "pass.digester" when the
	// per-pass state lives in a nested struct); a store to a prefix of a path (the whole nested struct)
	// stores everything below it
	pathOf := func(addr ssa.Value) (string, bool) {
		var parts []string
		for {
			fa, ok := addr.(*ssa.FieldAddr)
			if !ok {
				break
			}
			parts = append([]string{core.FieldName(fa.X.Type(), fa.Field)}, parts...)
			addr = fa.X
		}
		if len(parts) == 0 || core.NamedOf(addr.Type()) != br {
			return "", false
		}
		return strings.Join(parts, "."), true
	}
	// fields that must be reset: digester, reader (by type), and every field below BReader stored in Read
	must := map[string]string{}
	var walkT func(t types.Type, prefix string, d int)
	walkT = func(t types.Type, prefix string, d int) {
		st, ok := t.Underlying().(*types.Struct)
		if !ok || d > 2 {
			return
		}
		for i := 0; i < st.NumFields(); i++ {
			f := st.Field(i)
			if core.IsNamed(f.Type(), "github.com/opencontainers/go-digest", "Digester") {
				must[prefix+f.Name()] = "the digester"
			} else if _, isPtr := f.Type().(*types.Pointer); !isPtr {
				if nt, isNamed := f.Type().(*types.Named); isNamed && nt.Obj().Pkg() != nil && nt.Obj().Pkg().Path() == modPath("types/blob") {
					walkT(f.Type(), prefix+f.Name()+".", d+1)
				}
			}
		}
	}
	walkT(br, "", 0)
	readUnit := core.Helpers(read, 2)
	// the verifying reader: the field Read reads from
	for _, rf := range sortedFuncs(readUnit) {
		core.Calls(rf, func(c ssa.CallInstruction) {
			if isInvoke(c, "Read") {
				if u, ok := c.Common().Value.(*ssa.UnOp); ok {
					if pth, ok := pathOf(u.X); ok {
						must[pth] = "the verifying reader"
					}
				}
			}
		})
		for _, b := range rf.Blocks {
			for _, in := range b.Instrs {
				if st, ok := in.(*ssa.Store); ok {
					if pth, ok := pathOf(st.Addr); ok && must[pth] == "" && !embeddedRoot(br, pth) {
						must[pth] = "state written by Read"
					}
				}
			}
		}
	}
	// a helper of Seek that stores a path (or a prefix of it) counts as that store at its call site
	seekUnit := core.Helpers(seek, 2)
	storesPath := func(in ssa.Instruction, f string) bool {
		covers := func(pth string) bool { return pth == f || strings.HasPrefix(f, pth+".") }
		if s, ok := in.(*ssa.Store); ok {
			if pth, ok := pathOf(s.Addr); ok && covers(pth) {
				return true
			}
		}
		if c, ok := in.(ssa.CallInstruction); ok {
			if h := core.CalleeFn(c); h != nil && h != seek && seekUnit[h] {
				for _, hb := range h.Blocks {
					for _, hin := range hb.Instrs {
						if s, ok := hin.(*ssa.Store); ok {
							if pth, ok := pathOf(s.Addr); ok && covers(pth) {
								return true
							}
						}
					}
				}
			}
		}
		return false
	}
	// the underlying seek
	var under ssa.Instruction
	core.Calls(seek, func(c ssa.CallInstruction) {
		if isInvoke(c, "Seek") {
			under = c.(ssa.Instruction)
		}
	})
	if under == nil {
		r.Undecided(rule, fname, "underlying Seek", p.Pos(seek.Pos()), "no Seek on the original reader found")
		return
	}
	for f, why := range must {
		f := f
		stop := func(in ssa.Instruction) bool { return storesPath(in, f) }
		bad := ""
		// a rewind that did not land on offset 0 is not a rewind: returns behind the `o != 0` edge of
		// the underlying Seek's own result are outside the rule
		notAtStart := func(from, to *ssa.BasicBlock) bool {
			ifi, ok := core.LastInstr(from).(*ssa.If)
			if !ok {
				return false
			}
			cnd, pol := core.StripNot(ifi.Cond, true)
			bo, ok := cnd.(*ssa.BinOp)
			if !ok || (bo.Op != token.NEQ && bo.Op != token.EQL) {
				return false
			}
			k, isK := core.ConstInt(bo.Y)
			if !isK || k != 0 {
				return false
			}
			fromSeek := false
			for _, o := range core.Origins(bo.X, core.SliceOpts{}) {
				if o.Kind == core.OCall && ssa.Instruction(o.Call) == under && (o.Res == 0 || o.Res == -1) {
					fromSeek = true
				}
			}
			if !fromSeek {
				return false
			}
			if (bo.Op == token.NEQ) == pol {
				return to == from.Succs[0]
			}
			return to == from.Succs[1]
		}
		for in := range (core.Reach{Stop: stop, StopEdge: notAtStart}).FromInstr(under) {
			if ret, isRet := in.(*ssa.Return); isRet && core.IsNilConst(core.ReturnOperand(ret, 1)) {
				// the early `offset != 0` style returns carry an error or the old position: only nil-error returns count
				bad = p.Pos(ret.Pos())
			}
		}
		if bad == "" {
			r.Held(rule, fname, "resets "+f, p.Pos(under.Pos()), why+" is stored again before Seek reports success")
		} else {
			r.Violated(rule, fname, "resets "+f, p.Pos(under.Pos()), "Seek can report success at "+bad+" without resetting "+f+" ("+why+"): the second pass over the stream is not verified like the first")
		}
	}
	// the new reader tees into the new digester
	teeOK := false
	helpers := seekUnit
	var readerVals []ssa.Value
	for _, sf := range sortedFuncs(seekUnit) {
		for _, b := range sf.Blocks {
			for _, in := range b.Instrs {
				st, ok := in.(*ssa.Store)
				if !ok {
					continue
				}
				pth, ok := pathOf(st.Addr)
				if !ok {
					continue
				}
				if must[pth] == "the verifying reader" {
					readerVals = append(readerVals, st.Val)
				}
				// a whole-struct store: the value of the reader field inside the stored struct
				for mp, why := range must {
					if why == "the verifying reader" && strings.HasPrefix(mp, pth+".") {
						for _, o := range core.Origins(st.Val, core.SliceOpts{Helpers: helpers}) {
							if al, isAl := o.Val.(*ssa.Alloc); isAl {
								for _, fs2 := range core.StoresToCellFields(al) {
									readerVals = append(readerVals, fs2)
								}
							}
						}
					}
				}
			}
		}
	}
	for _, rv := range readerVals {
		for _, o := range core.Origins(rv, core.SliceOpts{Helpers: helpers}) {
			if o.Kind != core.OCall {
				continue
			}
			if cal := o.Callee(); cal != nil && core.IsFunc(cal, "io", "TeeReader") {
				for _, h := range core.Origins(o.Call.Call.Args[1], core.SliceOpts{Helpers: helpers}) {
					if h.Kind == core.OCall && h.Callee() != nil && h.Callee().Name() == "Hash" {
						teeOK = true
					}
				}
			}
		}
	}
	r.Check(teeOK, rule, fname, "new reader feeds the new digester", p.Pos(seek.Pos()), "the reader installed by Seek is io.TeeReader(limited stream, digester.Hash())")
}

func c01R5(p *core.Prog, r *core.Report) {
	const rule = "C01.R5"
	r.Rule(rule, "inline data is verified before use: GetData returns the data only behind the length comparison and the digest comparison with FromBytes(data)", 2)
	fn := p.Method("types/descriptor", "Descriptor", "GetData")
	if fn == nil {
		r.MissingAnchor(rule, "types/descriptor.Descriptor.GetData")
		return
	}
	fname := p.FuncName(fn)
	var okRets []*ssa.Return
	for _, ret := range core.Returns(fn) {
		if core.IsNilConst(core.ReturnOperand(ret, 1)) {
			okRets = append(okRets, ret)
		}
	}
	lenCmp, digCmp := false, false
	for _, b := range fn.Blocks {
		ifi, ok := core.LastInstr(b).(*ssa.If)
		if !ok {
			continue
		}
		cnd, pol := core.StripNot(ifi.Cond, true)
		bo, ok := cnd.(*ssa.BinOp)
		if !ok || (bo.Op != token.NEQ && bo.Op != token.EQL) {
			continue
		}
		mismatch := b.Succs[0]
		if (bo.Op == token.NEQ) != pol {
			mismatch = b.Succs[1]
		}
		reaches := false
		for in := range (core.Reach{}).FromEdge(b, mismatch) {
			for _, ret := range okRets {
				if in == ssa.Instruction(ret) {
					reaches = true
				}
			}
		}
		switch {
		case isDigestType(bo.X.Type()):
			from := false
			for _, side := range []ssa.Value{bo.X, bo.Y} {
				for _, oc := range originCalls(side) {
					cal := core.Callee(oc)
					if cal != nil && cal.Name() == "FromBytes" {
						from = true
					}
					// the same computed by hand: a Digester whose hash was fed the Data field
					if cal != nil && cal.Name() == "Digest" && core.IsNamed(core.CallArg(oc, 0).Type(), "github.com/opencontainers/go-digest", "Digester") {
						fed := false
						core.Calls(fn, func(w ssa.CallInstruction) {
							if wc := core.Callee(w); wc != nil && wc.Name() == "Write" {
								for _, a := range w.Common().Args {
									if dependsOnField(a, modPath("types/descriptor"), "Descriptor", "Data") {
										fed = true
									}
								}
							}
						})
						if fed {
							from = true
						}
					}
				}
			}
			digCmp = from && !reaches
		case isIntegerType(bo.X.Type()):
			lenCmp = !reaches
		}
	}
	r.Check(lenCmp, rule, fname, "length compared", p.Pos(fn.Pos()), "no success return is reachable from the edge on which len(Data) differs from Size")
	r.Check(digCmp, rule, fname, "digest compared", p.Pos(fn.Pos()), "no success return is reachable from the edge on which FromBytes(Data) differs from Digest")
}

func c01R6(p *core.Prog, r *core.Report) {
	const rule = "C01.R6"
	r.Rule(rule, "resume guards: a range request whose answer lacks Content-Range, and an answer whose Content-Length differs from the expected length, end the attempt with an error", 2)
	next := p.Method("internal/reghttp", "Resp", "next")
	if next == nil {
		r.MissingAnchor(rule, "internal/reghttp.(*Resp).next")
		return
	}
	crOK, clOK := false, false
	var scope []*ssa.Function
	seenFn := map[*ssa.Function]bool{}
	for _, f := range core.WithAnon(next) {
		for h := range core.Helpers(f, 2) {
			for _, g := range core.WithAnon(h) {
				if !seenFn[g] {
					seenFn[g] = true
					scope = append(scope, g)
				}
			}
		}
	}
	for _, fn := range scope {
		for _, b := range fn.Blocks {
			ifi, ok := core.LastInstr(b).(*ssa.If)
			if !ok {
				continue
			}
			cnd, pol := core.StripNot(ifi.Cond, true)
			bo, ok := cnd.(*ssa.BinOp)
			if !ok || (bo.Op != token.EQL && bo.Op != token.NEQ) {
				continue
			}
			errRet := func(succ *ssa.BasicBlock) bool {
				ret, isRet := core.LastInstr(succ).(*ssa.Return)
				if !isRet {
					return false
				}
				v := core.ReturnOperand(ret, len(ret.Results)-1)
				return v != nil && !core.IsNilConst(v)
			}
			// successor taken when the two sides are equal / differ
			eqSucc, neSucc := b.Succs[0], b.Succs[1]
			if (bo.Op == token.EQL) != pol {
				eqSucc, neSucc = neSucc, eqSucc
			}
			// Header.Get("Content-Range") == ""
			for _, side := range []ssa.Value{bo.X, bo.Y} {
				if c, isCall := side.(*ssa.Call); isCall {
					if cal := core.Callee(c); cal != nil && core.IsMethod(cal, "net/http", "Header", "Get") {
						if s, isS := core.ConstString(c.Call.Args[len(c.Call.Args)-1]); isS && strings.EqualFold(s, "Content-Range") && errRet(eqSucc) {
							crOK = true
						}
					}
				}
			}
			if (fieldLoadOf(bo.X, modPath("internal/reghttp"), "Resp", "readMax") || fieldLoadOf(bo.Y, modPath("internal/reghttp"), "Resp", "readMax")) && errRet(neSucc) {
				clOK = true
			}
		}
	}
	r.Check(crOK, rule, p.FuncName(next), "Content-Range required on resume", p.Pos(next.Pos()), "a 2xx answer to a Range request without Content-Range (a server that restarts from offset 0) is refused")
	r.Check(clOK, rule, p.FuncName(next), "Content-Length compared", p.Pos(next.Pos()), "an answer whose Content-Length differs from the expected length is refused")
}

func c01R7(p *core.Prog, r *core.Report) {
	const rule = "C01.R7"
	r.Rule(rule, "nobody bypasses the verifying reader: the raw stream fields of BReader are only touched by its own methods and constructor", 2)
	br := p.Named("types/blob", "BReader")
	if br == nil {
		r.MissingAnchor(rule, "types/blob.BReader")
		return
	}
	streamFields := map[string]bool{}
	st := br.Underlying().(*types.Struct)
	for i := 0; i < st.NumFields(); i++ {
		if core.IsNamed(st.Field(i).Type(), "io", "Reader") {
			streamFields[st.Field(i).Name()] = true
		}
	}
	n := 0
	bad := ""
	for _, fn := range p.ModFuncs {
		for _, b := range fn.Blocks {
			for _, in := range b.Instrs {
				fa, ok := in.(*ssa.FieldAddr)
				if !ok {
					continue
				}
				nn, f := core.FieldAddrInfo(fa)
				if nn != br || !streamFields[f] {
					continue
				}
				n++
				root := fn
				for root.Parent() != nil {
					root = root.Parent()
				}
				own := root.Signature.Recv() != nil && core.NamedOf(root.Signature.Recv().Type()) == br
				if !own && root.Name() != "NewReader" {
					bad = p.FuncName(fn) + " at " + p.Pos(in.Pos())
				}
			}
		}
	}
	r.Check(bad == "" && n > 0, rule, "types/blob.BReader", "raw stream fields private to the reader", "-", fmt.Sprintf("%d accesses, all in methods of BReader / NewReader (%s)", n, bad))
	// ToTarReader hands the verifying reader (not the raw stream) or wraps with the descriptor
	tt := p.Method("types/blob", "BReader", "ToTarReader")
	if tt == nil {
		return
	}
	ok := false
	core.Calls(tt, func(c ssa.CallInstruction) {
		if cal := core.Callee(c); cal != nil && cal.Name() == "NewTarReader" {
			call, isCall := c.(*ssa.Call)
			if !isCall {
				return
			}
			for _, oc := range optCalls(call.Call.Args[0]) {
				if f := core.Callee(oc); f != nil && f.Name() == "WithDesc" {
					ok = true
				}
			}
		}
	})
	r.Check(ok, rule, p.FuncName(tt), "tar reader keeps the descriptor", p.Pos(tt.Pos()), "the tar reader built from a blob reader is given the blob's descriptor to verify against")
}

// c01R8: the verifying chain of a BReader is drained by Read. Another function of the package that
// reads the chain itself bypasses the comparisons Read makes at EOF unless it makes them too (through
// the helper Read uses) and hands their result back.
func c01R8(p *core.Prog, r *core.Report, verifiers map[*ssa.Function]bool) {
	const rule = "C01.R8"
	r.Rule(rule, "the verifying chain of a BReader (field reader) is consumed only by BReader.Read; any other function of the package that reads it runs the EOF comparisons afterwards on every path that does not fail, and returns their result unless that result is identical to io.EOF or nil", 1)
	read := p.Method("types/blob", "BReader", "Read")
	if read == nil {
		r.MissingAnchor(rule, "types/blob.(*BReader).Read")
		return
	}
	inRead := core.Helpers(read, 3)
	isChain := func(v ssa.Value) bool {
		for i := 0; i < 4; i++ {
			switch x := v.(type) {
			case *ssa.MakeInterface:
				v = x.X
				continue
			case *ssa.ChangeInterface:
				v = x.X
				continue
			case *ssa.UnOp:
				if x.Op == token.MUL {
					if fa, ok := x.X.(*ssa.FieldAddr); ok && core.FieldName(fa.X.Type(), fa.Field) == "reader" {
						// directly in the reader, or in a per-pass struct nested in it
						root := fa.X
						for d := 0; d < 3; d++ {
							if core.IsModNamed(root.Type(), "types/blob", "BReader") {
								return true
							}
							up, isFA := root.(*ssa.FieldAddr)
							if !isFA {
								break
							}
							root = up.X
						}
					}
				}
			}
			return false
		}
		return false
	}
	for _, f := range p.ModFuncs {
		if inRead[f] || len(f.Blocks) == 0 {
			continue
		}
		fname := p.FuncName(f)
		for _, b := range f.Blocks {
			for _, in := range b.Instrs {
				c, ok := in.(*ssa.Call)
				if !ok {
					continue
				}
				uses := c.Call.IsInvoke() && isChain(c.Call.Value)
				for _, a := range c.Call.Args {
					uses = uses || isChain(a)
				}
				if !uses {
					continue
				}
				label := "chain consumed"
				if cal := core.Callee(c); cal != nil {
					label = "chain consumed by " + cal.Name()
				}
				if res := c.Call.Signature().Results(); res.Len() == 1 {
					if _, isFn := res.At(0).Type().Underlying().(*types.Signature); isFn {
						r.Held(rule, fname, label, p.Pos(c.Pos()), "handed on as a constructor option before anything was read (the receiving reader wraps it in its own verifying chain)")
						continue
					}
				}
				// the error of the consuming call
				var drainErr ssa.Value
				res := c.Call.Signature().Results()
				if res.Len() == 1 {
					drainErr = c
				} else {
					for _, ref := range *c.Referrers() {
						if ex, ok := ref.(*ssa.Extract); ok && ex.Index == res.Len()-1 {
							drainErr = ex
						}
					}
				}
				var paths []core.BlockPath
				okAll := true
				if _, isRet := core.LastInstr(b).(*ssa.Return); isRet {
					paths = []core.BlockPath{{b}}
				}
				for _, sc := range b.Succs {
					ps, ok := core.EnumPaths(b, sc, 512)
					okAll = okAll && ok
					paths = append(paths, ps...)
				}
				if !okAll {
					r.Undecided(rule, fname, label, p.Pos(c.Pos()), "the verifying chain is read in a loop outside BReader.Read: the paths to the return cannot be enumerated")
					continue
				}
				bare, replaced := 0, 0
				sample := ""
				for _, path := range paths {
					var ver *ssa.Call
					failed := false
					var eqNilOrEOF []ssa.Value
					for k, pb := range path {
						for _, pin := range pb.Instrs {
							if k == 0 && pin.Pos() != token.NoPos && pin.Pos() < c.Pos() && pin.Block() == b {
								continue
							}
							if vc, ok := pin.(*ssa.Call); ok && verifiers[core.CalleeFn(vc)] {
								ver = vc
							}
						}
						ifi, ok := core.LastInstr(pb).(*ssa.If)
						if !ok {
							continue
						}
						taken := core.EdgeTaken(path, pb)
						if taken < 0 {
							continue
						}
						cnd, pol := core.StripNot(ifi.Cond, true)
						bo, ok := cnd.(*ssa.BinOp)
						if !ok || (bo.Op != token.EQL && bo.Op != token.NEQ) {
							continue
						}
						truth := (taken == 0) == pol
						eq := (bo.Op == token.EQL) == truth
						for _, pair := range [][2]ssa.Value{{bo.X, bo.Y}, {bo.Y, bo.X}} {
							x, y := core.PhiOnPath(pair[0], path), pair[1]
							if core.IsNilConst(y) || globalNamed(y, "EOF") {
								if eq {
									eqNilOrEOF = append(eqNilOrEOF, x)
								} else if core.IsNilConst(y) && drainErr != nil && x == drainErr {
									failed = true
								}
							}
						}
					}
					ret := core.LastInstr(path[len(path)-1]).(*ssa.Return)
					if len(ret.Results) == 0 {
						bare++
						continue
					}
					v := core.PhiOnPath(core.ReturnOperand(ret, len(ret.Results)-1), path)
					if ver == nil {
						if !failed {
							bare++
						}
						continue
					}
					ok := v == ssa.Value(ver)
					if fc, isCall := v.(*ssa.Call); isCall && !ok {
						for _, a := range fc.Call.Args {
							for _, o := range core.Origins(a, core.SliceOpts{}) {
								if o.Kind == core.OCall && o.Call == ver {
									ok = true
								}
							}
						}
					}
					for _, x := range eqNilOrEOF {
						if x == ssa.Value(ver) {
							ok = true
						}
					}
					if !ok {
						replaced++
						sample = v.String()
					}
				}
				r.Check(bare == 0, rule, fname, label+": EOF comparisons follow", p.Pos(c.Pos()),
					fmt.Sprintf("%d of %d paths from this read of the verifying chain reach a return without the read having failed and without the EOF comparisons of BReader.Read (content of the wrong size or digest would be accepted)", bare, len(paths)))
				r.Check(replaced == 0, rule, fname, label+": verification result returned", p.Pos(c.Pos()),
					fmt.Sprintf("%d of %d paths run the EOF comparisons and then return %s instead of their result, without having established that the result is io.EOF itself or nil (a mismatch error wraps io.EOF)", replaced, len(paths), sample))
			}
		}
	}
}

// c01R12: the end of an archive is the end of the stream, not an error that mentions it. The
// verifying reader reports a size or digest mismatch with an error that wraps io.EOF (the mismatch is
// found at the end of the stream); archive/tar hands that error through Next unchanged when it arrives
// between two entries. A consumer that ends its entry loop on errors.Is(err, io.EOF) takes the
// mismatch for the end of the archive. Consumers that compute a digest of their own after the loop
// (the layer reader, the layer rewriter) are not affected.
func c01R12(p *core.Prog, r *core.Report) {
	const rule = "C01.R12"
	r.Rule(rule, "an archive walk ends on io.EOF itself: where the error of (*tar.Reader).Next is matched with errors.Is(err, io.EOF) in a function outside package mod that has no digest of its own to check (no call of a Digest method), a mismatch error of the verifying reader — which wraps io.EOF — ends the walk like a complete archive", 1)
	n := 0
	lab := map[*ssa.Function]labeler{}
	for _, fn := range p.ModFuncs {
		if len(fn.Blocks) == 0 {
			continue
		}
		// package mod rewrites layers and digests what it reads and what it writes in the step that
		// drives these walks (C13); its nested walks are not consumers of a verified blob stream
		if pk := core.FuncPkg(fn); pk != nil && pk.Path() == modPath("mod") {
			continue
		}
		ownDigest := false
		var sites []*ssa.Call
		core.Calls(fn, func(c ssa.CallInstruction) {
			cal := core.Callee(c)
			if cal == nil {
				return
			}
			if cal.Name() == "Digest" && len(c.Common().Args) <= 1 {
				ownDigest = true
			}
			call, ok := c.(*ssa.Call)
			if !ok || !core.IsFunc(cal, "errors", "Is") || len(call.Call.Args) != 2 {
				return
			}
			// the target is io.EOF
			tgt, isLoad := call.Call.Args[1].(*ssa.UnOp)
			if !isLoad || tgt.Op != token.MUL {
				return
			}
			g, isG := tgt.X.(*ssa.Global)
			if !isG || g.Pkg == nil || g.Pkg.Pkg.Path() != "io" || g.Name() != "EOF" {
				return
			}
			// the error comes from the next-entry call of a tar reader
			for _, oc := range originCalls(call.Call.Args[0]) {
				if f := core.Callee(oc); f != nil && f.Pkg() != nil && f.Pkg().Path() == "archive/tar" && f.Name() == "Next" {
					sites = append(sites, call)
				}
			}
		})
		for _, s := range sites {
			n++
			if lab[fn] == nil {
				lab[fn] = labeler{}
			}
			r.Check(ownDigest, rule, p.FuncName(fn), lab[fn].next("end of the archive"), p.Pos(s.Pos()),
				"the entry loop ends when the error of Next merely wraps io.EOF, and the function checks no digest afterwards: a truncated or altered blob whose mismatch is reported at the end of the stream is extracted as if it were complete")
		}
	}
	if n == 0 {
		r.Held(rule, "module", "end of the archive", "", "no archive walk matches the end of the stream with errors.Is")
	}
}

// embeddedRoot: the first element of the access path is an embedded field of the struct (the common
// part of a blob: descriptor, reference — what Read learns about the blob is not per-pass state).
func embeddedRoot(n *types.Named, pth string) bool {
	st, ok := n.Underlying().(*types.Struct)
	if !ok {
		return false
	}
	root := pth
	if i := strings.Index(pth, "."); i >= 0 {
		root = pth[:i]
	}
	for i := 0; i < st.NumFields(); i++ {
		if f := st.Field(i); f.Name() == root && f.Embedded() {
			return true
		}
	}
	return false
}

// c01R13: the comparisons of R2 end a mismatching stream with an error. That error is the only thing
// that tells the consumer apart from a clean read, so it has to be looked at: a copy out of a blob
// reader whose error result is never used (assigned to a shadowed variable, to `_`, or dropped) turns
// every mismatch into success.
func c01R13(p *core.Prog, r *core.Report) {
	const rule = "C01.R13"
	r.Rule(rule, "the error that ends a blob's stream is heard: for every io.Copy / io.CopyBuffer / io.ReadAll in the module whose source is a reader of types/blob, the error result is used (tested, returned, wrapped or passed on)", 3)
	isBlobSrc := func(v ssa.Value) bool {
		v = underIface(v)
		if n := core.NamedOf(v.Type()); n != nil && n.Obj().Pkg() != nil && n.Obj().Pkg().Path() == modPath("types/blob") {
			return true
		}
		for _, o := range core.Origins(v, core.SliceOpts{}) {
			if o.Kind == core.OCall {
				if n := core.NamedOf(o.Call.Type()); n != nil && n.Obj().Pkg() != nil && n.Obj().Pkg().Path() == modPath("types/blob") {
					return true
				}
				if tup, ok := o.Call.Type().(*types.Tuple); ok && o.Res >= 0 && o.Res < tup.Len() {
					if n := core.NamedOf(tup.At(o.Res).Type()); n != nil && n.Obj().Pkg() != nil && n.Obj().Pkg().Path() == modPath("types/blob") {
						return true
					}
				}
			}
		}
		return false
	}
	n := 0
	for _, fn := range p.ModFuncs {
		if fn.Synthetic != "" || len(fn.Blocks) == 0 {
			continue
		}
		lab := labeler{}
		core.Calls(fn, func(c ssa.CallInstruction) {
			cal := core.Callee(c)
			if cal == nil {
				return
			}
			srcIdx := -1
			switch {
			case core.IsFunc(cal, "io", "Copy"), core.IsFunc(cal, "io", "CopyBuffer"):
				srcIdx = 1
			case core.IsFunc(cal, "io", "ReadAll"):
				srcIdx = 0
			}
			if srcIdx < 0 || srcIdx >= len(c.Common().Args) || !isBlobSrc(c.Common().Args[srcIdx]) {
				return
			}
			n++
			used := false
			if call, ok := c.(*ssa.Call); ok && call.Referrers() != nil {
				for _, u := range *call.Referrers() {
					ex, ok := u.(*ssa.Extract)
					if !ok || !isErr(ex.Type()) || ex.Referrers() == nil {
						continue
					}
					for _, uu := range *ex.Referrers() {
						if _, isDbg := uu.(*ssa.DebugRef); !isDbg {
							used = true
						}
					}
				}
			}
			r.Check(used, rule, p.FuncName(fn), lab.next(cal.Name()+" from a blob reader"), p.Pos(c.Pos()),
				"the error result of this read of a blob is never used (dropped, assigned to `_` or to a variable that is not read again): a digest or size mismatch reported at the end of the stream goes unnoticed and the bytes are kept")
		})
	}
	if n == 0 {
		r.MissingAnchor(rule, "copies out of blob readers")
	}
}

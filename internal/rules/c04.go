package rules

import (
	"fmt"
	"go/ast"
	"go/token"
	"go/types"
	"strings"

	"golang.org/x/tools/go/cfg"
	"golang.org/x/tools/go/ssa"

	"verif/internal/core"
)

func init() {
	register(&Spec{
		ID: "C04",
		Decides: "in the copy traversal every goroutine is counted before it is started and sends exactly one completion on every path, as its last client effect; the barrier loop receives exactly one completion per decrement on every iteration path; " +
			"every path to the manifest write passes the barrier's exit and the nil edge of the error received there, no goroutine is started after the barrier and no client call follows the write; " +
			"children are addressed by digest with the child flag, tags without it; completions carry the child's own error (a failed blob transfer never reports success, the shared 'seen' entry records the copy's real error); layout: manifest file before index (C07.R3).",
		NotCovered: "what registries do with accepted requests; cancellation timing inside third-party code; the retries of loop-detected referrers/digest-tags (finalFn) run after the top-level write by design.",
		Run:        runC04,
	})
}

// copyTraversal finds the copy traversal: the function of the root package that starts goroutines
// and calls (*RegClient).ManifestPut.
func copyTraversal(p *core.Prog) *ssa.Function {
	for _, fn := range pkgFuncs(p, ".") {
		if fn.Parent() != nil {
			continue
		}
		hasGo, hasPut := false, false
		// goroutines may be started by a local literal (a spawn wrapper)
		for _, f := range core.WithAnon(fn) {
			core.Calls(f, func(c ssa.CallInstruction) {
				if _, ok := c.(*ssa.Go); ok {
					hasGo = true
				}
			})
		}
		core.Calls(fn, func(c ssa.CallInstruction) {
			if cal := core.Callee(c); cal != nil && core.IsModMethod(cal, ".", "RegClient", "ManifestPut") {
				hasPut = true
			}
		})
		if hasGo && hasPut {
			return fn
		}
	}
	return nil
}

type c04ctx struct {
	wrapper types.Object // the local spawn wrapper, when goroutines are started through one
	p       *core.Prog
	r       *core.Report
	fn      *ssa.Function
	syn     *core.FuncSyntax
	info    *types.Info
	name    string
	ch      types.Object // completion channel
	n       types.Object // counter
	lits    []*ast.FuncLit
	gos     []*ast.GoStmt
}

func runC04(p *core.Prog, r *core.Report) {
	r.Rule("C04.R1", "spawn/complete pairing: every go statement of the copy traversal is preceded by an increment of the counter, and its function sends exactly once on the completion channel on every path, after its last client call", 3)
	r.Rule("C04.R2", "barrier: every iteration path of the loop `for n > 0` performs exactly one receive and one decrement; the early non-blocking loop performs as many decrements as receives", 2)
	r.Rule("C04.R3", "the manifest write is behind the barrier: every path to it passes the barrier's exit and the nil edge of the received error; no goroutine is started after the barrier", 3)
	r.Rule("C04.R4", "children are written by digest with the child flag; a tag is written only without the child flag", 3)
	r.Rule("C04.R5", "nothing mutating follows the manifest write inside the traversal", 1)
	r.Rule("C04.R6", "a failed transfer never reports success: blob copy returns the error of its source read and target write; the shared seen-entry is completed with the copy's own error", 4)
	fn := copyTraversal(p)
	if fn == nil {
		r.MissingAnchor("C04.R1", "copy traversal (function of package regclient that starts goroutines and calls ManifestPut)")
		return
	}
	syn := p.Syntax(fn)
	if syn == nil || syn.Decl == nil {
		r.MissingAnchor("C04.R1", "syntax of "+p.FuncName(fn))
		return
	}
	cx := &c04ctx{p: p, r: r, fn: fn, syn: syn, info: syn.Pkg.TypesInfo, name: p.FuncName(fn)}
	core.RecvHelper = func(info *types.Info, call *ast.CallExpr, argIdx int) bool {
		return oneReceiveHelper(p, info, call, argIdx)
	}
	defer func() { core.RecvHelper = nil }()
	if !cx.collect() {
		return
	}
	cx.r1()
	cx.r2r3r5()
	c04R4(p, r, fn, "C04.R4")
	c04R6(p, r, fn, "C04.R6")
	// the same order inside the layout scheme: content file before the index entry (shared with C07.R3)
	c07R3(p, r, "C04.R7")
	// a layout target: the collector cannot run under the copy and delete children already written (shared with C08.R2)
	c08R2(p, r, "C04.R8")
	// an index entry that is a manifest is copied as a manifest, with its children, never as an opaque blob (shared with C03.R5)
	c03R5(p, r, "C04.R9")
	// children before parents in an import as well (shared with C09.R10)
	importOrderRule(p, r, "C04.R10")
	// a child whose upload failed is never remembered as present (shared with C05.R7)
	afterFailureRule(p, r, "C04.R11")
	c04R12(p, r)
	// an interrupted copy is followed by a Close with the cancelled context: what was in the layout stays complete (shared with C08.R9)
	c08R9(p, r, "C04.R13")
	// 'the target already has this child' is answered per repository: the response cache is keyed by the whole reference (shared with C10.R2)
	c10R2(p, r, "C04.R14")
	// a child that waited for a shared blob learns whether that copy failed (shared with C03.R4)
	c03R4(p, r, "C04.R15")
	refIdentityRule(p, r, "C04.R16")
}

// resolveLit returns the function literal a go statement runs: a literal, or a local variable
// assigned a literal exactly once.
func (cx *c04ctx) resolveLit(g *ast.GoStmt) *ast.FuncLit {
	switch f := g.Call.Fun.(type) {
	case *ast.FuncLit:
		return f
	case *ast.Ident:
		obj := cx.info.Uses[f]
		var lit *ast.FuncLit
		count := 0
		ast.Inspect(cx.syn.Decl.Body, func(n ast.Node) bool {
			as, ok := n.(*ast.AssignStmt)
			if !ok {
				return true
			}
			for i, l := range as.Lhs {
				if id, ok := l.(*ast.Ident); ok && (cx.info.Defs[id] == obj || cx.info.Uses[id] == obj) && i < len(as.Rhs) {
					count++
					lit, _ = as.Rhs[i].(*ast.FuncLit)
				}
			}
			return true
		})
		if count == 1 {
			return lit
		}
	}
	return nil
}

func (cx *c04ctx) collect() bool {
	body := cx.syn.Decl.Body
	core.InspectNoLit(body, func(n ast.Node) bool {
		if g, ok := n.(*ast.GoStmt); ok {
			cx.gos = append(cx.gos, g)
		}
		return true
	})
	if len(cx.gos) == 0 {
		// a spawn wrapper: one local literal that counts and starts the goroutine for every child,
		// `spawn := func(task func() error) { n++; go func() { ch <- task() }() }`
		core.InspectNoLit(body, func(n ast.Node) bool {
			as, ok := n.(*ast.AssignStmt)
			if !ok || len(as.Lhs) != 1 || len(as.Rhs) != 1 {
				return true
			}
			lit, ok := as.Rhs[0].(*ast.FuncLit)
			if !ok {
				return true
			}
			id, ok := as.Lhs[0].(*ast.Ident)
			if !ok {
				return true
			}
			var inner []*ast.GoStmt
			core.InspectNoLit(lit.Body, func(m ast.Node) bool {
				if g, ok := m.(*ast.GoStmt); ok {
					inner = append(inner, g)
				}
				return true
			})
			if len(inner) > 0 && cx.wrapper == nil {
				cx.wrapper = cx.info.Defs[id]
				if cx.wrapper == nil {
					cx.wrapper = cx.info.Uses[id]
				}
				cx.gos = inner
			}
			return true
		})
	}
	if len(cx.gos) == 0 {
		cx.r.MissingAnchor("C04.R1", "go statements in "+cx.name)
		return false
	}
	// completion channel: the channel all literals send on
	chans := map[types.Object]bool{}
	for _, g := range cx.gos {
		lit := cx.resolveLit(g)
		cx.lits = append(cx.lits, lit)
		if lit == nil {
			continue
		}
		core.InspectNoLit(lit.Body, func(n ast.Node) bool {
			if s, ok := n.(*ast.SendStmt); ok {
				if id, ok := ast.Unparen(s.Chan).(*ast.Ident); ok {
					chans[cx.info.Uses[id]] = true
				}
			}
			return true
		})
	}
	if len(chans) != 1 {
		cx.r.Undecided("C04.R1", cx.name, "completion channel", cx.p.Pos(body.Pos()), fmt.Sprintf("goroutines send on %d different channels: completion idiom not recognised", len(chans)))
		return false
	}
	for o := range chans {
		cx.ch = o
	}
	// counter: the variable tested `> 0` by a for loop whose body receives from the channel
	core.InspectNoLit(body, func(n ast.Node) bool {
		fs, ok := n.(*ast.ForStmt)
		if !ok || fs.Cond == nil {
			return true
		}
		if core.CountRecv(cx.info, fs.Body, cx.ch) == 0 {
			return true
		}
		ast.Inspect(fs.Cond, func(x ast.Node) bool {
			if be, ok := x.(*ast.BinaryExpr); ok && (be.Op == token.GTR || be.Op == token.NEQ) {
				if id, ok := ast.Unparen(be.X).(*ast.Ident); ok {
					if bl, ok := be.Y.(*ast.BasicLit); ok && bl.Value == "0" {
						cx.n = cx.info.Uses[id]
					}
				}
			}
			return true
		})
		return true
	})
	if cx.n == nil {
		// the barrier may live in a helper that is handed the channel and the counter
		core.InspectNoLit(body, func(n ast.Node) bool {
			call, ok := n.(*ast.CallExpr)
			if !ok || cx.n != nil {
				return true
			}
			chIdx := -1
			for i, a := range call.Args {
				if id, ok := ast.Unparen(a).(*ast.Ident); ok && cx.info.Uses[id] == cx.ch {
					chIdx = i
				}
			}
			fid, ok := ast.Unparen(call.Fun).(*ast.Ident)
			if chIdx < 0 || !ok {
				return true
			}
			hobj, ok := cx.info.Uses[fid].(*types.Func)
			if !ok {
				return true
			}
			hfn := cx.p.SSA.FuncValue(hobj)
			hsyn := cx.p.Syntax(hfn)
			if hfn == nil || hsyn == nil || hsyn.Decl == nil || hsyn.Decl.Type.Params == nil {
				return true
			}
			var params []types.Object
			for _, f := range hsyn.Decl.Type.Params.List {
				for _, nm := range f.Names {
					params = append(params, hsyn.Pkg.TypesInfo.Defs[nm])
				}
			}
			if chIdx >= len(params) {
				return true
			}
			// the helper's parameter tested `> 0` by a loop that receives from the channel parameter
			ast.Inspect(hsyn.Decl.Body, func(x ast.Node) bool {
				fs, ok := x.(*ast.ForStmt)
				if !ok || fs.Cond == nil || core.CountRecv(hsyn.Pkg.TypesInfo, fs.Body, params[chIdx]) == 0 {
					return true
				}
				ast.Inspect(fs.Cond, func(y ast.Node) bool {
					be, ok := y.(*ast.BinaryExpr)
					if !ok || (be.Op != token.GTR && be.Op != token.NEQ) {
						return true
					}
					id, ok := ast.Unparen(be.X).(*ast.Ident)
					if !ok {
						return true
					}
					for i, po := range params {
						if po == hsyn.Pkg.TypesInfo.Uses[id] && i < len(call.Args) {
							if aid, ok := ast.Unparen(call.Args[i]).(*ast.Ident); ok {
								cx.n = cx.info.Uses[aid]
							}
						}
					}
					return true
				})
				return true
			})
			return true
		})
	}
	if cx.n == nil {
		cx.r.Undecided("C04.R2", cx.name, "barrier loop", cx.p.Pos(body.Pos()), "no loop `for n > 0 { … <-ch … }` found (sync.WaitGroup / errgroup are not used by this code base; any other idiom is undecided)")
		return false
	}
	return true
}

// callsWrapper: the node contains a call of the spawn wrapper (outside literals).
func (cx *c04ctx) callsWrapper(n ast.Node) bool {
	if cx.wrapper == nil {
		return false
	}
	found := false
	core.InspectNoLit(n, func(x ast.Node) bool {
		if call, ok := x.(*ast.CallExpr); ok {
			if id, ok := ast.Unparen(call.Fun).(*ast.Ident); ok && cx.info.Uses[id] == cx.wrapper {
				found = true
			}
		}
		return true
	})
	return found
}

func (cx *c04ctx) isClientCall(n ast.Node) bool {
	found := false
	core.InspectNoLit(n, func(x ast.Node) bool {
		call, ok := x.(*ast.CallExpr)
		if !ok {
			return true
		}
		if sel, ok := call.Fun.(*ast.SelectorExpr); ok {
			if f, ok := cx.info.Uses[sel.Sel].(*types.Func); ok {
				if sig := f.Type().(*types.Signature); sig.Recv() != nil && core.IsModNamed(sig.Recv().Type(), ".", "RegClient") {
					found = true
				}
			}
		}
		return true
	})
	return found
}

func (cx *c04ctx) r1() {
	const rule = "C04.R1"
	for i, g := range cx.gos {
		label := fmt.Sprintf("go#%d", i+1)
		pos := cx.p.Pos(g.Pos())
		// (a) counted before started
		ok, why := cx.countedBefore(g)
		cx.r.Check(ok, rule, cx.name, label+" counted", pos, why)
		lit := cx.lits[i]
		if lit == nil {
			cx.r.Undecided(rule, cx.name, label+" completes once", pos, "goroutine body is not a function literal (or a local variable bound to one literal)")
			continue
		}
		// (b) exactly one send on every path
		g2 := cfg.New(lit.Body, core.MayReturn)
		ps := core.PathSpec{Info: cx.info, CountA: func(n ast.Node) int { return core.CountSend(cx.info, n, cx.ch) }, SkipComm: core.SelectComms(lit.Body)}
		exits := ps.ExitStates(g2, core.PState{})
		bad := ""
		paths := 0
		for b, sts := range exits {
			for s := range sts {
				paths++
				if s.A != 1 {
					where := lit.Body.Rbrace
					if len(b.Nodes) > 0 {
						where = b.Nodes[len(b.Nodes)-1].Pos()
					}
					if s.A == 0 {
						bad = "a path ending at " + cx.p.Pos(where) + " returns without sending its completion: the parent waits forever or (with a counted early exit) writes the manifest without this child"
					} else {
						bad = "a path ending at " + cx.p.Pos(where) + " sends more than one completion: the barrier is satisfied before all children finished and the manifest is written early"
					}
				}
			}
		}
		if bad != "" {
			cx.r.Violated(rule, cx.name, label+" completes once", pos, bad)
		} else {
			cx.r.Held(rule, cx.name, label+" completes once", pos, fmt.Sprintf("every path (%d exit states) sends exactly once", paths))
		}
		// (c) no client call after a send
		after := ""
		for _, b := range g2.Blocks {
			for k, n := range b.Nodes {
				if core.CountSend(cx.info, n, cx.ch) == 0 {
					continue
				}
				// rest of the block and everything reachable
				for _, m := range b.Nodes[k+1:] {
					if cx.isClientCall(m) {
						after = cx.p.Pos(m.Pos())
					}
				}
				seen := map[*cfg.Block]bool{}
				stack := append([]*cfg.Block{}, b.Succs...)
				for len(stack) > 0 {
					x := stack[len(stack)-1]
					stack = stack[:len(stack)-1]
					if seen[x] {
						continue
					}
					seen[x] = true
					for _, m := range x.Nodes {
						if cx.isClientCall(m) {
							after = cx.p.Pos(m.Pos())
						}
					}
					stack = append(stack, x.Succs...)
				}
			}
		}
		if after == "" {
			cx.r.Held(rule, cx.name, label+" send is last", pos, "no client call follows the completion")
		} else {
			cx.r.Violated(rule, cx.name, label+" send is last", pos, "a client call at "+after+" follows the completion: the parent may write its manifest while the child is still writing")
		}
	}
}

// countedBefore: in the statement list that contains the go statement an earlier statement is `n++`
// and only simple statements lie between.
func (cx *c04ctx) countedBefore(g *ast.GoStmt) (bool, string) {
	var list []ast.Stmt
	ast.Inspect(cx.syn.Decl.Body, func(n ast.Node) bool {
		var l []ast.Stmt
		switch b := n.(type) {
		case *ast.BlockStmt:
			l = b.List
		case *ast.CaseClause:
			l = b.Body
		case *ast.CommClause:
			l = b.Body
		}
		for _, s := range l {
			if s == ast.Stmt(g) {
				list = l
			}
		}
		return true
	})
	if list == nil {
		return false, "go statement not found in a statement list"
	}
	idx := -1
	for i, s := range list {
		if s == ast.Stmt(g) {
			idx = i
		}
	}
	for i := idx - 1; i >= 0; i-- {
		s := list[i]
		if core.CountIncDec(cx.info, s, cx.n, token.INC) == 1 {
			if _, isInc := s.(*ast.IncDecStmt); isInc {
				return true, cx.n.Name() + "++ precedes the go statement"
			}
		}
		switch s.(type) {
		case *ast.AssignStmt, *ast.ExprStmt, *ast.DeclStmt:
			continue
		}
		break
	}
	return false, "the goroutine is started without a preceding " + cx.n.Name() + "++ in the same statement list: the barrier does not wait for it and the manifest can be written before this child"
}

// loops analyses every completion-receiving loop of body (see the comment inside) and returns the
// barriers among them together with the control-flow graph of body.
func (cx *c04ctx) loops(body *ast.BlockStmt) ([]*ast.ForStmt, *cfg.CFG) {
	g := cfg.New(body, core.MayReturn)
	selectEdge := func(b *cfg.Block) int {
		if b.Kind != cfg.KindSelectCaseBody {
			return 0
		}
		if cc, ok := b.Stmt.(*ast.CommClause); ok && cc.Comm != nil {
			return core.CountRecv(cx.info, cc.Comm, cx.ch)
		}
		return 0
	}
	isCounterPositive := func(e ast.Expr) bool {
		be, ok := ast.Unparen(e).(*ast.BinaryExpr)
		if !ok {
			return false
		}
		isN := func(x ast.Expr) bool {
			id, ok := ast.Unparen(x).(*ast.Ident)
			return ok && cx.info.Uses[id] == cx.n
		}
		isLit := func(x ast.Expr, v string) bool {
			bl, ok := ast.Unparen(x).(*ast.BasicLit)
			return ok && bl.Value == v
		}
		switch be.Op {
		case token.GTR:
			return isN(be.X) && isLit(be.Y, "0")
		case token.LSS:
			return isLit(be.X, "0") && isN(be.Y)
		case token.NEQ:
			return (isN(be.X) && isLit(be.Y, "0")) || (isLit(be.X, "0") && isN(be.Y))
		case token.GEQ:
			return isN(be.X) && isLit(be.Y, "1")
		}
		return false
	}
	// every loop of the traversal (outside literals) whose body receives a completion, analysed on the
	// function's CFG: states on the paths from the loop body to the next evaluation of the condition
	// (an iteration, including the post statement), to the loop's exit block (a break, also a labelled
	// one from inside a switch or select) and to a return
	var barriers []*ast.ForStmt // exits only through `n > 0` turning false
	nLoops := 0
	core.InspectNoLit(body, func(n ast.Node) bool {
		fs, ok := n.(*ast.ForStmt)
		if !ok || core.CountRecv(cx.info, fs.Body, cx.ch) == 0 {
			return true
		}
		nLoops++
		const rule = "C04.R2"
		pos := cx.p.Pos(fs.Pos())
		label := fmt.Sprintf("completion loop#%d", nLoops)
		var bodyBlk, condBlk, doneBlk *cfg.Block
		for _, b := range g.Blocks {
			if b.Stmt != ast.Stmt(fs) {
				continue
			}
			switch b.Kind {
			case cfg.KindForBody:
				bodyBlk = b
			case cfg.KindForLoop:
				condBlk = b
			case cfg.KindForDone:
				doneBlk = b
			}
		}
		if bodyBlk == nil || doneBlk == nil {
			cx.r.Undecided(rule, cx.name, label, pos, "blocks of the loop not found in the control-flow graph")
			return true
		}
		var flag types.Object
		if fs.Cond != nil {
			ast.Inspect(fs.Cond, func(x ast.Node) bool {
				if u, ok := x.(*ast.UnaryExpr); ok && u.Op == token.NOT {
					if id, ok := ast.Unparen(u.X).(*ast.Ident); ok {
						if _, isVar := cx.info.Uses[id].(*types.Var); isVar {
							flag = cx.info.Uses[id]
						}
					}
				}
				return true
			})
		}
		ps := core.PathSpec{Info: cx.info,
			CountA:   func(n ast.Node) int { return core.CountRecv(cx.info, n, cx.ch) },
			CountB:   func(n ast.Node) int { return core.CountIncDec(cx.info, n, cx.n, token.DEC) },
			EdgeA:    selectEdge,
			FlagObj:  flag,
			SkipComm: core.SelectComms(fs.Body),
		}
		entry := core.PState{}
		if flag != nil {
			entry.Flag = 2 // the loop condition established !flag
		}
		stop := map[*cfg.Block]bool{doneBlk: true}
		if condBlk != nil {
			stop[condBlk] = true
		}
		atStop, _ := ps.StatesFrom(bodyBlk, entry, stop, condBlk == nil)
		iter := atStop[condBlk]
		if condBlk == nil {
			iter = atStop[bodyBlk]
		}
		brk := atStop[doneBlk]
		bad := ""
		for s := range iter {
			if s.A != s.B {
				bad = fmt.Sprintf("an iteration path performs %d receive(s) and %d decrement(s): the counter no longer equals the number of outstanding children (the barrier can end early or block forever)", s.A, s.B)
			}
		}
		for s := range brk {
			if s.A != s.B {
				bad = fmt.Sprintf("a path that breaks out of the loop performs %d receive(s) and %d decrement(s): the counter no longer equals the number of outstanding children", s.A, s.B)
			}
		}
		if len(iter) == 0 && len(brk) == 0 {
			cx.r.Undecided(rule, cx.name, label, pos, "no iteration path found")
			return true
		}
		// a barrier: the condition is exactly `n > 0`, nothing breaks out of it, and every iteration
		// blocks on a completion (no spinning)
		// `for err == nil && n > 0` is a barrier as well: it is left early only with a failure collected,
		// and R3 requires the nil edge of that error between the loop and the write
		counterOrFailed := func(e ast.Expr) bool {
			be, ok := ast.Unparen(e).(*ast.BinaryExpr)
			if !ok || be.Op != token.LAND {
				return false
			}
			isNilTest := func(x ast.Expr) bool {
				c, ok := ast.Unparen(x).(*ast.BinaryExpr)
				if !ok || c.Op != token.EQL {
					return false
				}
				id, ok := ast.Unparen(c.X).(*ast.Ident)
				y, ok2 := ast.Unparen(c.Y).(*ast.Ident)
				if !ok || !ok2 || y.Name != "nil" {
					return false
				}
				v, isVar := cx.info.Uses[id].(*types.Var)
				return isVar && types.Identical(v.Type(), types.Universe.Lookup("error").Type())
			}
			return (isCounterPositive(be.X) && isNilTest(be.Y)) || (isNilTest(be.X) && isCounterPositive(be.Y))
		}
		isBarrier := fs.Cond != nil && (isCounterPositive(fs.Cond) || counterOrFailed(fs.Cond)) && len(brk) == 0
		for s := range iter {
			if s.A == 0 {
				isBarrier = false
			}
		}
		if bad != "" {
			cx.r.Violated(rule, cx.name, label, pos, bad)
		} else {
			kind := "early check"
			if isBarrier {
				kind = "barrier"
			}
			cx.r.Held(rule, cx.name, label, pos, fmt.Sprintf("%s: %d iteration state(s) and %d break state(s), receives and decrements balanced on all of them", kind, len(iter), len(brk)))
		}
		if isBarrier && bad == "" {
			barriers = append(barriers, fs)
		}
		return true
	})
	return barriers, g
}

func (cx *c04ctx) r2r3r5() {
	body := cx.syn.Decl.Body
	barriers, g := cx.loops(body)
	// the barrier may live in a helper that is handed the completion channel and the counter:
	// `err = waitAll(ch, n, …)`; its loop is analysed in the helper and the call stands for the barrier
	var helperCall *ast.CallExpr
	var helperErr types.Object
	if len(barriers) == 0 {
		core.InspectNoLit(body, func(n ast.Node) bool {
			as, ok := n.(*ast.AssignStmt)
			if !ok || len(as.Rhs) != 1 {
				return true
			}
			call, ok := as.Rhs[0].(*ast.CallExpr)
			if !ok {
				return true
			}
			fid, ok := ast.Unparen(call.Fun).(*ast.Ident)
			if !ok {
				return true
			}
			hobj, ok := cx.info.Uses[fid].(*types.Func)
			if !ok {
				return true
			}
			// the error result of the helper and the variable it is assigned to
			errIdx := -1
			if sig, ok := hobj.Type().(*types.Signature); ok {
				for i := 0; i < sig.Results().Len(); i++ {
					if types.Identical(sig.Results().At(i).Type(), types.Universe.Lookup("error").Type()) {
						errIdx = i
					}
				}
			}
			if errIdx < 0 || errIdx >= len(as.Lhs) {
				return true
			}
			chIdx, nIdx := -1, -1
			for i, a := range call.Args {
				if id, ok := ast.Unparen(a).(*ast.Ident); ok {
					if cx.info.Uses[id] == cx.ch {
						chIdx = i
					}
					if cx.info.Uses[id] == cx.n {
						nIdx = i
					}
				}
			}
			if chIdx < 0 || nIdx < 0 {
				return true
			}
			hfn := cx.p.SSA.FuncValue(hobj)
			if hfn == nil {
				return true
			}
			hsyn := cx.p.Syntax(hfn)
			if hsyn == nil || hsyn.Decl == nil || hsyn.Decl.Type.Params == nil {
				return true
			}
			// parameter objects at those positions
			var params []types.Object
			for _, f := range hsyn.Decl.Type.Params.List {
				for _, nm := range f.Names {
					params = append(params, hsyn.Pkg.TypesInfo.Defs[nm])
				}
			}
			if chIdx >= len(params) || nIdx >= len(params) {
				return true
			}
			sub := &c04ctx{p: cx.p, r: cx.r, fn: hfn, syn: hsyn, info: hsyn.Pkg.TypesInfo, name: cx.p.FuncName(hfn), ch: params[chIdx], n: params[nIdx]}
			hb, _ := sub.loops(hsyn.Decl.Body)
			if len(hb) == 0 {
				return true
			}
			// the helper returns only after its barrier: no return is reachable from its entry without
			// passing the exit of the barrier loop
			hg := cfg.New(hsyn.Decl.Body, core.MayReturn)
			var hdone *cfg.Block
			for _, blk := range hg.Blocks {
				if blk.Kind == cfg.KindForDone && blk.Stmt == ast.Stmt(hb[len(hb)-1]) {
					hdone = blk
				}
			}
			early := false
			if hdone != nil {
				seen := map[*cfg.Block]bool{}
				stack := []*cfg.Block{hg.Blocks[0]}
				for len(stack) > 0 {
					x := stack[len(stack)-1]
					stack = stack[:len(stack)-1]
					if seen[x] || x == hdone {
						continue
					}
					seen[x] = true
					if len(x.Succs) == 0 && x.Live {
						// an exit that did not pass the barrier's exit: only allowed inside the loop body as an error return
						inLoop := false
						for _, nd := range x.Nodes {
							if nd.Pos() >= hb[len(hb)-1].Pos() && nd.End() <= hb[len(hb)-1].End() {
								inLoop = true
							}
						}
						if !inLoop {
							early = true
						}
					}
					stack = append(stack, x.Succs...)
				}
			}
			cx.r.Check(hdone != nil && !early, "C04.R2", sub.name, "helper returns after its barrier", cx.p.Pos(hsyn.Decl.Pos()), "every return of the waiting helper lies behind the exit of its barrier loop")
			helperCall = call
			if id, ok := as.Lhs[errIdx].(*ast.Ident); ok {
				helperErr = cx.info.Uses[id]
				if helperErr == nil {
					helperErr = cx.info.Defs[id]
				}
			}
			return true
		})
	}
	if len(barriers) == 0 && helperCall == nil {
		cx.r.Undecided("C04.R2", cx.name, "barrier loop", cx.p.Pos(body.Pos()), "no loop that runs until `"+cx.n.Name()+" > 0` is false, receiving one completion per iteration, found")
		return
	}
	// R3 / R5 on the function-level CFG
	isPut := func(n ast.Node) bool {
		found := false
		core.InspectNoLit(n, func(x ast.Node) bool {
			if call, ok := x.(*ast.CallExpr); ok {
				if sel, ok := call.Fun.(*ast.SelectorExpr); ok {
					if f, ok := cx.info.Uses[sel.Sel].(*types.Func); ok && core.IsModMethod(f, ".", "RegClient", "ManifestPut") {
						found = true
					}
				}
			}
			return true
		})
		return found
	}
	type loc struct {
		b *cfg.Block
		i int
	}
	var puts []loc
	for _, b := range g.Blocks {
		for i, n := range b.Nodes {
			if isPut(n) {
				puts = append(puts, loc{b, i})
			}
		}
	}
	if len(puts) == 0 {
		cx.r.MissingAnchor("C04.R3", "ManifestPut call in "+cx.name)
		return
	}
	// error variable: assigned from a receive inside the last barrier (or from the waiting helper)
	var errObj types.Object
	var doneBlk *cfg.Block
	barrierPos := body.Pos()
	if helperCall != nil {
		errObj = helperErr
		barrierPos = helperCall.Pos()
		for _, b := range g.Blocks {
			for _, nd := range b.Nodes {
				found := false
				core.InspectNoLit(nd, func(x ast.Node) bool {
					if x == ast.Node(helperCall) {
						found = true
					}
					return true
				})
				if found {
					doneBlk = b
				}
			}
		}
	} else {
		last := barriers[len(barriers)-1]
		barrierPos = last.Pos()
		// the variable the completions are collected in: assigned from a receive, or from a variable
		// that a receive defined (`if cur := <-ch; cur != nil { err = cur }`)
		recvVars := map[types.Object]bool{}
		ast.Inspect(last.Body, func(x ast.Node) bool {
			if as, ok := x.(*ast.AssignStmt); ok && len(as.Lhs) == 1 && len(as.Rhs) == 1 && core.IsRecvFrom(cx.info, as.Rhs[0], cx.ch) {
				if id, ok := as.Lhs[0].(*ast.Ident); ok {
					if o := cx.info.Uses[id]; o != nil {
						errObj = o
					} else if o := cx.info.Defs[id]; o != nil {
						recvVars[o] = true
					}
				}
			}
			return true
		})
		if errObj == nil {
			// `err = keep(err, <-ch)`: the completion is handed to a function that decides what to keep
			ast.Inspect(last.Body, func(x ast.Node) bool {
				as, ok := x.(*ast.AssignStmt)
				if !ok || len(as.Lhs) != 1 || len(as.Rhs) != 1 {
					return true
				}
				call, ok := as.Rhs[0].(*ast.CallExpr)
				if !ok {
					return true
				}
				for _, a := range call.Args {
					if core.IsRecvFrom(cx.info, ast.Unparen(a), cx.ch) {
						if id, ok := as.Lhs[0].(*ast.Ident); ok {
							if o := cx.info.Uses[id]; o != nil {
								errObj = o
							}
						}
					}
				}
				return true
			})
		}
		if errObj == nil {
			ast.Inspect(last.Body, func(x ast.Node) bool {
				if as, ok := x.(*ast.AssignStmt); ok && len(as.Lhs) == 1 && len(as.Rhs) == 1 {
					if rid, ok := ast.Unparen(as.Rhs[0]).(*ast.Ident); ok && recvVars[cx.info.Uses[rid]] {
						if id, ok := as.Lhs[0].(*ast.Ident); ok {
							if o := cx.info.Uses[id]; o != nil {
								errObj = o
							}
						}
					}
				}
				return true
			})
		}
		for _, b := range g.Blocks {
			if b.Kind == cfg.KindForDone && b.Stmt == ast.Stmt(last) {
				doneBlk = b
			}
		}
	}
	reach := func(from []*cfg.Block, blocked func(from, to *cfg.Block) bool, skip *cfg.Block) map[*cfg.Block]bool {
		seen := map[*cfg.Block]bool{}
		stack := append([]*cfg.Block{}, from...)
		for len(stack) > 0 {
			x := stack[len(stack)-1]
			stack = stack[:len(stack)-1]
			if seen[x] || x == skip {
				continue
			}
			seen[x] = true
			for _, s := range x.Succs {
				if blocked != nil && blocked(x, s) {
					continue
				}
				stack = append(stack, s)
			}
		}
		return seen
	}
	for k, pl := range puts {
		label := fmt.Sprintf("ManifestPut#%d", k+1)
		pos := cx.p.Pos(pl.b.Nodes[pl.i].Pos())
		if doneBlk == nil {
			cx.r.Undecided("C04.R3", cx.name, label+" behind barrier", pos, "exit block of the barrier loop not found in the CFG")
			continue
		}
		// (i) unreachable when the barrier exit is removed
		without := reach([]*cfg.Block{g.Blocks[0]}, nil, doneBlk)
		cx.r.Check(!without[pl.b], "C04.R3", cx.name, label+" behind barrier", pos,
			"every path from the function entry to the manifest write must pass the exit of the barrier loop at "+cx.p.Pos(barrierPos)+" (otherwise a parent manifest or the tag can be written while children are still in flight)")
		// (ii) behind the nil edge of the received error
		if errObj == nil {
			cx.r.Undecided("C04.R3", cx.name, label+" behind error test", pos, "the barrier does not assign the received completion to a variable")
		} else {
			errTrue := func(from, to *cfg.Block) bool {
				if len(from.Succs) != 2 || len(from.Nodes) == 0 {
					return false
				}
				be, ok := from.Nodes[len(from.Nodes)-1].(*ast.BinaryExpr)
				if !ok || be.Op != token.NEQ {
					return false
				}
				id, ok := ast.Unparen(be.X).(*ast.Ident)
				if !ok || cx.info.Uses[id] != errObj {
					return false
				}
				if y, ok := be.Y.(*ast.Ident); !ok || y.Name != "nil" {
					return false
				}
				return to == from.Succs[0]
			}
			// every path from the barrier exit to the put must pass a false edge of `err != nil`:
			// remove all false edges (and keep true edges): the put must become unreachable.
			falseEdgeRemoved := func(from, to *cfg.Block) bool {
				if len(from.Succs) != 2 || len(from.Nodes) == 0 {
					return false
				}
				be, ok := from.Nodes[len(from.Nodes)-1].(*ast.BinaryExpr)
				if !ok || be.Op != token.NEQ {
					return false
				}
				id, ok := ast.Unparen(be.X).(*ast.Ident)
				if !ok || cx.info.Uses[id] != errObj {
					return false
				}
				return to == from.Succs[1]
			}
			_ = errTrue
			r2 := reach([]*cfg.Block{doneBlk}, falseEdgeRemoved, nil)
			// also the error variable must not be re-assigned between the barrier and the test: checked
			// by requiring the test block to be the first branch after the barrier exit
			cx.r.Check(!r2[pl.b] || pl.b == doneBlk, "C04.R3", cx.name, label+" behind error test", pos,
				"every path from the barrier to the manifest write must pass the nil edge of `"+errObj.Name()+" != nil` (a failed or cancelled child must stop the parent before the write, so the tag does not move)")
		}
		// (iii) no goroutine after the barrier
		after := reach([]*cfg.Block{doneBlk}, nil, nil)
		goAfter := ""
		for b := range after {
			for _, n := range b.Nodes {
				if gs, ok := n.(*ast.GoStmt); ok {
					goAfter = cx.p.Pos(gs.Pos())
				}
				if cx.callsWrapper(n) {
					goAfter = cx.p.Pos(n.Pos())
				}
			}
		}
		cx.r.Check(goAfter == "", "C04.R3", cx.name, label+" no spawn after barrier", pos, "no goroutine may be started between the barrier and the manifest write (found: "+goAfter+")")
		// R5: nothing mutating after the put
		bad := ""
		for _, n := range pl.b.Nodes[pl.i+1:] {
			if cx.isClientCall(n) {
				bad = cx.p.Pos(n.Pos())
			}
		}
		for b := range reach(pl.b.Succs, nil, nil) {
			for _, n := range b.Nodes {
				if cx.isClientCall(n) {
					bad = cx.p.Pos(n.Pos())
				}
				if gs, ok := n.(*ast.GoStmt); ok {
					bad = cx.p.Pos(gs.Pos())
				}
				if cx.callsWrapper(n) {
					bad = cx.p.Pos(n.Pos())
				}
			}
		}
		cx.r.Check(bad == "", "C04.R5", cx.name, label+" is last", pos, "no client call or goroutine may follow the manifest write in the traversal (found: "+bad+"): the tag must be the last thing written")
	}
}

// hasFreeBranch: a break/continue/goto in body that is not nested in an inner loop/switch/select.
func hasFreeBranch(body *ast.BlockStmt) bool {
	found := false
	var walk func(n ast.Node, depth int)
	walk = func(n ast.Node, depth int) {
		ast.Inspect(n, func(x ast.Node) bool {
			if x == nil || x == n {
				return true
			}
			switch y := x.(type) {
			case *ast.FuncLit:
				return false
			case *ast.ForStmt, *ast.RangeStmt, *ast.SwitchStmt, *ast.TypeSwitchStmt, *ast.SelectStmt:
				walk(y, depth+1)
				return false
			case *ast.BranchStmt:
				if depth == 0 || y.Tok == token.GOTO || y.Label != nil {
					found = true
				}
				// `continue` inside a switch/select still targets the barrier loop
				if y.Tok == token.CONTINUE {
					if _, isLoop := n.(*ast.ForStmt); !isLoop {
						if _, isRange := n.(*ast.RangeStmt); !isRange {
							found = true
						}
					}
				}
			}
			return true
		})
	}
	walk(body, 0)
	return found
}

// ---------------------------------------------------------------------------------------------
// R4 (SSA): recursive calls

func c04R4(p *core.Prog, r *core.Report, fn *ssa.Function, rule string) {
	name := p.FuncName(fn)
	lab := labeler{}
	// the nested copies are started from the traversal's literals or from unexported helpers they call
	scope := map[*ssa.Function]bool{}
	for _, f := range core.WithAnon(fn) {
		for h := range core.HelpersExcept(f, 2, func(h *ssa.Function) bool { return h == fn }) {
			for _, g := range core.WithAnon(h) {
				scope[g] = true
			}
		}
	}
	for _, f := range sortedFuncs(scope) {
		f := f
		core.Calls(f, func(c ssa.CallInstruction) {
			if core.CalleeFn(c) != fn {
				return
			}
			if f == fn {
				return
			}
			// args: rc, ctx, refSrc, refTgt, d, child, parents, opt
			tgt := core.CallArg(c, 3)
			child := core.CallArg(c, 5)
			kind := ""
			for _, oc := range originCalls(tgt) {
				if cal := core.Callee(oc); cal != nil {
					switch cal.Name() {
					case "SetDigest":
						kind = "digest"
					case "SetTag":
						if kind == "" {
							kind = "tag"
						}
					}
				}
			}
			cb, isConst := core.ConstBool(child)
			pos := p.Pos(c.Pos())
			switch kind {
			case "digest":
				r.Check(isConst && cb, rule, name, lab.next("recursive copy by digest"), pos, "a nested manifest is addressed by digest and pushed with the child flag (no tag is written before the parent)")
			case "tag":
				r.Check(isConst && !cb, rule, name, lab.next("recursive copy by tag"), pos, "a copy that writes a tag (digest-tag) must not carry the child flag: a layout does not record the tag of a child push")
			default:
				r.Violated(rule, name, lab.next("recursive copy"), pos, "the target of a nested copy is neither SetDigest(…) nor SetTag(…) of the target ref: a child could overwrite the requested tag before the parent is complete")
			}
		})
	}
}

// ---------------------------------------------------------------------------------------------
// R6 (SSA): errors of transfers propagate

// errDropped reports a `return nil` (constant nil error as last result) reachable from an edge on
// which the error result of call w is known non-nil.
func errDropped(fn *ssa.Function, w *ssa.Call) (bool, ssa.Instruction) {
	for _, e := range errEdgesOf(fn, w) {
		seen := core.Reach{}.FromEdge(e[0], e[1])
		for in := range seen {
			ret, ok := in.(*ssa.Return)
			if !ok || len(ret.Results) == 0 {
				continue
			}
			last := core.ReturnOperand(ret, len(ret.Results)-1)
			if core.IsNilConst(last) {
				return true, ret
			}
		}
	}
	return false, nil
}

func c04R6(p *core.Prog, r *core.Report, trav *ssa.Function, rule string) {
	bc := p.Method(".", "RegClient", "BlobCopy")
	if bc == nil {
		r.MissingAnchor(rule, "regclient.(*RegClient).BlobCopy")
	} else {
		name := p.FuncName(bc)
		n := 0
		// the transfer may live in an unexported helper whose result BlobCopy returns
		scope := core.Helpers(bc, 2)
		for _, f := range sortedFuncs(scope) {
			f := f
			core.Calls(f, func(c ssa.CallInstruction) {
				call, ok := c.(*ssa.Call)
				if !ok {
					return
				}
				cal := core.Callee(c)
				if cal == nil || !(core.IsClientOp(cal, "BlobGet") || core.IsClientOp(cal, "BlobPut")) {
					return
				}
				n++
				// from the failure edge no `return nil` of BlobCopy (or of the helper) is reachable
				dropped := false
				var at ssa.Instruction
				for _, e := range errEdgesOf(f, call) {
					for in := range (core.DeepReach{Scope: scope}).FromEdge(e[0], e[1]) {
						ret, isRet := in.(*ssa.Return)
						if !isRet || len(ret.Results) == 0 {
							continue
						}
						if core.IsNilConst(core.ReturnOperand(ret, len(ret.Results)-1)) {
							dropped, at = true, ret
						}
					}
				}
				detail := "the error of " + cal.Name() + " reaches no `return nil`"
				if dropped {
					detail = "a failed " + cal.Name() + " can reach `return nil` at " + p.Pos(at.Pos()) + ": the parent is told the blob was copied and writes a manifest whose blob is missing"
				}
				if len(errEdgesOf(f, call)) == 0 {
					// the call's error may be returned directly (`_, err = BlobPut(…); return err` or `return f(…)`)
					direct := false
					for _, ret := range core.Returns(f) {
						if len(ret.Results) == 0 {
							continue
						}
						for _, oc := range originCalls(core.ReturnOperand(ret, len(ret.Results)-1)) {
							if oc == call {
								direct = true
							}
						}
					}
					if !direct {
						dropped = true
						detail = "the error of " + cal.Name() + " is never tested"
					}
				}
				r.Check(!dropped, rule, name, "error of "+cal.Name()+" propagates", p.Pos(c.Pos()), detail)
			})
		}
		if n < 2 {
			r.Undecided(rule, name, "transfer calls", p.Pos(bc.Pos()), "source BlobGet and target BlobPut not both found in BlobCopy")
		}
	}
	// the per-blob wrapper: every function of the root package that calls imageSeenOrWait and BlobCopy
	seenOrWait := p.Func(".", "imageSeenOrWait")
	if seenOrWait == nil {
		r.MissingAnchor(rule, "regclient.imageSeenOrWait")
		return
	}
	for _, fn := range pkgFuncs(p, ".") {
		var sw, cp *ssa.Call
		core.Calls(fn, func(c ssa.CallInstruction) {
			call, ok := c.(*ssa.Call)
			if !ok {
				return
			}
			if core.CalleeFn(c) == seenOrWait {
				sw = call
			}
			if cal := core.Callee(c); cal != nil && core.IsModMethod(cal, ".", "RegClient", "BlobCopy") {
				cp = call
			}
		})
		if sw == nil || cp == nil {
			continue
		}
		name := p.FuncName(fn)
		// the completion callback (result 0 of imageSeenOrWait) is called with the error of BlobCopy
		ok := false
		detail := "the completion callback of the shared seen-entry is never called with the result of BlobCopy"
		core.Calls(fn, func(c ssa.CallInstruction) {
			v := c.Common().Value
			if c.Common().IsInvoke() || v == nil {
				return
			}
			isCB := false
			for _, o := range core.Origins(v, core.SliceOpts{}) {
				if o.Kind == core.OCall && o.Call == sw && o.Res == 0 {
					isCB = true
				}
			}
			if !isCB || len(c.Common().Args) != 1 {
				return
			}
			from := false
			for _, oc := range originCalls(c.Common().Args[0]) {
				if oc == cp {
					from = true
				}
			}
			if from && core.AllOrigins(core.Origins(c.Common().Args[0], core.SliceOpts{}), func(o core.Origin) bool { return o.Kind == core.OCall && o.Call == cp }) {
				if _, isDefer := c.(*ssa.Defer); isDefer {
					detail = "the completion callback is deferred with an argument evaluated before BlobCopy ran"
					return
				}
				ok = true
				detail = "seen-entry completed with BlobCopy's error"
			} else {
				detail = "the completion callback receives a value that is not BlobCopy's error (waiters sharing this blob would be told it succeeded)"
			}
		})
		r.Check(ok, rule, name, "seen-entry completed with the copy's error", p.Pos(cp.Pos()), detail)
		// and the function returns BlobCopy's error
		retOK := false
		for _, ret := range core.Returns(fn) {
			if len(ret.Results) == 1 {
				for _, oc := range originCalls(core.ReturnOperand(ret, 0)) {
					if oc == cp {
						retOK = true
					}
				}
			}
		}
		r.Check(retOK, rule, name, "returns the copy's error", p.Pos(cp.Pos()), "the wrapper must return BlobCopy's error to the goroutine that sends the completion")
	}
	// goroutines of the traversal send the child's error (or nil only on the loop-detected branch)
	lab := labeler{}
	name := p.FuncName(trav)
	loopDetected := func(b *ssa.BasicBlock) bool {
		return anyGuard(b, func(c ssa.Value, pol bool) bool {
			call, isCall := c.(*ssa.Call)
			if !isCall || !pol {
				return false
			}
			cal := core.Callee(call)
			if cal == nil || !core.IsFunc(cal, "errors", "Is") {
				return false
			}
			return strings.Contains(call.Call.Args[1].String(), "ErrLoopDetected") || globalNamed(call.Call.Args[1], "ErrLoopDetected")
		})
	}
	// judge one completion value: v is sent (or returned by a task that a spawn wrapper sends) at block b of f
	var judge func(v ssa.Value, b *ssa.BasicBlock, f *ssa.Function, pos string, depth int)
	judge = func(v ssa.Value, b *ssa.BasicBlock, f *ssa.Function, pos string, depth int) {
		// spawn wrapper: the value is the result of calling a function parameter; the completions are
		// what the literals passed for that parameter return
		if call, ok := v.(*ssa.Call); ok && depth < 2 {
			fv := call.Call.Value
			// the parameter may be captured by the goroutine literal (directly or through its cell)
			if u, isU := fv.(*ssa.UnOp); isU && u.Op == token.MUL {
				fv = u.X
			}
			if free, isFree := fv.(*ssa.FreeVar); isFree {
				if bnd := core.FreeVarBinding(free); bnd != nil {
					fv = bnd
					if al, isAl := bnd.(*ssa.Alloc); isAl {
						for _, st := range core.StoresToCell(al) {
							if pr, isPr := st.Val.(*ssa.Parameter); isPr {
								fv = pr
							}
						}
					}
				}
			}
			if par, isPar := fv.(*ssa.Parameter); isPar && !call.Call.IsInvoke() {
				w := par.Parent()
				idx := -1
				for i, q := range w.Params {
					if q == par {
						idx = i
					}
				}
				tasks := 0
				for _, g := range core.WithAnon(trav) {
					core.Calls(g, func(c ssa.CallInstruction) {
						if closureOf(c.Common().Value) != w || idx < 0 || idx >= len(c.Common().Args) {
							return
						}
						task := closureOf(c.Common().Args[idx])
						if task == nil {
							return
						}
						tasks++
						for _, ret := range core.Returns(task) {
							if len(ret.Results) == 1 {
								judge(core.ReturnOperand(ret, 0), ret.Block(), task, p.Pos(ret.Pos()), depth+1)
							}
						}
					})
				}
				if tasks == 0 {
					r.Undecided(rule, name, lab.next("completion value"), pos, "the completion is the result of a function parameter whose arguments were not found")
				}
				return
			}
		}
		label := lab.next("completion value")
		if core.IsNilConst(v) {
			// allowed only under errors.Is(err, ErrLoopDetected) with a finalFn append
			r.Check(loopDetected(b), rule, name, label, pos, "a literal nil completion is only allowed on the loop-detected branch (the retry is queued in finalFn)")
			return
		}
		okErr := false
		// the child copies themselves are the origins looked for
		hs := core.HelpersExcept(f, 2, func(h *ssa.Function) bool { return h == trav || canon(h) == "imageCopyBlob" })
		for _, o := range core.Origins(v, core.SliceOpts{Helpers: hs}) {
			if o.Kind != core.OCall {
				continue
			}
			if g := core.CalleeFn(o.Call); g != nil && (g == trav || canon(g) == "imageCopyBlob") {
				okErr = true
			}
		}
		r.Check(okErr, rule, name, label, pos, "the completion sent is the error returned by the child copy")
	}
	for _, lit := range core.WithAnon(trav) {
		if lit == trav {
			continue
		}
		for _, b := range lit.Blocks {
			for _, in := range b.Instrs {
				snd, ok := in.(*ssa.Send)
				if !ok {
					continue
				}
				judge(snd.X, b, lit, p.Pos(snd.Pos()), 0)
			}
		}
	}
}

func globalNamed(v ssa.Value, name string) bool {
	if u, ok := v.(*ssa.UnOp); ok {
		if g, ok := u.X.(*ssa.Global); ok {
			return g.Name() == name
		}
	}
	return false
}

// ---------------------------------------------------------------------------------------------
// R12 the barrier never forgets a failure

// c04R12: in the root package, a completion received from an error channel inside a loop may
// replace the error collected so far only when nothing had been collected (the store sits behind a
// nil test of the collected error) or when the new completion is itself a failure (behind a non-nil
// test of the received value); a completion that is thrown away is thrown away only when a failure
// has already been collected. Otherwise a child that finished after a cancelled one resets the
// barrier's verdict to success and the parent manifest and the tag are written over an incomplete
// image.
func c04R12(p *core.Prog, r *core.Report) {
	const rule = "C04.R12"
	r.Rule(rule, "the barrier never forgets a failure: inside a loop, a completion received from an error channel is stored over the collected error only behind a nil test of that error or a non-nil test of the received value, and is discarded only behind a non-nil test of the collected error (a child that finishes after a cancelled one must not turn the verdict back into success)", 1)
	errT := types.Universe.Lookup("error").Type()
	isErrChan := func(t types.Type) bool {
		ch, ok := t.Underlying().(*types.Chan)
		return ok && types.Identical(ch.Elem(), errT)
	}
	isCollected := func(x ssa.Value) bool {
		if !types.Identical(x.Type(), errT) {
			return false
		}
		switch y := x.(type) {
		case *ssa.Phi:
			return true
		case *ssa.UnOp:
			if y.Op == token.MUL {
				_, ok := y.X.(*ssa.Alloc)
				return ok
			}
		}
		return false
	}
	n := 0
	for _, fn := range pkgFuncs(p, ".") {
		if len(fn.Blocks) == 0 {
			continue
		}
		type rcv struct {
			at  ssa.Instruction
			val ssa.Value // nil: the received value is not bound
		}
		var recvs []rcv
		for _, b := range fn.Blocks {
			for _, in := range b.Instrs {
				switch x := in.(type) {
				case *ssa.UnOp:
					if x.Op != token.ARROW || !isErrChan(x.X.Type()) {
						continue
					}
					var v ssa.Value = x
					if x.CommaOk {
						v = nil
						for _, u := range *x.Referrers() {
							if ex, ok := u.(*ssa.Extract); ok && ex.Index == 0 {
								v = ex
							}
						}
					}
					recvs = append(recvs, rcv{in, v})
				case *ssa.Select:
					k := 0
					for _, st := range x.States {
						if st.Dir != types.RecvOnly {
							continue
						}
						idx := 2 + k
						k++
						if !isErrChan(st.Chan.Type()) {
							continue
						}
						var v ssa.Value
						for _, u := range *x.Referrers() {
							if ex, ok := u.(*ssa.Extract); ok && ex.Index == idx {
								v = ex
							}
						}
						recvs = append(recvs, rcv{in, v})
					}
				}
			}
		}
		if len(recvs) == 0 {
			continue
		}
		lab := labeler{}
		// a helper that receives one completion for a loop of its caller and is handed what was
		// collected so far: the same rule with the error parameter in the role of the collected error
		helperMode := false
		for _, prm := range fn.Params {
			if types.Identical(prm.Type(), errT) {
				for _, st := range p.Callers(fn) {
					if c, isCall := st.Site.(ssa.CallInstruction); isCall && core.CalleeFn(c) == fn && blockInCycle(st.Site.Block()) {
						helperMode = true
					}
				}
			}
		}
		for _, rc := range recvs {
			inLoop := blockInCycle(rc.at.Block())
			if !inLoop && !helperMode {
				continue
			}
			n++
			// only tests made inside the loop count: a test of the collected error made before the
			// loop says nothing about what the loop has collected since
			loopGuard := func(b *ssa.BasicBlock, pred func(c ssa.Value, pol bool) bool) bool {
				for _, g := range core.Guards(b) {
					if g.If == nil || g.If.Block().Parent() != fn || (inLoop && !blockReaches(rc.at.Block(), g.If.Block())) {
						continue
					}
					c, gp := core.StripNot(g.Cond, g.Polarity)
					if pred(c, gp) {
						return true
					}
				}
				return false
			}
			nonNilGuard := func(b *ssa.BasicBlock, match func(x ssa.Value) bool) bool {
				return loopGuard(b, func(c ssa.Value, pol bool) bool {
					x, neq, ok := errCmpNil(c)
					return ok && neq == pol && match(x)
				})
			}
			nilGuard := func(b *ssa.BasicBlock, match func(x ssa.Value) bool) bool {
				return loopGuard(b, func(c ssa.Value, pol bool) bool {
					x, neq, ok := errCmpNil(c)
					return ok && neq != pol && match(x)
				})
			}
			used := false
			ok, why := true, ""
			if rc.val != nil {
				for _, u := range *rc.val.Referrers() {
					switch x := u.(type) {
					case *ssa.Store:
						if x.Val != rc.val {
							continue
						}
						used = true
						cell, isCell := x.Addr.(*ssa.Alloc)
						if !isCell {
							continue
						}
						sameCell := func(v ssa.Value) bool {
							l, ok := v.(*ssa.UnOp)
							return ok && l.Op == token.MUL && l.X == cell
						}
						if !nilGuard(x.Block(), sameCell) && !nonNilGuard(x.Block(), func(v ssa.Value) bool { return v == rc.val }) {
							ok, why = false, "stored over the collected error at "+p.Pos(x.Pos())
						}
					case *ssa.Phi:
						for i, e := range x.Edges {
							if e != rc.val {
								continue
							}
							used = true
							pred := x.Block().Preds[i]
							g := func(b *ssa.BasicBlock) bool {
								return nilGuard(b, func(v ssa.Value) bool { _, isPhi := v.(*ssa.Phi); return isPhi && types.Identical(v.Type(), errT) }) ||
									nonNilGuard(b, func(v ssa.Value) bool { return v == rc.val })
							}
							// the edge itself may be the guarded one (pred ends in the test)
							edgeOK := false
							if ifi, isIf := core.LastInstr(pred).(*ssa.If); isIf && len(pred.Succs) == 2 {
								c, pol := core.StripNot(ifi.Cond, true)
								if xx, neq, isCmp := errCmpNil(c); isCmp {
									taken := pred.Succs[0] == x.Block() // true edge leads to the phi
									if pred.Succs[0] == pred.Succs[1] {
										taken = false
									}
									truth := taken == pol
									if xx == rc.val && neq == truth {
										edgeOK = true
									}
								}
							}
							if !g(pred) && !edgeOK {
								ok, why = false, "merged over the collected error at "+p.Pos(x.Pos())
							}
						}
					case *ssa.Return:
						used = true
						if !inLoop {
							isErrParam := func(v ssa.Value) bool {
								prm, ok := v.(*ssa.Parameter)
								return ok && types.Identical(prm.Type(), errT)
							}
							if !nilGuard(x.Block(), isErrParam) && !nonNilGuard(x.Block(), func(v ssa.Value) bool { return v == rc.val }) {
								ok, why = false, "returned in place of the collected error at "+p.Pos(x.Pos())
							}
						}
					case *ssa.DebugRef:
					default:
						used = true
					}
				}
			}
			if !used && !inLoop {
				isErrParam := func(v ssa.Value) bool {
					prm, ok := v.(*ssa.Parameter)
					return ok && types.Identical(prm.Type(), errT)
				}
				if !nonNilGuard(rc.at.Block(), isErrParam) {
					ok, why = false, "discarded although no failure has been collected"
				}
			} else if !used && callersPassFailure(p, fn, errT) {
				// the function only runs once a failure has been collected: every caller hands it a
				// non-nil error (the call sits behind the non-nil test of the value passed)
			} else if !used {
				// thrown away
				if !nonNilGuard(rc.at.Block(), isCollected) {
					ok, why = false, "discarded although no failure has been collected"
				}
			}
			r.Check(ok, rule, p.FuncName(fn), lab.next("completion received in a loop"), p.Pos(rc.at.Pos()),
				"the received completion is "+why+": a nil completion that arrives after a failed or cancelled child clears the failure, and the manifest (with the tag) is written although a child is missing")
		}
	}
	if n == 0 {
		r.Undecided(rule, "regclient", "completion receive in a loop", "", "no receive from an error channel inside a loop found in the root package")
	}
}

// blockInCycle: the block can reach itself.
func blockInCycle(b *ssa.BasicBlock) bool { return blockReaches(b, b) }

// blockReaches: to is reachable from from over at least one edge.
func blockReaches(from, to *ssa.BasicBlock) bool {
	b := to
	seen := map[*ssa.BasicBlock]bool{}
	stack := append([]*ssa.BasicBlock{}, from.Succs...)
	for len(stack) > 0 {
		x := stack[len(stack)-1]
		stack = stack[:len(stack)-1]
		if x == b {
			return true
		}
		if seen[x] {
			continue
		}
		seen[x] = true
		stack = append(stack, x.Succs...)
	}
	return false
}

// oneReceiveHelper: the call's callee is a module function that performs exactly one receive from the
// channel parameter at argIdx, on every path (the receive dominates every return and is not in a
// loop), and does nothing else with the channel.
func oneReceiveHelper(p *core.Prog, info *types.Info, call *ast.CallExpr, argIdx int) bool {
	var obj *types.Func
	switch f := ast.Unparen(call.Fun).(type) {
	case *ast.Ident:
		obj, _ = info.Uses[f].(*types.Func)
	case *ast.SelectorExpr:
		obj, _ = info.Uses[f.Sel].(*types.Func)
	}
	if obj == nil {
		return false
	}
	g := p.SSA.FuncValue(obj)
	if g == nil || !p.InModule(g) || len(g.Blocks) == 0 {
		return false
	}
	idx := argIdx
	if g.Signature.Recv() != nil {
		idx++
	}
	if idx >= len(g.Params) {
		return false
	}
	prm := g.Params[idx]
	if _, isChan := prm.Type().Underlying().(*types.Chan); !isChan || prm.Referrers() == nil {
		return false
	}
	var recv ssa.Instruction
	n := 0
	for _, u := range *prm.Referrers() {
		switch x := u.(type) {
		case *ssa.UnOp:
			if x.Op == token.ARROW {
				recv = x
				n++
				continue
			}
			return false
		case *ssa.DebugRef:
		default:
			return false
		}
	}
	if n != 1 || blockInCycle(recv.Block()) {
		return false
	}
	for _, ret := range core.Returns(g) {
		if !core.DominatesInstr(recv, ret) {
			return false
		}
	}
	return true
}

// callersPassFailure: fn has an error parameter and every call of fn in the module passes, at that
// position, a value that the call site has tested to be non-nil (the same value, or a load of the
// same local cell).
func callersPassFailure(p *core.Prog, fn *ssa.Function, errT types.Type) bool {
	idx := -1
	for i, prm := range fn.Params {
		if types.Identical(prm.Type(), errT) {
			idx = i
		}
	}
	if idx < 0 {
		return false
	}
	callers := p.Callers(fn)
	if len(callers) == 0 {
		return false
	}
	for _, st := range callers {
		c, ok := st.Site.(ssa.CallInstruction)
		if !ok || core.CalleeFn(c) != fn || idx >= len(c.Common().Args) {
			return false
		}
		arg := c.Common().Args[idx]
		same := func(x ssa.Value) bool {
			if x == arg {
				return true
			}
			la, ok1 := arg.(*ssa.UnOp)
			lx, ok2 := x.(*ssa.UnOp)
			return ok1 && ok2 && la.Op == token.MUL && lx.Op == token.MUL && la.X == lx.X
		}
		if !anyGuard(st.Site.Block(), func(cnd ssa.Value, pol bool) bool {
			x, neq, isCmp := errCmpNil(cnd)
			return isCmp && neq == pol && same(x)
		}) {
			return false
		}
	}
	return true
}

// ---------------------------------------------------------------------------------------------
// two references name the same repository only if their own fields say so

// refIdentityRule: the copy takes "source and target are the same repository" as "every blob and
// child manifest is already there" and writes only the top manifest and the tag. That answer has to
// come from the references' own fields. A comparison through a lossy rewriting (ToReg lower-cases a
// layout path, turns punctuation into '-', drops a leading "..") makes two different directories equal,
// and a copy between them publishes a tag whose children were never written.
func refIdentityRule(p *core.Prog, r *core.Report, rule string) {
	r.Rule(rule, "same repository means equal fields: in ref.EqualRepository and ref.EqualRegistry every compared operand is a field of one of the two references, at most passed through a path-cleaning function of path / path/filepath — never the result of a module function or of a string-rewriting function", 2)
	n := 0
	for _, name := range []string{"EqualRepository", "EqualRegistry"} {
		fn := p.Func("types/ref", name)
		if fn == nil {
			r.MissingAnchor(rule, "types/ref."+name)
			continue
		}
		lab := labeler{}
		for _, g := range sortedFuncs(core.Helpers(fn, 2)) {
			for _, b := range g.Blocks {
				for _, in := range b.Instrs {
					bo, ok := in.(*ssa.BinOp)
					if !ok || (bo.Op != token.EQL && bo.Op != token.NEQ) {
						continue
					}
					if _, isStruct := bo.X.Type().Underlying().(*types.Struct); isStruct {
						// the references are compared as keys (`a.repositoryKey() == b.repositoryKey()`):
						// what goes into the fields of such a key, anywhere in the helpers, obeys the same rule
						n++
						bad := ""
						for _, fs := range fieldStores(sortedFuncs(core.Helpers(fn, 2)), func(nm *types.Named, f string) bool { return nm == core.NamedOf(bo.X.Type()) }) {
							for _, o := range core.Origins(fs.Store.Val, core.SliceOpts{FieldsThrough: true}) {
								if o.Kind != core.OCall || o.Callee() == nil || o.Callee().Pkg() == nil {
									continue
								}
								if pk := o.Callee().Pkg().Path(); pk == "path" || pk == "path/filepath" {
									continue
								}
								bad = core.ShortFunc(o.Callee())
							}
						}
						r.Check(bad == "", rule, p.FuncName(g), lab.next("compared operands"), p.Pos(bo.Pos()),
							"the keys the references are compared by are built through "+bad+", not from their own fields: two references that differ can come out equal, and the copy between them is taken for a retag in place")
						continue
					}
					if !isStringType(bo.X.Type()) {
						continue
					}
					if _, isC := bo.X.(*ssa.Const); isC {
						continue
					}
					if _, isC := bo.Y.(*ssa.Const); isC {
						continue
					}
					n++
					bad := ""
					for _, side := range []ssa.Value{bo.X, bo.Y} {
						for _, o := range core.Origins(side, core.SliceOpts{FieldsThrough: true}) {
							if o.Kind != core.OCall {
								continue
							}
							cal := o.Callee()
							if cal == nil || cal.Pkg() == nil {
								continue
							}
							switch cal.Pkg().Path() {
							case "path", "path/filepath":
								continue
							}
							bad = core.ShortFunc(cal)
						}
					}
					r.Check(bad == "", rule, p.FuncName(g), lab.next("compared operands"), p.Pos(bo.Pos()),
						"the references are compared through "+bad+", not by their own fields: two references that differ can come out equal, and the copy between them is taken for a retag in place (only the top manifest and the tag are written)")
				}
			}
		}
	}
	if n == 0 {
		r.MissingAnchor(rule, "string comparisons in ref.EqualRepository / EqualRegistry")
	}
}

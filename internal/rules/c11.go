package rules

import (
	"fmt"
	"go/token"
	"go/types"
	"regexp"
	"strconv"
	"strings"

	"golang.org/x/tools/go/ssa"

	"verif/internal/core"
)

func init() {
	register(&Spec{
		ID: "C11",
		Decides: "who may attach credentials: every writer of an Authorization header, of basic-auth on a request and of password / refresh-token form fields is in internal/auth, and the token requests go to the realm of the handler; handler tables are keyed by exactly the request's (or response's) URL host; " +
			"inside one attempt the URL host, the auth handler and the HTTP client come from the same host entry and the header map of the outgoing request is created inside the attempt (never shared between hosts); \"http\" is only chosen under TLS-disabled; the redirect hook re-evaluates auth on the redirected request and bounds the chain; " +
			"no value derived from a password, token or generated Authorization value reaches a slog call, whole credential structs are logged only after their secret fields were masked, request headers are logged only as the censored clone; credentials must not be offered to a host other than the attempt's own (known finding D12).",
		NotCovered: "non-interference over all topologies and challenge sequences; servers that downgrade an upload Location to http; credential helpers' own behaviour; ClientKey logged unmasked for a nameless entry (observed, outside the listed secrets).",
		Run:        runC11,
	})
}

func runC11(p *core.Prog, r *core.Report) {
	c11R1(p, r)
	c11R2(p, r)
	c11R3(p, r)
	c11R4(p, r)
	c11R5(p, r)
	c11R6(p, r)
	c11R13(p, r)
	c11R7(p, r)
	c11R8(p, r)
	c11R9(p, r)
	c11R10(p, r)
	// the target's login is not offered to the servers named in a layer's external URLs: the existence
	// test on the target is made without them (shared with C03.R7)
	c03R7(p, r, "C11.R11")
	c11R12(p, r)
}

// c11R10: a host entry that is created on demand starts from the configured defaults. Starting it from
// another registry's entry copies that registry's credential settings (credential helper host, user,
// token) into an entry that speaks to a different host.
func c11R10(p *core.Prog, r *core.Report) {
	const rule = "C11.R10"
	r.Rule(rule, "a new host entry inherits from the defaults only: the template given to config.HostNewDefName outside package config is nil or a dedicated defaults value, never an element looked up in a table of hosts", 1)
	n := 0
	var fromLookup func(v ssa.Value, d int) bool
	fromLookup = func(v ssa.Value, d int) bool {
		if v == nil || d > 8 {
			return false
		}
		switch x := v.(type) {
		case *ssa.Lookup:
			return true
		case *ssa.Extract:
			return fromLookup(x.Tuple, d+1)
		case *ssa.Phi:
			for _, e := range x.Edges {
				if fromLookup(e, d+1) {
					return true
				}
			}
		case *ssa.UnOp:
			if al, ok := x.X.(*ssa.Alloc); ok {
				for _, st := range core.StoresToCell(al) {
					if fromLookup(st.Val, d+1) {
						return true
					}
				}
				return false
			}
			return fromLookup(x.X, d+1)
		case *ssa.Call:
			// a helper of the same package that hands back a table entry
			if g := core.CalleeFn(x); g != nil && len(g.Blocks) > 0 && core.FuncPkg(g) == core.FuncPkg(x.Parent()) {
				for _, ret := range core.Returns(g) {
					for i := range ret.Results {
						if core.IsModNamed(ret.Results[i].Type(), "config", "Host") && fromLookup(core.ReturnOperand(ret, i), d+2) {
							return true
						}
					}
				}
			}
		case *ssa.ChangeType:
			return fromLookup(x.X, d+1)
		}
		return false
	}
	for _, fn := range p.ModFuncs {
		if len(fn.Blocks) == 0 {
			continue
		}
		if pk := core.FuncPkg(fn); pk == nil || pk.Path() == modPath("config") {
			continue
		}
		lab := labeler{}
		for _, c := range core.CallsTo(fn, func(f *types.Func) bool { return core.IsModFunc(f, "config", "HostNewDefName") }) {
			n++
			r.Check(!fromLookup(core.CallArg(c, 0), 0), rule, p.FuncName(fn), lab.next("template of a new host entry"), p.Pos(c.Pos()), "the new entry is built from an entry found in a table of hosts: that registry's credential settings (credential helper host, user, token) travel to a host they were not configured for")
		}
	}
	if n == 0 {
		r.Held(rule, "module", "no entry built from a template", "-", "config.HostNewDefName is not called outside package config")
	}
}

// c11R9: whether a registry is spoken to without TLS is the user's decision. Outside the package that
// parses the configuration no code writes the constant "TLS disabled" into a host entry (a fall-back
// that downgrades after a failed handshake sends the login in clear text to whoever answered).
func c11R9(p *core.Prog, r *core.Report) {
	const rule = "C11.R9"
	r.Rule(rule, "no downgrade in code: the constant config.TLSDisabled is stored into the TLS field of a config.Host only inside package config (where a configuration is parsed); everywhere else the field is set from a value the user supplied", 1)
	disabled := tlsDisabledValue(p.SSA)
	in, n := 0, 0
	lab := map[*ssa.Function]labeler{}
	for _, fs := range fieldStores(p.ModFuncs, func(nm *types.Named, f string) bool {
		return f == "TLS" && nm.Obj().Name() == "Host" && nm.Obj().Pkg() != nil && nm.Obj().Pkg().Path() == modPath("config")
	}) {
		k, isConst := core.ConstInt(fs.Store.Val)
		if !isConst || k != disabled {
			continue
		}
		if pk := core.FuncPkg(fs.Fn); pk != nil && pk.Path() == modPath("config") {
			in++
			continue
		}
		n++
		if lab[fs.Fn] == nil {
			lab[fs.Fn] = labeler{}
		}
		r.Violated(rule, p.FuncName(fs.Fn), lab[fs.Fn].next("TLS disabled by code"), p.Pos(fs.Store.Pos()), "a host entry is switched to plain http by the program itself: the next request sends the host's credentials unencrypted, to a peer that was configured to be reached over TLS")
	}
	if n == 0 {
		r.Held(rule, "module", "TLS never disabled outside the configuration parser", "-", fmt.Sprintf("%d constant store(s), all in package config", in))
	}
}

func isAuthorizationKey(v ssa.Value) bool {
	s, ok := core.ConstString(v)
	return ok && strings.EqualFold(s, "Authorization")
}

func c11R1(p *core.Prog, r *core.Report) {
	const rule = "C11.R1"
	r.Rule(rule, "who may attach credentials: Authorization headers, basic-auth and password/refresh-token form fields are written only in internal/auth; token requests are built for the handler's realm", 5)
	lab := map[string]labeler{}
	for _, fn := range p.ModFuncs {
		if fn.Synthetic != "" {
			continue
		}
		pk := core.FuncPkg(fn)
		inAuth := pk != nil && pk.Path() == modPath("internal/auth")
		core.Calls(fn, func(c ssa.CallInstruction) {
			cal := core.Callee(c)
			if cal == nil {
				return
			}
			what := ""
			switch {
			case (core.IsMethod(cal, "net/http", "Header", "Set") || core.IsMethod(cal, "net/http", "Header", "Add")) && isAuthorizationKey(core.CallArg(c, 1)):
				if s, ok := core.ConstString(core.CallArg(c, 2)); ok && !strings.Contains(strings.ToLower(s), "bearer ") && !strings.Contains(strings.ToLower(s), "basic ") {
					return // a constant such as "[censored]" is not a credential
				}
				what = "Authorization header"
			case core.IsMethod(cal, "net/http", "Request", "SetBasicAuth"):
				what = "basic auth on a request"
			case core.IsMethod(cal, "net/url", "Values", "Set") || core.IsMethod(cal, "net/url", "Values", "Add"):
				if s, ok := core.ConstString(core.CallArg(c, 1)); ok && (s == "password" || s == "refresh_token") {
					what = "form field " + s
				}
			}
			if what == "" {
				return
			}
			fname := p.FuncName(fn)
			if lab[fname] == nil {
				lab[fname] = labeler{}
			}
			r.Check(inAuth, rule, fname, lab[fname].next(what), p.Pos(c.Pos()), "credentials may only be attached by the auth package (which looks the handler up by the request's own host)")
		})
	}
	// token requests go to the realm
	for _, fn := range pkgFuncs(p, "internal/auth") {
		for _, c := range core.CallsTo(fn, func(f *types.Func) bool {
			return core.IsFunc(f, "net/http", "NewRequest") || core.IsFunc(f, "net/http", "NewRequestWithContext")
		}) {
			urlArg := c.Common().Args[len(c.Common().Args)-2]
			fname := p.FuncName(fn)
			if lab[fname] == nil {
				lab[fname] = labeler{}
			}
			ok := false
			if u, isU := urlArg.(*ssa.UnOp); isU {
				if fa, isFA := u.X.(*ssa.FieldAddr); isFA && core.FieldName(fa.X.Type(), fa.Field) == "realm" {
					ok = true
				}
			}
			r.Check(ok, rule, fname, lab[fname].next("token request URL"), p.Pos(c.Pos()), "requests that carry the user's credentials are sent to the token endpoint the registry named in its challenge (the handler's realm)")
		}
	}
}

func c11R2(p *core.Prog, r *core.Report) {
	const rule = "C11.R2"
	r.Rule(rule, "lookup by the request's own host: the handler tables of the auth package are indexed by exactly URL.Host of the request being updated / the request that was answered (or the host given by the caller)", 3)
	au := p.Named("internal/auth", "Auth")
	if au == nil {
		r.MissingAnchor(rule, "internal/auth.Auth")
		return
	}
	for _, name := range []string{"UpdateRequest", "HandleResponse", "AddScope"} {
		fn := p.MethodOf(au, name)
		if fn == nil {
			r.MissingAnchor(rule, "internal/auth.(*Auth)."+name)
			continue
		}
		fname := p.FuncName(fn)
		n := 0
		ok := true
		detail := "keys are URL.Host of the request"
		// the lookups may sit in unexported helpers of the method: their key parameters are followed
		// back to what the method passes
		unit := core.Helpers(fn, 2)
		var blocks []*ssa.BasicBlock
		for _, uf := range sortedFuncs(unit) {
			blocks = append(blocks, uf.Blocks...)
		}
		for _, b := range blocks {
			for _, in := range b.Instrs {
				var m, key ssa.Value
				switch x := in.(type) {
				case *ssa.Lookup:
					m, key = x.X, x.Index
				case *ssa.MapUpdate:
					m, key = x.Map, x.Key
				default:
					continue
				}
				// the per-host table: field of Auth whose value type is a map (host -> type -> handler)
				u, isU := m.(*ssa.UnOp)
				if !isU {
					continue
				}
				fa, isFA := u.X.(*ssa.FieldAddr)
				if !isFA {
					continue
				}
				nn, _ := core.FieldAddrInfo(fa)
				if nn != au {
					continue
				}
				mt, isMap := m.Type().Underlying().(*types.Map)
				if !isMap {
					continue
				}
				if _, inner := mt.Elem().Underlying().(*types.Map); !inner {
					continue
				}
				n++
				good := core.AllOrigins(core.Origins(key, core.SliceOpts{Helpers: unit}), func(o core.Origin) bool {
					if o.Kind == core.OField && o.Field == "Host" {
						return true
					}
					if o.Kind == core.OParam && isStringType(o.Param.Type()) && o.Param.Parent() == fn {
						return true
					}
					return false
				})
				if !good {
					ok = false
					var ds []string
					for _, o := range core.Origins(key, core.SliceOpts{Helpers: unit}) {
						ds = append(ds, o.Describe())
					}
					detail = "the handler table is indexed by " + strings.Join(ds, ", ") + " at " + p.Pos(in.Pos()) + ": a key that is not exactly the URL host (for instance with the port stripped) makes the handler of one service answer for another"
				}
			}
		}
		if n == 0 {
			r.Undecided(rule, fname, "handler table key", p.Pos(fn.Pos()), "no lookup in the per-host handler table found")
			continue
		}
		r.Check(ok, rule, fname, "handler table key", p.Pos(fn.Pos()), detail)
	}
}

func c11R3(p *core.Prog, r *core.Report) {
	const rule = "C11.R3"
	r.Rule(rule, "one host per attempt: the URL host, the auth handler and the HTTP client of an attempt come from the same host entry; mirrors are looked up through getHost; the header map of the outgoing request is created inside the attempt", 3)
	next := p.Method("internal/reghttp", "Resp", "next")
	if next == nil {
		r.MissingAnchor(rule, "internal/reghttp.(*Resp).next")
		return
	}
	// the attempt: the function (next or its literal) that calls UpdateRequest
	var att *ssa.Function
	for _, f := range core.WithAnon(next) {
		core.Calls(f, func(c ssa.CallInstruction) {
			if cal := core.Callee(c); cal != nil && core.IsModMethod(cal, "internal/auth", "Auth", "UpdateRequest") {
				att = f
			}
		})
	}
	if att == nil {
		r.Undecided(rule, p.FuncName(next), "attempt", p.Pos(next.Pos()), "no call of UpdateRequest found")
		return
	}
	fname := p.FuncName(att)
	hostOf := func(v ssa.Value) string {
		// access path of the clientHost the value is derived from
		for d := 0; d < 10 && v != nil; d++ {
			if core.IsModNamed(v.Type(), "internal/reghttp", "clientHost") {
				return accessPath(v)
			}
			switch x := v.(type) {
			case *ssa.UnOp:
				v = x.X
			case *ssa.FieldAddr:
				v = x.X
			case *ssa.Field:
				v = x.X
			default:
				return ""
			}
		}
		return ""
	}
	var urlHost, authHost, clientHostAP string
	for _, fs := range fieldStores([]*ssa.Function{att}, func(n *types.Named, f string) bool { return n.Obj().Name() == "URL" && f == "Host" }) {
		urlHost = hostOf(fs.Store.Val)
	}
	if urlHost == "" {
		// the URL is built by an unexported helper that is given the host entry (or its config)
		for h := range core.Helpers(att, 2) {
			if h == att {
				continue
			}
			for _, fs := range fieldStores([]*ssa.Function{h}, func(n *types.Named, f string) bool { return n.Obj().Name() == "URL" && f == "Host" }) {
				// root parameter of the stored value
				v := fs.Store.Val
				var par *ssa.Parameter
				for d := 0; d < 10 && v != nil && par == nil; d++ {
					switch x := v.(type) {
					case *ssa.Parameter:
						par = x
					case *ssa.UnOp:
						v = x.X
					case *ssa.FieldAddr:
						v = x.X
					case *ssa.Field:
						v = x.X
					default:
						v = nil
					}
				}
				if par == nil {
					continue
				}
				core.Calls(att, func(c ssa.CallInstruction) {
					if core.CalleeFn(c) != h {
						return
					}
					for i, q := range h.Params {
						if q == par {
							if ap := hostOf(core.CallArg(c, i)); ap != "" {
								urlHost = ap
							}
						}
					}
				})
			}
		}
	}
	core.Calls(att, func(c ssa.CallInstruction) {
		if g := core.CalleeFn(c); g != nil {
			switch canon(g) {
			case "getAuth":
				authHost = hostOf(core.CallArg(c, 0))
			case "getHTTPClient":
				clientHostAP = hostOf(core.CallArg(c, 0))
			}
		}
	})
	ok := urlHost != "" && urlHost == authHost && urlHost == clientHostAP
	r.Check(ok, rule, fname, "same host entry for URL, auth and client", p.Pos(att.Pos()), fmt.Sprintf("URL host from %q, auth handler from %q, HTTP client from %q", urlHost, authHost, clientHostAP))
	// header map created inside the attempt
	lab := labeler{}
	nHdr := 0
	for _, fs := range fieldStores(core.WithAnon(next), func(n *types.Named, f string) bool {
		return n.Obj().Name() == "Request" && f == "Header" && n.Obj().Pkg().Path() == "net/http"
	}) {
		nHdr++
		fresh := core.AllOrigins(core.Origins(fs.Store.Val, core.SliceOpts{}), func(o core.Origin) bool {
			if o.Kind != core.OCall || o.Call.Parent() != fs.Fn {
				return false
			}
			// created inside the attempt and, if the attempt is a loop body, inside the loop
			return inInnermostAttempt(o.Call, fs.Store)
		})
		r.Check(fresh, rule, p.FuncName(fs.Fn), lab.next("request header map"), p.Pos(fs.Store.Pos()),
			"the header map given to an outgoing request must be created inside the attempt (Clone): UpdateRequest writes Authorization into it, and a map shared between attempts carries one host's credentials to the next host (mirror → upstream fall-back)")
	}
	if nHdr == 0 {
		r.Held(rule, fname, "request header map", p.Pos(att.Pos()), "requests keep the header map created by http.NewRequest")
	}
	// mirrors via getHost: covered by C12.R2 (every other host comes from getHost under !NoMirrors)
	// AuthCreds closes over its own receiver only
	ac := p.Method("internal/reghttp", "clientHost", "AuthCreds")
	if ac != nil {
		okAC := true
		for _, lit := range ac.AnonFuncs {
			for _, fv := range lit.FreeVars {
				if b := core.FreeVarBinding(fv); b != nil {
					switch x := b.(type) {
					case *ssa.Parameter:
					case *ssa.Alloc:
						// a parameter captured by reference: the cell's only store is the parameter itself
						for _, st := range core.StoresToCell(x) {
							if _, isParam := st.Val.(*ssa.Parameter); !isParam {
								okAC = false
							}
						}
					default:
						okAC = false
					}
				}
			}
		}
		r.Check(okAC, rule, p.FuncName(ac), "credential function bound to its own host", p.Pos(ac.Pos()), "the credential callback captures only the host entry it was created for")
	}
}

// inInnermostAttempt: the creating call is in the same function as the store and, when the store is
// inside a loop, inside the same loop.
func inInnermostAttempt(c *ssa.Call, st *ssa.Store) bool {
	for _, l := range core.Loops(st.Parent()) {
		if l.Blocks[st.Block()] && !l.Blocks[c.Block()] {
			return false
		}
	}
	return true
}

func c11R4(p *core.Prog, r *core.Report) {
	const rule = "C11.R4"
	r.Rule(rule, "transport: a URL scheme of \"http\" is only stored under the TLS-disabled test of the host entry; the default is \"https\"", 2)
	n := 0
	lab := labeler{}
	for _, fn := range pkgFuncs(p, "internal/reghttp") {
		for _, fs := range fieldStores([]*ssa.Function{fn}, func(nn *types.Named, f string) bool { return nn.Obj().Name() == "URL" && f == "Scheme" }) {
			// the scheme may be chosen into a local first: a phi of constants, each edge judged where it comes from
			type schemeAt struct {
				s   string
				blk *ssa.BasicBlock
			}
			var cands []schemeAt
			if s, ok := core.ConstString(fs.Store.Val); ok {
				cands = append(cands, schemeAt{s, fs.Store.Block()})
			} else if ph, isPhi := fs.Store.Val.(*ssa.Phi); isPhi {
				for i, e := range ph.Edges {
					if s, ok := core.ConstString(e); ok && i < len(ph.Block().Preds) {
						cands = append(cands, schemeAt{s, ph.Block().Preds[i]})
					} else {
						cands = nil
						break
					}
				}
			}
			if len(cands) == 0 {
				r.Undecided(rule, p.FuncName(fn), lab.next("scheme store"), p.Pos(fs.Store.Pos()), "non-constant URL scheme")
				continue
			}
			for _, cand := range cands {
				s, blk := cand.s, cand.blk
				n++
				switch s {
				case "https":
					r.Held(rule, p.FuncName(fn), lab.next("scheme https"), p.Pos(fs.Store.Pos()), "default")
				case "http":
					okG := anyGuard(blk, func(c ssa.Value, pol bool) bool {
						bo, isB := c.(*ssa.BinOp)
						if !isB || bo.Op != token.EQL || !pol {
							return false
						}
						isTLS := func(v ssa.Value) bool { return fieldLoadOf(v, modPath("config"), "Host", "TLS") }
						isDisabled := func(v ssa.Value) bool {
							k, isK := core.ConstInt(v)
							return isK && k == tlsDisabledValue(fs.Fn.Prog)
						}
						return (isTLS(bo.X) && isDisabled(bo.Y)) || (isTLS(bo.Y) && isDisabled(bo.X))
					})
					r.Check(okG, rule, p.FuncName(fn), lab.next("scheme http"), p.Pos(fs.Store.Pos()), "clear-text transport only for a host configured with TLS disabled")
				default:
					r.Violated(rule, p.FuncName(fn), lab.next("scheme "+s), p.Pos(fs.Store.Pos()), "unexpected URL scheme")
				}
			}
		}
	}
	if n == 0 {
		r.MissingAnchor(rule, "stores to url.URL.Scheme in internal/reghttp")
	}
}

// tlsDisabledValue returns the constant value of config.TLSDisabled.
func tlsDisabledValue(prog *ssa.Program) int64 {
	for _, pkg := range prog.AllPackages() {
		if pkg.Pkg.Path() != modPath("config") {
			continue
		}
		if c, ok := pkg.Members["TLSDisabled"].(*ssa.NamedConst); ok {
			if k, ok := core.ConstInt(c.Value); ok {
				return k
			}
		}
	}
	return -999
}

// hookFuncs resolves a function value to the functions it can denote: a literal, a named function,
// a bound method (through the synthetic wrapper to the method itself), or what an unexported
// function of the module returns.
func hookFuncs(p *core.Prog, v ssa.Value, depth int) []*ssa.Function {
	var out []*ssa.Function
	if depth > 3 {
		return nil
	}
	for _, o := range core.Origins(v, core.SliceOpts{}) {
		switch o.Kind {
		case core.OClosure:
			f := closureOf(o.Val)
			if f == nil {
				continue
			}
			if f.Synthetic != "" {
				// bound method wrapper: the method it forwards to
				core.Calls(f, func(c ssa.CallInstruction) {
					if g := core.CalleeFn(c); g != nil {
						out = append(out, g)
					}
				})
				continue
			}
			out = append(out, f)
		case core.OCall:
			if g := o.Call.Call.StaticCallee(); g != nil && p.InModule(g) && len(g.Blocks) > 0 {
				for _, ret := range core.Returns(g) {
					if o.Res >= 0 && o.Res < len(ret.Results) {
						out = append(out, hookFuncs(p, core.ReturnOperand(ret, o.Res), depth+1)...)
					} else if len(ret.Results) == 1 {
						out = append(out, hookFuncs(p, core.ReturnOperand(ret, 0), depth+1)...)
					}
				}
			}
		}
	}
	return out
}

func c11R5(p *core.Prog, r *core.Report) {
	const rule = "C11.R5"
	r.Rule(rule, "redirects: the CheckRedirect hook installed per host calls UpdateRequest on the redirected request and stops after a bounded number of hops", 2)
	// the hook: whatever is stored into http.Client.CheckRedirect in internal/reghttp
	var hooks []*ssa.Function
	installedBy := ""
	for _, fs := range fieldStores(pkgFuncs(p, "internal/reghttp"), func(n *types.Named, f string) bool {
		return f == "CheckRedirect" && n.Obj().Pkg() != nil && n.Obj().Pkg().Path() == "net/http"
	}) {
		hs := hookFuncs(p, fs.Store.Val, 0)
		if len(hs) > 0 {
			installedBy = p.FuncName(fs.Fn)
		}
		hooks = append(hooks, hs...)
	}
	if len(hooks) == 0 {
		r.MissingAnchor(rule, "a function stored into http.Client.CheckRedirect in internal/reghttp")
		return
	}
	seenHook := map[*ssa.Function]bool{}
	for _, lit := range hooks {
		if seenHook[lit] {
			continue
		}
		seenHook[lit] = true
		// the redirected request: the first *http.Request parameter
		var reqParam *ssa.Parameter
		for _, pr := range lit.Params {
			if core.IsNamed(pr.Type(), "net/http", "Request") {
				reqParam = pr
				break
			}
		}
		upd, bound := false, false
		// in the hook itself, or in a helper of the package that is handed the redirected request
		unit := core.Helpers(lit, 2)
		for _, uf := range sortedFuncs(unit) {
			core.Calls(uf, func(c ssa.CallInstruction) {
				if cal := core.Callee(c); cal != nil && core.IsModMethod(cal, "internal/auth", "Auth", "UpdateRequest") {
					for _, o := range core.Origins(core.CallArg(c, 1), core.SliceOpts{Helpers: unit}) {
						if o.Kind == core.OParam && o.Param == reqParam {
							upd = true
						}
					}
				}
			})
		}
		for _, b := range lit.Blocks {
			ifi, ok := core.LastInstr(b).(*ssa.If)
			if !ok {
				continue
			}
			cnd, pol := core.StripNot(ifi.Cond, true)
			bo, ok := cnd.(*ssa.BinOp)
			if !ok {
				continue
			}
			switch bo.Op {
			case token.GEQ, token.GTR, token.LSS, token.LEQ:
			default:
				continue
			}
			if _, isK := core.ConstInt(bo.Y); !isK {
				continue
			}
			// the successor taken when the count is too large
			over := 0
			if (bo.Op == token.GEQ || bo.Op == token.GTR) != pol {
				over = 1
			}
			if ret, isRet := core.LastInstr(b.Succs[over]).(*ssa.Return); isRet && !core.IsNilConst(core.ReturnOperand(ret, 0)) {
				bound = true
			}
		}
		r.Check(upd, rule, p.FuncName(lit), "auth re-evaluated for the redirect target", p.Pos(lit.Pos()), "UpdateRequest(req) on the redirected request: the Authorization header is replaced by what the handler table holds for the new host (usually nothing)")
		r.Check(bound, rule, p.FuncName(lit), "redirect chain bounded", p.Pos(lit.Pos()), "a fixed number of hops ends the chain with an error")
	}
	r.Held(rule, installedBy, "hook installed on the per-repository client", "-", "CheckRedirect is set from the per-host hook")
}

var secretField = regexp.MustCompile(`(?i)^(pass|password|token|accesstoken|refreshtoken|jwt|clientkey_never)$`)

func isSecretOwner(n *types.Named) bool {
	if n == nil || n.Obj().Pkg() == nil {
		return false
	}
	pp := n.Obj().Pkg().Path()
	return pp == modPath("config") || pp == modPath("internal/auth")
}

// secretFieldsOf returns the names of the secret fields of a struct type (through pointers).
func secretFieldsOf(t types.Type) (*types.Named, []string) {
	n := core.NamedOf(t)
	if !isSecretOwner(n) {
		return nil, nil
	}
	st, ok := n.Underlying().(*types.Struct)
	if !ok {
		return nil, nil
	}
	var out []string
	for i := 0; i < st.NumFields(); i++ {
		if secretField.MatchString(st.Field(i).Name()) && isStringType(st.Field(i).Type()) {
			out = append(out, st.Field(i).Name())
		}
	}
	return n, out
}

// secretTaint reports a secret source in the backward data slice of v.
func secretTaint(v ssa.Value, depth int, seen map[ssa.Value]bool) string {
	if v == nil || depth > 14 || seen[v] {
		return ""
	}
	seen[v] = true
	field := func(t types.Type, idx int) string {
		n := core.NamedOf(t)
		if !isSecretOwner(n) {
			return ""
		}
		f := core.FieldName(t, idx)
		if secretField.MatchString(f) {
			return n.Obj().Name() + "." + f
		}
		return ""
	}
	switch x := v.(type) {
	case *ssa.Const:
		return ""
	case *ssa.UnOp:
		if fa, ok := x.X.(*ssa.FieldAddr); ok {
			if s := field(fa.X.Type(), fa.Field); s != "" {
				return s
			}
			return ""
		}
		if al, ok := x.X.(*ssa.Alloc); ok {
			for _, st := range core.StoresToCell(al) {
				if s := secretTaint(st.Val, depth+1, seen); s != "" {
					return s
				}
			}
			return ""
		}
		return secretTaint(x.X, depth+1, seen)
	case *ssa.Field:
		if s := field(x.X.Type(), x.Field); s != "" {
			return s
		}
		return ""
	case *ssa.Phi:
		for _, e := range x.Edges {
			if s := secretTaint(e, depth+1, seen); s != "" {
				return s
			}
		}
	case *ssa.BinOp:
		if s := secretTaint(x.X, depth+1, seen); s != "" {
			return s
		}
		return secretTaint(x.Y, depth+1, seen)
	case *ssa.Convert:
		return secretTaint(x.X, depth+1, seen)
	case *ssa.ChangeType:
		return secretTaint(x.X, depth+1, seen)
	case *ssa.MakeInterface:
		return secretTaint(x.X, depth+1, seen)
	case *ssa.Slice:
		return secretTaint(x.X, depth+1, seen)
	case *ssa.Extract:
		return secretTaint(x.Tuple, depth+1, seen)
	case *ssa.Call:
		if x.Call.IsInvoke() && x.Call.Method.Name() == "GenerateAuth" {
			return "generated Authorization value"
		}
		cal := core.Callee(x)
		if cal == nil || cal.Pkg() == nil {
			return ""
		}
		switch cal.Pkg().Path() {
		case "fmt", "strings", "encoding/base64", "bytes", "net/url":
			for _, a := range x.Call.Args {
				for _, e := range variadicElems(a) {
					if s := secretTaint(e, depth+1, seen); s != "" {
						return s
					}
				}
			}
		}
	}
	return ""
}

func isSlogSink(cal *types.Func) bool {
	if cal == nil || cal.Pkg() == nil || cal.Pkg().Path() != "log/slog" {
		return false
	}
	switch cal.Name() {
	case "String", "Any", "Group", "Attr", "Debug", "Info", "Warn", "Error", "Log", "LogAttrs", "With", "DebugContext", "InfoContext", "WarnContext", "ErrorContext":
		return true
	}
	return false
}

func c11R6(p *core.Prog, r *core.Report) {
	const rule = "C11.R6"
	r.Rule(rule, "no secret reaches a log: no slog argument is derived from a password/token field or a generated Authorization value; credential structs are logged only with their secret fields masked on every path; request headers only as the censored clone", 2)
	n := 0
	bad := 0
	for _, fn := range p.ModFuncs {
		if fn.Synthetic != "" {
			continue
		}
		lab := labeler{}
		core.Calls(fn, func(c ssa.CallInstruction) {
			cal := core.Callee(c)
			if !isSlogSink(cal) {
				return
			}
			for _, a := range c.Common().Args {
				for _, e := range variadicElems(a) {
					n++
					fname := p.FuncName(fn)
					v := underIface(e)
					// (1) data derived from a secret
					if s := secretTaint(e, 0, map[ssa.Value]bool{}); s != "" {
						bad++
						r.Violated(rule, fname, lab.next("slog argument"), p.Pos(c.Pos()), "a value derived from "+s+" is passed to the logger")
						continue
					}
					// (2) whole credential structs
					if owner, fields := secretFieldsOf(v.Type()); owner != nil && len(fields) > 0 {
						if why := unmaskedField(v, c.(ssa.Instruction), owner, fields); why != "" {
							bad++
							r.Violated(rule, fname, lab.next("slog struct "+owner.Obj().Name()), p.Pos(c.Pos()), why)
						} else {
							r.Held(rule, fname, lab.next("slog struct "+owner.Obj().Name()), p.Pos(c.Pos()), "secret fields "+strings.Join(fields, ", ")+" are overwritten by a constant (or known empty) on every path to the log call")
						}
						continue
					}
					// (3) request headers
					if core.IsNamed(v.Type(), "net/http", "Header") {
						if isRequestHeader(v) {
							bad++
							r.Violated(rule, fname, lab.next("slog headers"), p.Pos(c.Pos()), "the header map of an outgoing request (which carries Authorization) is logged; only a clone with the field censored may be logged")
						} else if fromCensoredClone(v) {
							r.Held(rule, fname, lab.next("slog headers"), p.Pos(c.Pos()), "censored clone")
						}
					}
				}
			}
		})
	}
	if bad == 0 {
		r.Held(rule, "module", "all slog arguments", "-", fmt.Sprintf("%d logger arguments examined, none derived from a secret", n))
	}
	if n < 100 {
		r.Undecided(rule, "module", "slog argument floor", "-", fmt.Sprintf("only %d logger arguments found", n))
	}
}

func isRequestHeader(v ssa.Value) bool {
	u, ok := v.(*ssa.UnOp)
	if !ok {
		return false
	}
	fa, ok := u.X.(*ssa.FieldAddr)
	if !ok {
		return false
	}
	n, f := core.FieldAddrInfo(fa)
	return n != nil && n.Obj().Name() == "Request" && f == "Header"
}

func fromCensoredClone(v ssa.Value) bool {
	for _, oc := range originCalls(v) {
		if cal := core.Callee(oc); cal != nil && core.IsMethod(cal, "net/http", "Header", "Clone") {
			// a Set("Authorization", const) on the clone exists
			for _, ref := range *oc.Referrers() {
				if c, ok := ref.(*ssa.Call); ok {
					if f := core.Callee(c); f != nil && core.IsMethod(f, "net/http", "Header", "Set") && isAuthorizationKey(core.CallArg(c, 1)) {
						if _, isK := core.ConstString(core.CallArg(c, 2)); isK {
							return true
						}
					}
				}
			}
		}
	}
	return false
}

// unmaskedField: the struct value logged is a load of a local copy; for each secret field every
// path from the copy's definition to the log call passes a store of a constant to the field or the
// edge on which the field is known to be empty.
func unmaskedField(v ssa.Value, at ssa.Instruction, owner *types.Named, fields []string) string {
	// the masked copy may be produced by a helper: every value it returns must be masked inside it
	if call, isCall := v.(*ssa.Call); isCall {
		if g := call.Call.StaticCallee(); g != nil && len(g.Blocks) > 0 && g.Pkg != nil && at.Parent().Pkg == g.Pkg && g.Signature.Results().Len() == 1 {
			for _, ret := range core.Returns(g) {
				if why := unmaskedField(core.ReturnOperand(ret, 0), ret, owner, fields); why != "" {
					return why + " (in " + g.Name() + ")"
				}
			}
			return ""
		}
	}
	u, ok := v.(*ssa.UnOp)
	if !ok {
		return "a " + owner.Obj().Name() + " value that carries " + strings.Join(fields, ", ") + " is logged as a whole"
	}
	cell, ok := u.X.(*ssa.Alloc)
	if !ok {
		return "a " + owner.Obj().Name() + " value that carries " + strings.Join(fields, ", ") + " is logged as a whole"
	}
	// definitions: whole-struct stores to the cell
	var defs []ssa.Instruction
	for _, st := range core.StoresToCell(cell) {
		if st.Parent() == at.Parent() {
			defs = append(defs, st)
		}
	}
	if len(defs) == 0 {
		return "the logged " + owner.Obj().Name() + " has no local definition"
	}
	for _, f := range fields {
		f := f
		isField := func(a ssa.Value) bool {
			fa, ok := a.(*ssa.FieldAddr)
			return ok && fa.X == ssa.Value(cell) && core.FieldName(fa.X.Type(), fa.Field) == f
		}
		stop := func(in ssa.Instruction) bool {
			st, ok := in.(*ssa.Store)
			if !ok || !isField(st.Addr) {
				return false
			}
			_, isK := core.ConstString(st.Val)
			return isK
		}
		stopEdge := func(from, to *ssa.BasicBlock) bool {
			ifi, ok := core.LastInstr(from).(*ssa.If)
			if !ok {
				return false
			}
			bo, ok := ifi.Cond.(*ssa.BinOp)
			if !ok || (bo.Op != token.NEQ && bo.Op != token.EQL) {
				return false
			}
			ld, ok := bo.X.(*ssa.UnOp)
			if !ok || !isField(ld.X) {
				return false
			}
			if s, isK := core.ConstString(bo.Y); !isK || s != "" {
				return false
			}
			emptyEdge := from.Succs[1]
			if bo.Op == token.EQL {
				emptyEdge = from.Succs[0]
			}
			return to == emptyEdge
		}
		for _, d := range defs {
			if (core.Reach{Stop: stop, StopEdge: stopEdge}).FromInstr(d)[at] {
				return "field " + f + " of the logged " + owner.Obj().Name() + " is not masked on every path to the log call"
			}
		}
	}
	return ""
}

func c11R7(p *core.Prog, r *core.Report) {
	const rule = "C11.R7"
	r.Rule(rule, "credentials are bound to the configured host: a challenge is only handed to the host's auth handler when the answered request went to that host", 1)
	next := p.Method("internal/reghttp", "Resp", "next")
	if next == nil {
		r.MissingAnchor(rule, "internal/reghttp.(*Resp).next")
		return
	}
	n := 0
	for _, f := range core.WithAnon(next) {
		core.Calls(f, func(c ssa.CallInstruction) {
			cal := core.Callee(c)
			if cal == nil || !core.IsModMethod(cal, "internal/auth", "Auth", "HandleResponse") {
				return
			}
			n++
			// guarded by a comparison that involves the response's request host and the host entry's hostname
			ok := anyGuard(c.Block(), func(cnd ssa.Value, pol bool) bool {
				bo, isB := cnd.(*ssa.BinOp)
				if !isB || (bo.Op != token.EQL && bo.Op != token.NEQ) {
					return false
				}
				return dependsOnField(bo.X, "net/url", "URL", "Host") && dependsOnField(bo.Y, modPath("config"), "Host", "Hostname") ||
					dependsOnField(bo.Y, "net/url", "URL", "Host") && dependsOnField(bo.X, modPath("config"), "Host", "Hostname")
			})
			r.Check(ok, rule, p.FuncName(f), "challenge accepted from foreign host", p.Pos(c.Pos()),
				"HandleResponse keys the new handler by the host of the request that was answered (after redirects, or a DirectURL) and gives it this host entry's credential function: any host that answers 401 is offered the registry's user name and password")
		})
	}
	if n == 0 {
		r.MissingAnchor(rule, "call of (*auth.Auth).HandleResponse in next")
	}
}

// ---------------------------------------------------------------------------------------------
// R8 registry identity is decided by equality

var hostLikeRE = regexp.MustCompile(`^(?:[a-z]+://)?[a-z0-9-]+(?:\.[a-z0-9-]+)+(?::[0-9]+)?(?:/.*)?$`)

func c11R8(p *core.Prog, r *core.Report) {
	const rule = "C11.R8"
	r.Rule(rule, "which registry a name (and the credentials stored under it) belongs to is decided by equality: in the packages that load credentials and pick hosts no suffix/prefix/substring/case-folding match is made against a constant host name (registry.corpdocker.io ends in docker.io)", 1)
	loose := map[string]bool{"HasSuffix": true, "HasPrefix": true, "Contains": true, "EqualFold": true, "Index": true, "LastIndex": true, "ContainsAny": true}
	scope := map[string]bool{modPath("config"): true, modPath("internal/auth"): true, modPath("internal/reghttp"): true, modPath("types/ref"): true, modPath("."): true, modPath("scheme/reg"): true}
	n := 0
	for _, fn := range p.ModFuncs {
		pk := core.FuncPkg(fn)
		if pk == nil || !scope[pk.Path()] || fn.Synthetic != "" {
			continue
		}
		lab := labeler{}
		core.Calls(fn, func(c ssa.CallInstruction) {
			cal := core.Callee(c)
			if cal == nil || cal.Pkg() == nil || cal.Pkg().Path() != "strings" || !loose[cal.Name()] {
				return
			}
			n++
			label := lab.next("strings." + cal.Name())
			host := ""
			for _, a := range c.Common().Args {
				for _, o := range core.Origins(a, core.SliceOpts{}) {
					if o.Kind == core.OConst {
						if k, ok := core.ConstString(o.Val); ok && hostLikeRE.MatchString(k) {
							host = k
						}
					}
				}
			}
			if host != "" {
				r.Violated(rule, p.FuncName(fn), label, p.Pos(c.Pos()), "a name is matched loosely against the host "+strconv.Quote(host)+": a different registry whose name merely contains it is given the same identity, and with it the same credentials")
			} else {
				r.Held(rule, p.FuncName(fn), label, p.Pos(c.Pos()), "no constant host name involved")
			}
		})
	}
	if n == 0 {
		r.Held(rule, "module", "no loose string match in the credential and host packages", "", "nothing to check")
	}
}

// c11R12: request headers are logged only as a censored copy. In internal/reghttp every value of type
// http.Header that is handed to a log call is, for all of its origins (looked at through the
// package's helpers), the result of Header.Clone — the copy in which the Authorization field is
// overwritten — never the Header field of the request itself.
func c11R12(p *core.Prog, r *core.Report) {
	const rule = "C11.R12"
	r.Rule(rule, "logged request headers are the censored copy: in internal/reghttp an http.Header given to a slog attribute constructor originates, on every path, from Header.Clone (the copy whose Authorization field is overwritten), not from the request's Header field (a level test that skips the copy leaks the login at every level that still prints the entry)", 1)
	fns := pkgFuncs(p, "internal/reghttp")
	unit := map[*ssa.Function]bool{}
	for _, f := range fns {
		unit[f] = true
	}
	n := 0
	lab := map[*ssa.Function]labeler{}
	for _, fn := range fns {
		core.Calls(fn, func(c ssa.CallInstruction) {
			cal := core.Callee(c)
			if cal == nil || cal.Pkg() == nil || cal.Pkg().Path() != "log/slog" {
				return
			}
			for _, a := range c.Common().Args {
				v := underIface(a)
				if !core.IsNamed(v.Type(), "net/http", "Header") {
					continue
				}
				n++
				bad := ""
				for _, o := range core.Origins(v, core.SliceOpts{Helpers: unit}) {
					switch {
					case o.Kind == core.OCall && o.Callee() != nil && o.Callee().Name() == "Clone":
					case o.Kind == core.OField && o.Field == "Header":
						// the request's field; a response's headers carry no login
						isReq := true
						if ld, ok := o.Val.(*ssa.UnOp); ok {
							if fa, ok := ld.X.(*ssa.FieldAddr); ok && core.IsNamed(fa.X.Type(), "net/http", "Response") {
								isReq = false
							}
						}
						if fl, ok := o.Val.(*ssa.Field); ok && core.IsNamed(fl.X.Type(), "net/http", "Response") {
							isReq = false
						}
						if isReq {
							bad = "the Header field of the request"
						}
					case o.Kind == core.OField:
						// a response's headers carry no login
					default:
					}
				}
				if lab[fn] == nil {
					lab[fn] = labeler{}
				}
				r.Check(bad == "", rule, p.FuncName(fn), lab[fn].next("headers in a log entry"), p.Pos(c.Pos()),
					"the headers logged can be "+bad+" (not the censored copy): the Authorization value (basic login or bearer token) is written to the log")
			}
		})
	}
	if n == 0 {
		r.Held(rule, "internal/reghttp", "headers in a log entry", "", "no http.Header is handed to a log call")
	}
}

// ---------------------------------------------------------------------------------------------
// R13 the text a secret is cut out of is a secret

// c11R13: R6 follows values that were read from a password or token field. A secret also exists
// before it is stored there: the command-line string `reg=…,user=…,pass=…`, the map it is split
// into, a `user:password` pair before the cut. Whatever a stored secret was derived from by string
// operations is a carrier of it, and a carrier that reaches the logger prints the secret (found D23
// on the unchanged tree: two warnings of regctl's --host parsing logged the whole flag value).
func c11R13(p *core.Prog, r *core.Report) {
	const rule = "C11.R13"
	r.Rule(rule, "the text a secret is cut out of is a secret: for every store into a password/token field, the strings, byte slices and string maps the stored value is derived from (through map lookups, strings/bytes/base64/url functions and the module's string parsers) do not reach a slog argument of the same function — except through a lookup in such a map with a constant key other than the one the secret is stored under", 1)
	isCutter := func(f *types.Func) bool {
		if f == nil || f.Pkg() == nil {
			return false
		}
		switch f.Pkg().Path() {
		case "strings", "bytes", "encoding/base64", "net/url", modPath("internal/strparse"):
			return true
		}
		return false
	}
	carrierType := func(t types.Type) bool {
		switch u := t.Underlying().(type) {
		case *types.Basic:
			return u.Info()&types.IsString != 0
		case *types.Slice:
			b, ok := u.Elem().Underlying().(*types.Basic)
			return ok && (b.Kind() == types.Byte || b.Kind() == types.Uint8 || b.Info()&types.IsString != 0)
		case *types.Map:
			return true
		case *types.Tuple:
			return true
		}
		return false
	}
	stores, flagged := 0, 0
	for _, fn := range p.ModFuncs {
		if fn.Synthetic != "" || fn.Parent() != nil || len(fn.Blocks) == 0 {
			continue
		}
		unit := core.WithAnon(fn)
		carriers := map[ssa.Value]string{}     // value -> secret it carries
		secretKeys := map[ssa.Value]map[string]bool{} // carrier map -> keys the secret is stored under
		var back func(v ssa.Value, what string, depth int)
		back = func(v ssa.Value, what string, depth int) {
			if v == nil || depth > 8 {
				return
			}
			if _, isC := v.(*ssa.Const); isC {
				return
			}
			if !carrierType(v.Type()) {
				return
			}
			if _, seen := carriers[v]; seen {
				return
			}
			carriers[v] = what
			switch x := v.(type) {
			case *ssa.Lookup:
				if k, ok := core.ConstString(x.Index); ok {
					if secretKeys[x.X] == nil {
						secretKeys[x.X] = map[string]bool{}
					}
					secretKeys[x.X][k] = true
				}
				back(x.X, what, depth+1)
			case *ssa.Extract:
				back(x.Tuple, what, depth+1)
			case *ssa.Phi:
				for _, e := range x.Edges {
					back(e, what, depth+1)
				}
			case *ssa.Convert:
				back(x.X, what, depth+1)
			case *ssa.ChangeType:
				back(x.X, what, depth+1)
			case *ssa.Slice:
				back(x.X, what, depth+1)
			case *ssa.BinOp:
				back(x.X, what, depth+1)
				back(x.Y, what, depth+1)
			case *ssa.UnOp:
				if x.Op == token.MUL {
					if al, ok := x.X.(*ssa.Alloc); ok {
						for _, st := range core.ReachingStores(x, al) {
							back(st.Val, what, depth+1)
						}
					}
				}
			case *ssa.Call:
				if isCutter(core.Callee(x)) {
					for _, a := range x.Call.Args {
						for _, e := range variadicElems(a) {
							back(e, what, depth+1)
						}
					}
				}
			}
		}
		for _, g := range unit {
			for _, b := range g.Blocks {
				for _, in := range b.Instrs {
					st, ok := in.(*ssa.Store)
					if !ok {
						continue
					}
					fa, ok := st.Addr.(*ssa.FieldAddr)
					if !ok {
						continue
					}
					owner, fld := core.FieldAddrInfo(fa)
					if !isSecretOwner(owner) || !secretField.MatchString(fld) {
						continue
					}
					if _, isC := st.Val.(*ssa.Const); isC {
						continue
					}
					stores++
					back(st.Val, owner.Obj().Name()+"."+fld, 0)
				}
			}
		}
		// a document that is decoded into a struct with secret fields carries them
		for _, g := range unit {
			core.Calls(g, func(c ssa.CallInstruction) {
				cal := core.Callee(c)
				if cal == nil || cal.Pkg() == nil {
					return
				}
				pk := cal.Pkg().Path()
				if pk != "encoding/json" && pk != "gopkg.in/yaml.v3" && pk != "github.com/goccy/go-yaml" {
					return
				}
				args := c.Common().Args
				if len(args) == 0 {
					return
				}
				target := underIface(args[len(args)-1])
				pt, ok := target.Type().Underlying().(*types.Pointer)
				if !ok {
					return
				}
				owner, fields := secretFieldsOf(pt.Elem())
				if owner == nil || len(fields) == 0 {
					return
				}
				what := owner.Obj().Name() + "." + fields[0]
				switch cal.Name() {
				case "Unmarshal":
					stores++
					back(args[0], what, 0)
				case "Decode":
					// the decoder's source: NewDecoder(bytes.NewReader(body)) / NewDecoder(strings.NewReader(s))
					for _, oc := range originCalls(args[0]) {
						if f := core.Callee(oc); f != nil && f.Name() == "NewDecoder" && len(oc.Call.Args) > 0 {
							for _, rc := range originCalls(underIface(oc.Call.Args[0])) {
								if rf := core.Callee(rc); rf != nil && rf.Pkg() != nil && (rf.Pkg().Path() == "bytes" || rf.Pkg().Path() == "strings") && len(rc.Call.Args) > 0 {
									stores++
									back(rc.Call.Args[0], what, 0)
								}
							}
						}
					}
				}
			})
		}
		if len(carriers) == 0 {
			continue
		}
		// does a logger argument reach a carrier as a whole?
		var hits func(v ssa.Value, depth int, seen map[ssa.Value]bool) string
		hits = func(v ssa.Value, depth int, seen map[ssa.Value]bool) string {
			if v == nil || depth > 10 || seen[v] {
				return ""
			}
			seen[v] = true
			if lk, ok := v.(*ssa.Lookup); ok {
				if keys := secretKeys[lk.X]; keys != nil {
					if k, isK := core.ConstString(lk.Index); isK && !keys[k] {
						return "" // another entry of the parsed map
					}
				}
			}
			if what, ok := carriers[v]; ok {
				return what
			}
			switch x := v.(type) {
			case *ssa.Lookup:
				return hits(x.X, depth+1, seen)
			case *ssa.Extract:
				return hits(x.Tuple, depth+1, seen)
			case *ssa.Phi:
				for _, e := range x.Edges {
					if s := hits(e, depth+1, seen); s != "" {
						return s
					}
				}
			case *ssa.Convert:
				return hits(x.X, depth+1, seen)
			case *ssa.ChangeType:
				return hits(x.X, depth+1, seen)
			case *ssa.MakeInterface:
				return hits(x.X, depth+1, seen)
			case *ssa.Slice:
				return hits(x.X, depth+1, seen)
			case *ssa.BinOp:
				if s := hits(x.X, depth+1, seen); s != "" {
					return s
				}
				return hits(x.Y, depth+1, seen)
			case *ssa.UnOp:
				if x.Op == token.MUL {
					if al, ok := x.X.(*ssa.Alloc); ok {
						for _, st := range core.ReachingStores(x, al) {
							if s := hits(st.Val, depth+1, seen); s != "" {
								return s
							}
						}
					}
				}
			case *ssa.Call:
				cal := core.Callee(x)
				if cal != nil && cal.Pkg() != nil {
					switch cal.Pkg().Path() {
					case "fmt", "strings", "bytes", "encoding/base64", "net/url":
						for _, a := range x.Call.Args {
							for _, e := range variadicElems(a) {
								if s := hits(e, depth+1, seen); s != "" {
									return s
								}
							}
						}
					}
				}
			}
			return ""
		}
		lab := labeler{}
		for _, g := range unit {
			core.Calls(g, func(c ssa.CallInstruction) {
				if !isSlogSink(core.Callee(c)) {
					return
				}
				for _, a := range c.Common().Args {
					for _, e := range variadicElems(a) {
						if s := hits(e, 0, map[ssa.Value]bool{}); s != "" {
							flagged++
							r.Violated(rule, p.FuncName(fn), lab.next("slog argument carries "+s), p.Pos(c.Pos()), "the logged value is the text (or the parsed map) that "+s+" is cut out of in this function: the log line prints the secret")
						}
					}
				}
			})
		}
	}
	r.Check(stores > 0, rule, "module", "stores into secret fields followed to their sources", "-", fmt.Sprintf("%d non-constant store(s) into password/token fields examined, %d logger argument(s) carry their source text", stores, flagged))
}

package rules

import (
	"go/types"
	"strings"

	"golang.org/x/tools/go/ssa"

	"verif/internal/core"
)

// Rules know some unexported functions by name. A behaviour-preserving rename must not turn into an
// "anchor not found" alarm, so every such function also has a role: a description by receiver,
// signature and what it calls that singles it out among the top-level functions of its package. The
// lookup by name comes first; the role is consulted only when no function has the name, and it must
// match exactly one function. canon(fn) gives the name the rules know a function by.

type roleEntry struct {
	rel, typ, name string
	role           func(p *core.Prog, f *ssa.Function) bool
}

var (
	roleProg  *core.Prog
	roleAlias map[*ssa.Function]string
)

func recvNamed(f *ssa.Function) *types.Named {
	if f.Signature.Recv() == nil {
		return nil
	}
	return core.NamedOf(f.Signature.Recv().Type())
}

func sigParams(f *ssa.Function) []*types.Var {
	var out []*types.Var
	ps := f.Signature.Params()
	for i := 0; i < ps.Len(); i++ {
		out = append(out, ps.At(i))
	}
	return out
}

func sigResults(f *ssa.Function) []types.Type {
	var out []types.Type
	rs := f.Signature.Results()
	for i := 0; i < rs.Len(); i++ {
		out = append(out, rs.At(i).Type())
	}
	return out
}

// elemNamed: t, or the element of a slice/pointer of t, is the module type rel.name.
func elemNamed(t types.Type, rel, name string) bool {
	for i := 0; i < 3; i++ {
		if core.IsModNamed(t, rel, name) {
			return true
		}
		switch x := t.Underlying().(type) {
		case *types.Slice:
			t = x.Elem()
		case *types.Pointer:
			t = x.Elem()
		default:
			return false
		}
	}
	return false
}

func takes(f *ssa.Function, rel, name string) bool {
	for _, v := range sigParams(f) {
		if elemNamed(v.Type(), rel, name) {
			return true
		}
	}
	return false
}

func takesExt(f *ssa.Function, pkg, name string) bool {
	for _, v := range sigParams(f) {
		if core.IsNamed(v.Type(), pkg, name) {
			return true
		}
	}
	return false
}

func returnsMod(f *ssa.Function, i int, rel, name string) bool {
	rs := sigResults(f)
	return i < len(rs) && core.IsModNamed(rs[i], rel, name)
}

func isErrType(t types.Type) bool { return types.Identical(t, types.Universe.Lookup("error").Type()) }

func unexported(f *ssa.Function) bool { return f.Object() != nil && !f.Object().Exported() }

// callsWhere: f or one of its literals calls a function satisfying pred.
func callsWhere(f *ssa.Function, pred func(*types.Func) bool) bool {
	found := false
	for _, g := range core.WithAnon(f) {
		core.Calls(g, func(c ssa.CallInstruction) {
			if cal := core.Callee(c); cal != nil && pred(cal) {
				found = true
			}
		})
	}
	return found
}

// reqMethodsOf: the constant methods of the reghttp.Req literals built in f.
func reqMethodsOf(p *core.Prog, f *ssa.Function) map[string]bool {
	out := map[string]bool{}
	for _, lit := range reqLiterals(p) {
		if lit.Fn == f && lit.MethodOK {
			for _, m := range strings.Split(lit.Method, "|") {
				out[m] = true
			}
		}
	}
	return out
}

func extMethod(pkg, typ, name string) func(*types.Func) bool {
	return func(f *types.Func) bool { return core.IsMethod(f, pkg, typ, name) }
}

func modMethod(rel, typ, name string) func(*types.Func) bool {
	return func(f *types.Func) bool { return core.IsModMethod(f, rel, typ, name) }
}

var roleTable = []roleEntry{
	{"internal/reghttp", "Resp", "next", func(p *core.Prog, f *ssa.Function) bool {
		return unexported(f) && callsWhere(f, extMethod("net/http", "Client", "Do"))
	}},
	{"internal/reghttp", "Client", "getHost", func(p *core.Prog, f *ssa.Function) bool {
		return unexported(f) && len(sigParams(f)) == 1 && returnsMod(f, 0, "internal/reghttp", "clientHost")
	}},
	{"internal/reghttp", "clientHost", "getAuth", func(p *core.Prog, f *ssa.Function) bool {
		return unexported(f) && returnsMod(f, 0, "internal/auth", "Auth")
	}},
	{"internal/reghttp", "clientHost", "getHTTPClient", func(p *core.Prog, f *ssa.Function) bool {
		rs := sigResults(f)
		return unexported(f) && len(rs) == 1 && core.IsNamed(rs[0], "net/http", "Client")
	}},
	{"internal/reghttp", "", "sortHostsCmp", func(p *core.Prog, f *ssa.Function) bool {
		rs := sigResults(f)
		if len(rs) != 1 {
			return false
		}
		sg, ok := rs[0].Underlying().(*types.Signature)
		return ok && sg.Params().Len() == 2 && sg.Results().Len() == 1
	}},
	{ocidirRel, "OCIDir", "manifestPut", func(p *core.Prog, f *ssa.Function) bool {
		return unexported(f) && takes(f, "types/manifest", "Manifest") && takes(f, "scheme", "ManifestOpts")
	}},
	{ocidirRel, "OCIDir", "manifestGet", func(p *core.Prog, f *ssa.Function) bool {
		rs := sigResults(f)
		return unexported(f) && len(rs) == 2 && core.IsModNamed(rs[0], "types/manifest", "Manifest") && takes(f, "types/ref", "Ref")
	}},
	{ocidirRel, "OCIDir", "readIndex", func(p *core.Prog, f *ssa.Function) bool {
		rs := sigResults(f)
		return unexported(f) && len(rs) == 2 && core.IsModNamed(rs[0], "types/oci/v1", "Index") && isErr(rs[1])
	}},
	{ocidirRel, "OCIDir", "writeIndex", func(p *core.Prog, f *ssa.Function) bool {
		return unexported(f) && takes(f, "types/oci/v1", "Index")
	}},
	{ocidirRel, "OCIDir", "updateIndex", func(p *core.Prog, f *ssa.Function) bool {
		rd, wr := p.Method(ocidirRel, "OCIDir", "readIndex"), p.Method(ocidirRel, "OCIDir", "writeIndex")
		if !unexported(f) || !takes(f, "types/descriptor", "Descriptor") || takes(f, "types/manifest", "Manifest") || rd == nil || wr == nil {
			return false
		}
		r, w := false, false
		core.Calls(f, func(c ssa.CallInstruction) {
			r = r || core.CalleeFn(c) == rd
			w = w || core.CalleeFn(c) == wr
		})
		return r && w
	}},
	{ocidirRel, "OCIDir", "tagDelete", func(p *core.Prog, f *ssa.Function) bool {
		// the unexported counterpart of the exported TagDelete: called by it, same parameters
		exp := p.Method(ocidirRel, "OCIDir", "TagDelete")
		if !unexported(f) || exp == nil || !types.Identical(f.Signature.Params(), exp.Signature.Params()) {
			return false
		}
		called := false
		core.Calls(exp, func(c ssa.CallInstruction) { called = called || core.CalleeFn(c) == f })
		return called
	}},
	{ocidirRel, "OCIDir", "referrerList", func(p *core.Prog, f *ssa.Function) bool {
		return unexported(f) && returnsMod(f, 0, "types/referrer", "ReferrerList")
	}},
	{ocidirRel, "OCIDir", "referrerPut", func(p *core.Prog, f *ssa.Function) bool {
		return unexported(f) && takes(f, "types/manifest", "Manifest") && callsWhere(f, modMethod("types/referrer", "ReferrerList", "Add"))
	}},
	{ocidirRel, "OCIDir", "referrerDelete", func(p *core.Prog, f *ssa.Function) bool {
		return unexported(f) && takes(f, "types/manifest", "Manifest") && callsWhere(f, modMethod("types/referrer", "ReferrerList", "Delete"))
	}},
	{ocidirRel, "", "indexGet", func(p *core.Prog, f *ssa.Function) bool {
		rs := sigResults(f)
		return len(rs) == 2 && core.IsModNamed(rs[0], "types/descriptor", "Descriptor") && takes(f, "types/oci/v1", "Index") && takes(f, "types/ref", "Ref")
	}},
	{"scheme/reg", "Reg", "blobPutUploadChunked", func(p *core.Prog, f *ssa.Function) bool {
		return unexported(f) && reqMethodsOf(p, f)["PATCH"]
	}},
	{"scheme/reg", "Reg", "blobPutUploadFull", func(p *core.Prog, f *ssa.Function) bool {
		ms := reqMethodsOf(p, f)
		return unexported(f) && ms["PUT"] && !ms["PATCH"] && takesExt(f, "io", "Reader")
	}},
	{"scheme/reg", "Reg", "blobUploadCancel", func(p *core.Prog, f *ssa.Function) bool {
		return unexported(f) && reqMethodsOf(p, f)["DELETE"] && takesExt(f, "net/url", "URL")
	}},
	{"scheme/reg", "Reg", "blobMount", func(p *core.Prog, f *ssa.Function) bool {
		n := 0
		for _, v := range sigParams(f) {
			if core.IsModNamed(v.Type(), "types/ref", "Ref") {
				n++
			}
		}
		return unexported(f) && reqMethodsOf(p, f)["POST"] && n == 2
	}},
	{"scheme/reg", "Reg", "referrerListByTag", func(p *core.Prog, f *ssa.Function) bool {
		return unexported(f) && len(sigResults(f)) == 2 && returnsMod(f, 0, "types/referrer", "ReferrerList") && !takes(f, "scheme", "ReferrerConfig")
	}},
	{"scheme/reg", "Reg", "referrerListByAPI", func(p *core.Prog, f *ssa.Function) bool {
		return unexported(f) && len(sigResults(f)) == 2 && returnsMod(f, 0, "types/referrer", "ReferrerList") && takes(f, "scheme", "ReferrerConfig")
	}},
	{"scheme/reg", "Reg", "referrerPut", func(p *core.Prog, f *ssa.Function) bool {
		return unexported(f) && takes(f, "types/manifest", "Manifest") && callsWhere(f, modMethod("types/referrer", "ReferrerList", "Add"))
	}},
	{"scheme/reg", "Reg", "referrerDelete", func(p *core.Prog, f *ssa.Function) bool {
		return unexported(f) && takes(f, "types/manifest", "Manifest") && callsWhere(f, modMethod("types/referrer", "ReferrerList", "Delete"))
	}},
	{".", "", "imageSeenOrWait", func(p *core.Prog, f *ssa.Function) bool {
		for _, t := range sigResults(f) {
			if sg, ok := t.Underlying().(*types.Signature); ok && sg.Params().Len() == 1 && isErrType(sg.Params().At(0).Type()) && sg.Results().Len() == 0 {
				return true
			}
		}
		return false
	}},
	{".", "RegClient", "imageCopyBlob", func(p *core.Prog, f *ssa.Function) bool {
		direct := false
		core.Calls(f, func(c ssa.CallInstruction) {
			direct = direct || core.IsModMethod(core.Callee(c), ".", "RegClient", "BlobCopy")
		})
		return unexported(f) && takes(f, ".", "imageOpt") && takes(f, "types/descriptor", "Descriptor") && direct
	}},
	{".", "RegClient", "imageExportDescriptor", func(p *core.Prog, f *ssa.Function) bool {
		rec := false
		for _, g := range core.WithAnon(f) {
			core.Calls(g, func(c ssa.CallInstruction) { rec = rec || core.CalleeFn(c) == f })
		}
		return unexported(f) && takes(f, ".", "tarWriteData") && takes(f, "types/descriptor", "Descriptor") && rec
	}},
	{".", "RegClient", "imageImportOCIHandleManifest", func(p *core.Prog, f *ssa.Function) bool {
		return unexported(f) && takes(f, ".", "tarReadData") && takes(f, "types/manifest", "Manifest")
	}},
	{"mod", "", "dagGet", func(p *core.Prog, f *ssa.Function) bool {
		rec := false
		for _, g := range core.WithAnon(f) {
			core.Calls(g, func(c ssa.CallInstruction) { rec = rec || core.CalleeFn(c) == f })
		}
		return len(sigResults(f)) == 2 && returnsMod(f, 0, "mod", "dagManifest") && rec
	}},
	{pqRel, "Queue", "release", func(p *core.Prog, f *ssa.Function) bool {
		closes := false
		core.Calls(f, func(c ssa.CallInstruction) {
			if b, ok := c.Common().Value.(*ssa.Builtin); ok && b.Name() == "close" {
				closes = true
			}
		})
		return unexported(f) && len(f.TypeArgs()) == 0 && len(sigParams(f)) == 1 && len(sigResults(f)) == 0 && closes
	}},
	{pqRel, "Queue", "releaseFn", func(p *core.Prog, f *ssa.Function) bool {
		rs := sigResults(f)
		if !unexported(f) || len(f.TypeArgs()) != 0 || len(rs) != 1 {
			return false
		}
		sg, ok := rs[0].Underlying().(*types.Signature)
		return ok && sg.Params().Len() == 0 && sg.Results().Len() == 0
	}},
	{"types/manifest", "", "fromCommon", func(p *core.Prog, f *ssa.Function) bool {
		ps, rs := sigParams(f), sigResults(f)
		return unexported(f) && len(ps) == 1 && core.IsModNamed(ps[0].Type(), "types/manifest", "common") && len(rs) == 2 && core.IsModNamed(rs[0], "types/manifest", "Manifest")
	}},
	{"types/manifest", "", "fromOrig", func(p *core.Prog, f *ssa.Function) bool {
		ps, rs := sigParams(f), sigResults(f)
		return unexported(f) && len(ps) == 2 && core.IsModNamed(ps[0].Type(), "types/manifest", "common") && len(rs) == 2 && core.IsModNamed(rs[0], "types/manifest", "Manifest")
	}},
	{"types/manifest", "", "verifyMT", func(p *core.Prog, f *ssa.Function) bool {
		ps, rs := sigParams(f), sigResults(f)
		return unexported(f) && len(ps) == 2 && isStringType(ps[0].Type()) && isStringType(ps[1].Type()) && len(rs) == 1 && isErrType(rs[0])
	}},
	{".", "tarWriteData", "tarWriteHeader", func(p *core.Prog, f *ssa.Function) bool {
		return callsWhere(f, extMethod("archive/tar", "Writer", "WriteHeader"))
	}},
	{".", "tarReadData", "tarReadAll", func(p *core.Prog, f *ssa.Function) bool {
		return takesExt(f, "io", "ReadSeeker")
	}},
	{".", "RegClient", "imageImportOCIPushManifests", func(p *core.Prog, f *ssa.Function) bool {
		// runs the deferred pushes: calls a function value loaded from a slice field of the archive reader, in a loop
		runs := false
		core.Calls(f, func(c ssa.CallInstruction) {
			if c.Common().IsInvoke() || c.Common().StaticCallee() != nil {
				return
			}
			for _, o := range core.Origins(c.Common().Value, core.SliceOpts{}) {
				if o.Kind == core.OField {
					runs = true
				}
			}
		})
		return unexported(f) && takes(f, ".", "tarReadData") && !takes(f, "types/manifest", "Manifest") && runs && len(core.Loops(f)) > 0 && len(f.AnonFuncs) == 0
	}},
	{".", "", "tarOCILayoutDescPath", func(p *core.Prog, f *ssa.Function) bool {
		ps, rs := sigParams(f), sigResults(f)
		return len(ps) == 1 && core.IsModNamed(ps[0].Type(), "types/descriptor", "Descriptor") && len(rs) == 1 && isStringType(rs[0])
	}},
	{"mod", "", "dagPut", func(p *core.Prog, f *ssa.Function) bool {
		direct := false
		core.Calls(f, func(c ssa.CallInstruction) {
			direct = direct || core.IsModMethod(core.Callee(c), ".", "RegClient", "ManifestPut")
		})
		return takes(f, "mod", "dagManifest") && direct
	}},
	{"types/platform", "", "knownArch", func(p *core.Prog, f *ssa.Function) bool {
		ps, rs := sigParams(f), sigResults(f)
		if !unexported(f) || len(ps) != 1 || !isStringType(ps[0].Type()) || len(rs) != 1 {
			return false
		}
		bt, ok := rs[0].Underlying().(*types.Basic)
		if !ok || bt.Info()&types.IsBoolean == 0 {
			return false
		}
		// the one the parser asks
		parse := p.Func("types/platform", "Parse")
		called := false
		if parse != nil {
			core.Calls(parse, func(c ssa.CallInstruction) { called = called || core.CalleeFn(c) == f })
		}
		return called
	}},
	{"types/platform", "Platform", "normalize", func(p *core.Prog, f *ssa.Function) bool {
		if !unexported(f) || len(sigParams(f)) != 0 || len(sigResults(f)) != 0 {
			return false
		}
		stores := false
		for _, b := range f.Blocks {
			for _, in := range b.Instrs {
				if st, ok := in.(*ssa.Store); ok {
					if _, ok := st.Addr.(*ssa.FieldAddr); ok {
						stores = true
					}
				}
			}
		}
		return stores
	}},
	{"cmd/regsync", "rootOpts", "runCheck", func(p *core.Prog, f *ssa.Function) bool {
		return cobraRunE(p, "cmd/regsync", "check")[f]
	}},
	{"cmd/regbot", "rootOpts", "process", func(p *core.Prog, f *ssa.Function) bool {
		return unexported(f) && takes(f, "cmd/regbot", "ConfigScript")
	}},
}

func init() {
	// the re-serialiser of each manifest type: an unexported method without parameters that returns an
	// error and marshals the manifest
	for _, typ := range []string{"docker2Manifest", "docker2ManifestList", "oci1Manifest", "oci1Index", "oci1Artifact"} {
		roleTable = append(roleTable, roleEntry{"types/manifest", typ, "updateDesc", func(p *core.Prog, f *ssa.Function) bool {
			rs := sigResults(f)
			return unexported(f) && len(sigParams(f)) == 0 && len(rs) == 1 && isErrType(rs[0]) &&
				callsWhere(f, func(g *types.Func) bool { return core.IsFunc(g, "encoding/json", "Marshal") })
		}})
	}
}

// cobraRunE: the functions stored into the RunE (or Run) field of a cobra.Command literal of package
// rel whose Use string starts with the given word.
func cobraRunE(p *core.Prog, rel, use string) map[*ssa.Function]bool {
	out := map[*ssa.Function]bool{}
	for _, fn := range pkgFuncs(p, rel) {
		for _, b := range fn.Blocks {
			for _, in := range b.Instrs {
				al, ok := in.(*ssa.Alloc)
				if !ok || !core.IsNamed(al.Type(), "github.com/spf13/cobra", "Command") {
					continue
				}
				var useOK bool
				var run []ssa.Value
				for _, ref := range *al.Referrers() {
					fa, ok := ref.(*ssa.FieldAddr)
					if !ok {
						continue
					}
					name := core.FieldName(fa.X.Type(), fa.Field)
					for _, r2 := range *fa.Referrers() {
						st, ok := r2.(*ssa.Store)
						if !ok || st.Addr != ssa.Value(fa) {
							continue
						}
						if name == "Use" {
							if s, isC := core.ConstString(st.Val); isC && (s == use || strings.HasPrefix(s, use+" ")) {
								useOK = true
							}
						}
						if name == "RunE" || name == "Run" {
							run = append(run, st.Val)
						}
					}
				}
				if !useOK {
					continue
				}
				for _, v := range run {
					for _, h := range hookFuncs(p, v, 0) {
						out[h] = true
					}
				}
			}
		}
	}
	return out
}

// typeRoles: unexported types the rules name, each with a structural description that singles it out
// among the named struct types of its package.
type typeRole struct {
	rel, name string
	role      func(p *core.Prog, n *types.Named, st *types.Struct) bool
}

func structHasField(st *types.Struct, pred func(t types.Type) bool) bool {
	for i := 0; i < st.NumFields(); i++ {
		if pred(st.Field(i).Type()) {
			return true
		}
	}
	return false
}

var typeRoleTable = []typeRole{
	{".", "tarReadData", func(p *core.Prog, n *types.Named, st *types.Struct) bool {
		return structHasField(st, func(t types.Type) bool { return core.IsNamed(t, "archive/tar", "Reader") })
	}},
	{".", "tarWriteData", func(p *core.Prog, n *types.Named, st *types.Struct) bool {
		return structHasField(st, func(t types.Type) bool { return core.IsNamed(t, "archive/tar", "Writer") })
	}},
	{".", "imageOpt", func(p *core.Prog, n *types.Named, st *types.Struct) bool {
		// the options of a copy: carries the callback and the referrer configurations
		return structHasField(st, func(t types.Type) bool {
			sl, ok := t.Underlying().(*types.Slice)
			return ok && core.IsModNamed(sl.Elem(), "scheme", "ReferrerConfig")
		}) && structHasField(st, func(t types.Type) bool { return core.IsNamed(t, "sync", "Mutex") })
	}},
	{"internal/reghttp", "clientHost", func(p *core.Prog, n *types.Named, st *types.Struct) bool {
		return structHasField(st, func(t types.Type) bool { return core.IsModNamed(t, "config", "Host") }) &&
			structHasField(st, func(t types.Type) bool { return core.IsModNamed(t, "internal/pqueue", "Queue") })
	}},
	{"mod", "dagManifest", func(p *core.Prog, n *types.Named, st *types.Struct) bool {
		self := structHasField(st, func(t types.Type) bool {
			sl, ok := t.Underlying().(*types.Slice)
			return ok && core.NamedOf(sl.Elem()) == n
		})
		return self && structHasField(st, func(t types.Type) bool { return core.IsModNamed(t, "types/manifest", "Manifest") })
	}},
	{"types/platform", "compare", func(p *core.Prog, n *types.Named, st *types.Struct) bool {
		nc := p.Func("types/platform", "NewCompare")
		return nc != nil && nc.Signature.Results().Len() == 1 && core.NamedOf(nc.Signature.Results().At(0).Type()) == n
	}},
	{"cmd/regsync", "rootOpts", func(p *core.Prog, n *types.Named, st *types.Struct) bool {
		return structHasField(st, func(t types.Type) bool { return core.IsModNamed(t, ".", "RegClient") }) &&
			structHasField(st, func(t types.Type) bool { return core.IsModNamed(t, "cmd/regsync", "Config") })
	}},
	{"cmd/regbot", "rootOpts", func(p *core.Prog, n *types.Named, st *types.Struct) bool {
		return structHasField(st, func(t types.Type) bool { return core.IsModNamed(t, ".", "RegClient") }) &&
			structHasField(st, func(t types.Type) bool { return core.IsModNamed(t, "cmd/regbot", "Config") })
	}},
}

// installTypeRoles fills core.TypeAlias for the types of the table that no longer exist by name.
func installTypeRoles(p *core.Prog) {
	for k := range core.TypeAlias {
		delete(core.TypeAlias, k)
	}
	for _, tr := range typeRoleTable {
		pkg := p.Pkg(tr.rel)
		if pkg == nil || pkg.Types.Scope().Lookup(tr.name) != nil {
			continue
		}
		var found []*types.Named
		for _, nm := range pkg.Types.Scope().Names() {
			tn, ok := pkg.Types.Scope().Lookup(nm).(*types.TypeName)
			if !ok || tn.IsAlias() {
				continue
			}
			n, ok := tn.Type().(*types.Named)
			if !ok {
				continue
			}
			st, ok := n.Underlying().(*types.Struct)
			if !ok {
				continue
			}
			if tr.role(p, n, st) {
				found = append(found, n)
			}
		}
		if len(found) == 1 {
			core.TypeAlias[pkg.Types.Path()+"."+found[0].Obj().Name()] = tr.name
		}
	}
}

// fieldRoles: unexported fields the rules name. A field that no longer exists by name is found by its
// type (when that is unique in the struct) or by what a method does with it.
type fieldRole struct {
	rel, typ, name string
	role           func(p *core.Prog, n *types.Named, f *types.Var, idx int) bool
}

func uniqueFieldOfType(pred func(t types.Type) bool) func(p *core.Prog, n *types.Named, f *types.Var, idx int) bool {
	return func(p *core.Prog, n *types.Named, f *types.Var, idx int) bool {
		st := n.Underlying().(*types.Struct)
		cnt := 0
		for i := 0; i < st.NumFields(); i++ {
			if pred(st.Field(i).Type()) {
				cnt++
			}
		}
		return cnt == 1 && pred(f.Type())
	}
}

func isBasicKind(k types.BasicKind) func(types.Type) bool {
	return func(t types.Type) bool {
		b, ok := t.(*types.Basic)
		return ok && b.Kind() == k
	}
}

var fieldRoleTable = []fieldRole{
	{"types/blob", "BReader", "readBytes", uniqueFieldOfType(isBasicKind(types.Int64))},
	{"types/blob", "BReader", "reader", func(p *core.Prog, n *types.Named, f *types.Var, idx int) bool {
		// the stream Read reads from
		read := p.MethodOf(n, "Read")
		found := false
		if read != nil {
			core.Calls(read, func(c ssa.CallInstruction) {
				if !isInvoke(c, "Read") {
					return
				}
				if ld, ok := c.Common().Value.(*ssa.UnOp); ok {
					if fa, ok := ld.X.(*ssa.FieldAddr); ok && fa.Field == idx && core.NamedOf(fa.X.Type()) == n {
						found = true
					}
				}
			})
		}
		return found
	}},
	{"types/manifest", "common", "rawBody", uniqueFieldOfType(func(t types.Type) bool {
		sl, ok := t.Underlying().(*types.Slice)
		return ok && isBasicKind(types.Byte)(sl.Elem()) || ok && isBasicKind(types.Uint8)(sl.Elem())
	})},
	{".", "tarReadData", "tr", uniqueFieldOfType(func(t types.Type) bool { return core.IsNamed(t, "archive/tar", "Reader") })},
	{".", "tarReadData", "handleAdded", func(p *core.Prog, n *types.Named, f *types.Var, idx int) bool {
		// the flag that asks for another pass: a bool field stored true next to a store into the handler table
		if !isBasicKind(types.Bool)(f.Type()) {
			return false
		}
		st := n.Underlying().(*types.Struct)
		cnt := 0
		for i := 0; i < st.NumFields(); i++ {
			if isBasicKind(types.Bool)(st.Field(i).Type()) && !strings.Contains(strings.ToLower(st.Field(i).Name()), "found") {
				cnt++
			}
		}
		return cnt == 1 && !strings.Contains(strings.ToLower(f.Name()), "found")
	}},
	{".", "tarReadData", "handlers", uniqueFieldOfType(func(t types.Type) bool {
		m, ok := t.Underlying().(*types.Map)
		if !ok {
			return false
		}
		_, isFn := m.Elem().Underlying().(*types.Signature)
		return isFn
	})},
	{".", "RegClient", "schemes", uniqueFieldOfType(func(t types.Type) bool {
		m, ok := t.Underlying().(*types.Map)
		return ok && core.IsModNamed(m.Elem(), "scheme", "API")
	})},
	{".", "imageOpt", "forceRecursive", func(p *core.Prog, n *types.Named, f *types.Var, idx int) bool {
		// the field the option ImageWithForceRecursive sets
		opt := p.Func(".", "ImageWithForceRecursive")
		found := false
		if opt != nil {
			for _, g := range core.WithAnon(opt) {
				for _, fs := range fieldStores([]*ssa.Function{g}, func(nn *types.Named, _ string) bool { return nn == n }) {
					if fs.Addr.Field == idx {
						found = true
					}
				}
			}
		}
		return found
	}},
	{"internal/reghttp", "Resp", "readMax", func(p *core.Prog, n *types.Named, f *types.Var, idx int) bool {
		// the expected length: the int64 field that the request's ExpectLen is stored into
		if !isBasicKind(types.Int64)(f.Type()) {
			return false
		}
		found := false
		for _, fs := range fieldStores(pkgFuncs(p, "internal/reghttp"), func(nn *types.Named, _ string) bool { return nn == n }) {
			if fs.Addr.Field != idx {
				continue
			}
			for _, o := range core.Origins(fs.Store.Val, core.SliceOpts{}) {
				if o.Kind == core.OField && o.Field == "ExpectLen" {
					found = true
				}
			}
		}
		return found
	}},
}

// installFieldRoles fills core.FieldAlias for the fields of the table that no longer exist by name.
func installFieldRoles(p *core.Prog) {
	for k := range core.FieldAlias {
		delete(core.FieldAlias, k)
	}
	for _, fr := range fieldRoleTable {
		n := p.Named(fr.rel, fr.typ)
		if n == nil {
			continue
		}
		st, ok := n.Underlying().(*types.Struct)
		if !ok {
			continue
		}
		exists := false
		for i := 0; i < st.NumFields(); i++ {
			if st.Field(i).Name() == fr.name {
				exists = true
			}
		}
		if exists {
			continue
		}
		var found []*types.Var
		for i := 0; i < st.NumFields(); i++ {
			// a field that another entry owns by name keeps that identity
			owned := false
			for _, o := range fieldRoleTable {
				if o.rel == fr.rel && o.typ == fr.typ && o.name == st.Field(i).Name() {
					owned = true
				}
			}
			if !owned && fr.role(p, n, st.Field(i), i) {
				found = append(found, st.Field(i))
			}
		}
		if len(found) == 1 {
			core.FieldAlias[n.Obj().Pkg().Path()+"."+fr.typ+"."+found[0].Name()] = fr.name
		}
	}
}

// installRoles makes p resolve renamed anchors by role and records their canonical names.
func installRoles(p *core.Prog) {
	if roleProg == p {
		return
	}
	installTypeRoles(p)
	installFieldRoles(p)
	roleProg, roleAlias = p, map[*ssa.Function]string{}
	resolving := map[string]bool{}
	cache := map[string]*ssa.Function{}
	p.Resolve = func(rel, typ, name string) *ssa.Function {
		key := rel + "|" + typ + "|" + name
		if f, ok := cache[key]; ok {
			return f
		}
		if resolving[key] {
			return nil
		}
		resolving[key] = true
		defer delete(resolving, key)
		var found []*ssa.Function
		for _, e := range roleTable {
			if e.rel != rel || e.typ != typ || e.name != name {
				continue
			}
			for _, f := range pkgFuncs(p, rel) {
				if f.Parent() != nil || f.Synthetic != "" {
					continue
				}
				rn := recvNamed(f)
				if (typ == "") != (rn == nil) || (rn != nil && core.TypeCanon(rn) != typ) {
					continue
				}
				// a function that another anchor already owns by name keeps that identity
				if owned(e, f) {
					continue
				}
				if e.role(p, f) {
					found = append(found, f)
				}
			}
		}
		var f *ssa.Function
		if len(found) == 1 {
			f = found[0]
			roleAlias[f] = name
		}
		cache[key] = f
		return f
	}
	// resolve every entry now so that canon() knows the aliases before any rule compares names
	for _, e := range roleTable {
		if e.typ == "" {
			p.Func(e.rel, e.name)
		} else {
			p.Method(e.rel, e.typ, e.name)
		}
	}
	// readers of the layout index may come as a locking wrapper plus a worker
	roleSet(p, ocidirRel, "OCIDir", "readIndex")
}

// roleSet returns the anchor (by name or by role) together with every other function of its package
// and receiver that satisfies the anchor's role — a locking wrapper and the worker it was split into,
// two variants of one reader. The siblings are known to canon() by the anchor's name.
func roleSet(p *core.Prog, rel, typ, name string) map[*ssa.Function]bool {
	out := map[*ssa.Function]bool{}
	var f *ssa.Function
	if typ == "" {
		f = p.Func(rel, name)
	} else {
		f = p.Method(rel, typ, name)
	}
	if f != nil {
		out[f] = true
	}
	for _, e := range roleTable {
		if e.rel != rel || e.typ != typ || e.name != name {
			continue
		}
		for _, g := range pkgFuncs(p, rel) {
			if g.Parent() != nil || g.Synthetic != "" || out[g] {
				continue
			}
			rn := recvNamed(g)
			if (typ == "") != (rn == nil) || (rn != nil && core.TypeCanon(rn) != typ) || owned(e, g) {
				continue
			}
			if e.role(p, g) {
				out[g] = true
				if _, has := roleAlias[g]; !has && g.Name() != name {
					roleAlias[g] = name
				}
			}
		}
	}
	return out
}

// owned: f carries the name of another entry of the table for the same package and receiver.
func owned(e roleEntry, f *ssa.Function) bool {
	for _, o := range roleTable {
		if o.rel == e.rel && o.typ == e.typ && o.name != e.name && o.name == f.Name() {
			return true
		}
	}
	return false
}

// canon returns the name the rules know fn by (its own name unless it was found by role).
func canon(fn *ssa.Function) string {
	if fn == nil {
		return ""
	}
	if n, ok := roleAlias[fn]; ok {
		return n
	}
	if o := fn.Origin(); o != nil {
		if n, ok := roleAlias[o]; ok {
			return n
		}
	}
	return fn.Name()
}

// canonObj is canon for a types.Func.
func canonObj(f *types.Func) string {
	if f == nil {
		return ""
	}
	if roleProg != nil {
		if fn := roleProg.SSA.FuncValue(f.Origin()); fn != nil {
			return canon(fn)
		}
	}
	return f.Name()
}

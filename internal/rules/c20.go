package rules

import (
	"fmt"
	"go/token"
	"go/types"
	"strings"

	"golang.org/x/tools/go/ssa"

	"verif/internal/core"
)

func init() {
	register(&Spec{
		ID: "C20",
		Decides: "every file-system call of scheme/ocidir and pkg/archive takes a path whose parts are the user's base directory, constants, names returned by directory listings or temp files, parts of a digest that was validated (or computed) on every path to the call, or a rooted-clean name (Clean(\"/\"+x) and its suffix/components); " +
			"in the CLIs, the scripting sandbox, mod and the client library no value taken from remote or archive content (annotation values, tar header names and link targets, reference tags/digests, descriptor digests) reaches a file-system path without passing that sanitiser or validation; archive extraction materialises no links; tar entry names of export/import are built only from validated digests.",
		NotCovered: "links already present in the output directory (excluded by the property), case-insensitive or otherwise unusual file systems, docker-plugin; a store to a validated digest field between its validation and its use.",
		Run:        runC20,
	})
}

// pathSinks are the os functions that take a path (write side and read side).
var pathSinks = map[string][]int{
	"Create": {0}, "CreateTemp": {0}, "Mkdir": {0}, "MkdirAll": {0}, "MkdirTemp": {0}, "OpenFile": {0}, "WriteFile": {0},
	"Rename": {0, 1}, "Remove": {0}, "RemoveAll": {0}, "Symlink": {0, 1}, "Link": {0, 1}, "Chmod": {0}, "Chown": {0}, "Chtimes": {0}, "Truncate": {0},
	"Open": {0}, "ReadFile": {0}, "Stat": {0}, "Lstat": {0}, "ReadDir": {0},
}

// accessPath renders a value as "base.field.field" so that two loads of the same variable's field
// compare equal.
func accessPath(v ssa.Value) string {
	for d := 0; d < 16 && v != nil; d++ {
		switch x := v.(type) {
		case *ssa.UnOp:
			if x.Op != token.MUL {
				return ""
			}
			switch a := x.X.(type) {
			case *ssa.FieldAddr:
				b := accessPath(a.X)
				if b == "" {
					return ""
				}
				return b + "." + core.FieldName(a.X.Type(), a.Field)
			case *ssa.Alloc:
				return "var:" + a.Comment
			case *ssa.FreeVar:
				return "var:" + a.Name()
			case *ssa.IndexAddr:
				b := accessPath(a.X)
				if b == "" {
					return ""
				}
				return b + "[]"
			}
			return ""
		case *ssa.Alloc:
			return "var:" + x.Comment
		case *ssa.FreeVar:
			return "var:" + x.Name()
		case *ssa.Parameter:
			return "var:" + x.Name()
		case *ssa.Field:
			b := accessPath(x.X)
			if b == "" {
				return ""
			}
			return b + "." + core.FieldName(x.X.Type(), x.Field)
		case *ssa.FieldAddr:
			b := accessPath(x.X)
			if b == "" {
				return ""
			}
			return b + "." + core.FieldName(x.X.Type(), x.Field)
		case *ssa.Convert:
			v = x.X
		case *ssa.ChangeType:
			v = x.X
		case *ssa.MakeInterface:
			v = x.X
		case *ssa.Call:
			cal := core.Callee(x)
			if cal != nil && (cal.Name() == "GetDescriptor") {
				return "call:GetDescriptor(" + accessPath(core.CallArg(x, 0)) + ")"
			}
			return fmt.Sprintf("call@%d", x.Pos())
		case *ssa.Extract:
			return accessPath(x.Tuple) + fmt.Sprintf("#%d", x.Index)
		case *ssa.Phi:
			return fmt.Sprintf("phi@%s", x.Name())
		default:
			return ""
		}
	}
	return ""
}

func isDigestType(t types.Type) bool {
	return core.IsNamed(t, "github.com/opencontainers/go-digest", "Digest")
}

// digestValidatedAt: every path from the entry of at's function to `at` passes the nil-error edge of
// a Validate() call on a digest with the same access path, or a store to that access path of a
// digester's result. For function literals the check is repeated at the literal's creation site.
func digestValidatedAt(dig ssa.Value, at ssa.Instruction) (bool, string) {
	ap := accessPath(dig)
	if ap == "" {
		return false, "digest expression not recognised"
	}
	// trusted producers
	for _, oc := range originCalls(dig) {
		if cal := core.Callee(oc); cal != nil {
			if (cal.Name() == "Digest" && core.IsNamed(core.CallArg(oc, 0).Type(), "github.com/opencontainers/go-digest", "Digester")) ||
				core.IsFunc(cal, "github.com/opencontainers/go-digest", "FromBytes") || core.IsFunc(cal, "github.com/opencontainers/go-digest", "FromString") ||
				(cal.Name() == "FromBytes" || cal.Name() == "FromString") {
				return true, "computed digest"
			}
		}
	}
	// the digest lives in a path helper that was read through from its call site: it has to be validated
	// on every path to the helper's own (successful) returns
	if h := valueFunc(dig); h != nil && h != at.Parent() && !isAncestor(h, at.Parent()) {
		all, n := true, 0
		for _, ret := range core.Returns(h) {
			if failureReturn(h, ret) {
				continue
			}
			n++
			if !validatedIn(h, ap, ret) {
				all = false
			}
		}
		if all && n > 0 {
			return true, "Validate() nil edge on every path through " + h.Name()
		}
	}
	fn := at.Parent()
	cur := at
	for fn != nil {
		ok := validatedIn(fn, ap, cur)
		if ok {
			return true, "Validate() nil edge on every path (" + ap + ")"
		}
		// try the creation site of the literal in the parent
		par := fn.Parent()
		if par == nil {
			break
		}
		var site ssa.Instruction
		for _, b := range par.Blocks {
			for _, in := range b.Instrs {
				if mc, ok := in.(*ssa.MakeClosure); ok && mc.Fn == fn {
					site = in
				}
			}
		}
		if site == nil {
			break
		}
		fn, cur = par, site
	}
	// a digest parameter of an unexported helper: validated at every call site instead
	if par := paramOfValue(dig); par != nil && digValDepth < 3 {
		h := par.Parent()
		if h != nil && h.Object() != nil && !h.Object().Exported() && digValProg != nil {
			idx := -1
			for i, q := range h.Params {
				if q == par {
					idx = i
				}
			}
			sites := digValProg.Callers(h)
			if idx >= 0 && len(sites) > 0 {
				all := true
				for _, st := range sites {
					c, ok := st.Site.(ssa.CallInstruction)
					if !ok || core.CalleeFn(c) != h {
						all = false
						break
					}
					digValDepth++
					okc, _ := digestValidatedAt(core.CallArg(c, idx), st.Site)
					digValDepth--
					if !okc {
						all = false
						break
					}
				}
				if all {
					return true, "validated at every call site of " + h.Name()
				}
			}
		}
	}
	return false, "no Validate() on " + strings.TrimPrefix(ap, "var:") + " dominates the use on every path"
}

// digValProg gives digestValidatedAt access to the call sites of helpers (set by runC20).
var (
	digValProg  *core.Prog
	digValDepth int
)

// paramOfValue: v is a parameter, or the load of the cell a parameter was spilled into.
func paramOfValue(v ssa.Value) *ssa.Parameter {
	for i := 0; i < 4 && v != nil; i++ {
		switch x := v.(type) {
		case *ssa.Parameter:
			return x
		case *ssa.Convert:
			v = x.X
		case *ssa.ChangeType:
			v = x.X
		case *ssa.UnOp:
			if x.Op != token.MUL {
				return nil
			}
			al, ok := x.X.(*ssa.Alloc)
			if !ok {
				return nil
			}
			sts := core.StoresToCell(al)
			if len(sts) != 1 {
				return nil
			}
			v = sts[0].Val
		default:
			return nil
		}
	}
	return nil
}

// helperValidates: c calls an unexported helper of the same package that hands back a descriptor (or
// digest) next to an error, every success return of the helper returns a value whose digest passed
// Validate() inside the helper, and ap is the digest of that result at the call site. The error of
// such a call then stands for the error of the Validate().
var helperValDepth int

func helperValidates(c *ssa.Call, ap string) bool {
	h := core.CalleeFn(c)
	if h == nil || h == c.Parent() || len(h.Blocks) == 0 || h.Object() == nil || h.Object().Exported() || core.FuncPkg(h) != core.FuncPkg(c.Parent()) || helperValDepth > 1 {
		return false
	}
	res := h.Signature.Results()
	if res.Len() < 2 || !types.Identical(res.At(res.Len()-1).Type(), types.Universe.Lookup("error").Type()) {
		return false
	}
	for k := 0; k < res.Len()-1; k++ {
		isDesc := core.IsModNamed(res.At(k).Type(), "types/descriptor", "Descriptor")
		if !isDesc && !isDigestType(res.At(k).Type()) {
			continue
		}
		// where result k lives at the call site
		match := false
		for _, ref := range *c.Referrers() {
			ex, ok := ref.(*ssa.Extract)
			if !ok || ex.Index != k {
				continue
			}
			paths := []string{accessPath(ex)}
			for _, r2 := range *ex.Referrers() {
				if st, ok := r2.(*ssa.Store); ok && st.Val == ssa.Value(ex) {
					paths = append(paths, accessPath(st.Addr))
				}
			}
			for _, pth := range paths {
				if pth == "" {
					continue
				}
				if isDesc {
					pth += ".Digest"
				}
				if pth == ap {
					match = true
				}
			}
		}
		if !match {
			continue
		}
		// every success return of the helper returns a validated digest in result k
		all, n := true, 0
		for _, ret := range core.Returns(h) {
			if !core.IsNilConst(core.ReturnOperand(ret, res.Len()-1)) {
				continue
			}
			n++
			rp := accessPath(core.ReturnOperand(ret, k))
			if rp == "" {
				all = false
				break
			}
			if isDesc {
				rp += ".Digest"
			}
			helperValDepth++
			ok := validatedIn(h, rp, ret)
			helperValDepth--
			if !ok {
				all = false
				break
			}
		}
		if all && n > 0 {
			return true
		}
	}
	return false
}

func validatedIn(fn *ssa.Function, ap string, at ssa.Instruction) bool {
	isValidate := func(c *ssa.Call) bool {
		cal := core.Callee(c)
		if cal == nil {
			return false
		}
		if cal.Name() != "Validate" {
			return helperValidates(c, ap)
		}
		recv := core.CallArg(c, 0)
		return recv != nil && isDigestType(recv.Type()) && accessPath(recv) == ap
	}
	stopEdge := func(from, to *ssa.BasicBlock) bool {
		ifi, ok := core.LastInstr(from).(*ssa.If)
		if !ok {
			return false
		}
		cnd, pol := core.StripNot(ifi.Cond, true)
		x, neq, isNil := errCmpNil(cnd)
		if !isNil {
			return false
		}
		match := false
		for _, oc := range originCalls(x) {
			if isValidate(oc) {
				match = true
			}
		}
		if !match {
			return false
		}
		nilEdge := from.Succs[0]
		if neq == pol {
			nilEdge = from.Succs[1]
		}
		return to == nilEdge
	}
	stop := func(in ssa.Instruction) bool {
		st, ok := in.(*ssa.Store)
		if !ok || accessPath(st.Addr) != ap {
			return false
		}
		for _, oc := range originCalls(st.Val) {
			if cal := core.Callee(oc); cal != nil && cal.Name() == "Digest" {
				return true
			}
		}
		return false
	}
	seen := core.Reach{Stop: stop, StopEdge: stopEdge}.FromEntry(fn)
	return !seen[at]
}

// leafClass classifies one leaf of a path.
type leafClass struct {
	ok      bool   // acceptable in a strict (whitelist) package
	tainted bool   // derived from remote/archive content without sanitiser
	what    string // description
}

type pathCtx struct {
	p      *core.Prog
	at     ssa.Instruction
	strict bool
	depth  int
}

// classifyAlgo classifies a digest.Algorithm value: it is fine when it comes from a validated digest
// or from DigestAlgo(); when it is a parameter of an unexported helper, at every call site of the helper.
func (pc pathCtx) classifyAlgo(recv ssa.Value, depth int) leafClass {
	for _, oc := range originCalls(recv) {
		if cc := core.Callee(oc); cc != nil {
			if cc.Name() == "DigestAlgo" {
				return leafClass{ok: true, what: "algorithm of a validated or default digest"}
			}
			if cc.Name() == "Algorithm" {
				return pc.classifyCall(oc, -1)
			}
		}
	}
	if par := paramOfValue(recv); par != nil && depth < 3 && digValProg != nil {
		h := par.Parent()
		if h != nil && h.Object() != nil && !h.Object().Exported() {
			idx := -1
			for i, q := range h.Params {
				if q == par {
					idx = i
				}
			}
			sites := digValProg.Callers(h)
			if idx >= 0 && len(sites) > 0 {
				for _, st := range sites {
					c, ok := st.Site.(ssa.CallInstruction)
					if !ok || core.CalleeFn(c) != h {
						return leafClass{what: "digest algorithm of unknown origin"}
					}
					k := pathCtx{p: pc.p, at: st.Site, strict: pc.strict, depth: pc.depth}.classifyAlgo(core.CallArg(c, idx), depth+1)
					if !k.ok {
						return k
					}
				}
				return leafClass{ok: true, what: "algorithm checked at every call site of " + h.Name()}
			}
		}
	}
	return leafClass{what: "digest algorithm of unknown origin"}
}

func isCleanCall(c *ssa.Call) bool {
	cal := core.Callee(c)
	return cal != nil && (core.IsFunc(cal, "path", "Clean") || core.IsFunc(cal, "path/filepath", "Clean"))
}

// rootedClean: Clean("/" + x) or Clean(Join("/", x)).
func rootedClean(c *ssa.Call) bool {
	if !isCleanCall(c) {
		return false
	}
	arg := c.Call.Args[0]
	if bo, ok := arg.(*ssa.BinOp); ok && bo.Op == token.ADD {
		// leftmost operand of the concatenation chain
		l := ssa.Value(bo)
		for {
			b2, ok := l.(*ssa.BinOp)
			if !ok || b2.Op != token.ADD {
				break
			}
			l = b2.X
		}
		if s, ok := core.ConstString(l); ok && strings.HasPrefix(s, "/") {
			return true
		}
	}
	if jc, ok := arg.(*ssa.Call); ok {
		if cal := core.Callee(jc); cal != nil && (core.IsFunc(cal, "path", "Join") || core.IsFunc(cal, "path/filepath", "Join")) {
			el := variadicElems(jc.Call.Args[0])
			if len(el) > 0 {
				if s, ok := core.ConstString(el[0]); ok && strings.HasPrefix(s, "/") {
					return true
				}
			}
		}
	}
	return false
}

var safeStringFuncs = map[string]bool{"TrimSuffix": true, "TrimPrefix": true, "TrimRight": true, "TrimLeft": true, "TrimSpace": true, "ToLower": true, "ToUpper": true, "Trim": true}

// classify decides whether value v is acceptable as part of a path.
func (pc pathCtx) classify(v ssa.Value) leafClass {
	if pc.depth > 24 || v == nil {
		return leafClass{what: "expression too deep"}
	}
	pc.depth++
	switch x := v.(type) {
	case *ssa.Const:
		if s, ok := core.ConstString(x); ok && strings.Contains(s, "..") {
			return leafClass{what: "constant containing .."}
		}
		return leafClass{ok: true, what: "constant"}
	case *ssa.Parameter:
		return leafClass{ok: true, what: "parameter " + x.Name() + " (caller-designated)"}
	case *ssa.FreeVar:
		if b := core.FreeVarBinding(x); b != nil {
			return pc.classify(b)
		}
		return leafClass{ok: true, what: "captured variable " + x.Name()}
	case *ssa.Alloc:
		return pc.classifyCell(x, nil)
	case *ssa.MakeInterface:
		return pc.classify(x.X)
	case *ssa.ChangeType:
		return pc.classify(x.X)
	case *ssa.Convert:
		// string(d.Digest) or digest.Digest(r.Digest): conversion keeps the content
		return pc.classify(x.X)
	case *ssa.Phi:
		out := leafClass{ok: true, what: "phi"}
		for _, e := range x.Edges {
			c := pc.classify(e)
			if !c.ok {
				out.ok = false
				out.what = c.what
			}
			if c.tainted {
				out.tainted = true
				out.what = c.what
			}
		}
		return out
	case *ssa.BinOp:
		if x.Op == token.ADD && isStringType(x.Type()) {
			a, b := pc.classify(x.X), pc.classify(x.Y)
			if a.tainted || b.tainted {
				w := a.what
				if b.tainted {
					w = b.what
				}
				return leafClass{tainted: true, what: w}
			}
			if !a.ok {
				return a
			}
			if !b.ok {
				return b
			}
			return leafClass{ok: true, what: "concatenation"}
		}
	case *ssa.Slice:
		c := pc.classify(x.X)
		c.what = "slice of " + c.what
		return c
	case *ssa.Index:
		return pc.classify(x.X)
	case *ssa.IndexAddr:
		return pc.classify(x.X)
	case *ssa.Lookup:
		if isAnnotationsMap(x.X) {
			return leafClass{tainted: true, what: "annotation value " + x.Index.String()}
		}
		return leafClass{what: "map lookup"}
	case *ssa.Extract:
		if c, ok := x.Tuple.(*ssa.Call); ok {
			return pc.classifyCall(c, x.Index)
		}
		if l, ok := x.Tuple.(*ssa.Lookup); ok {
			return pc.classify(l)
		}
	case *ssa.Call:
		return pc.classifyCall(x, -1)
	case *ssa.Field:
		return pc.classifyField(x.X.Type(), core.FieldName(x.X.Type(), x.Field), v)
	case *ssa.UnOp:
		if x.Op == token.MUL {
			switch a := x.X.(type) {
			case *ssa.FieldAddr:
				return pc.classifyField(a.X.Type(), core.FieldName(a.X.Type(), a.Field), v)
			case *ssa.Alloc:
				return pc.classifyCell(a, x)
			case *ssa.FreeVar:
				if b := core.FreeVarBinding(a); b != nil {
					if al, ok := b.(*ssa.Alloc); ok {
						return pc.classifyCell(al, nil)
					}
				}
				return leafClass{ok: true, what: "captured variable " + a.Name()}
			case *ssa.IndexAddr:
				return pc.classify(a.X)
			case *ssa.Global:
				return leafClass{ok: true, what: "package variable " + a.Name()}
			}
		}
	}
	return leafClass{what: "unrecognised expression " + v.String()}
}

func (pc pathCtx) classifyCell(a *ssa.Alloc, load *ssa.UnOp) leafClass {
	sts := core.StoresToCell(a)
	if len(sts) == 0 {
		return leafClass{ok: true, what: "local " + a.Comment}
	}
	out := leafClass{ok: true, what: "local " + a.Comment}
	for _, st := range sts {
		c := pc.classify(st.Val)
		if c.tainted {
			return c
		}
		if !c.ok {
			out = c
		}
	}
	return out
}

func isAnnotationsMap(v ssa.Value) bool {
	switch x := v.(type) {
	case *ssa.UnOp:
		if fa, ok := x.X.(*ssa.FieldAddr); ok {
			return core.FieldName(fa.X.Type(), fa.Field) == "Annotations"
		}
	case *ssa.Field:
		return core.FieldName(x.X.Type(), x.Field) == "Annotations"
	}
	return false
}

func (pc pathCtx) classifyField(owner types.Type, field string, v ssa.Value) leafClass {
	n := core.NamedOf(owner)
	name := ""
	pkg := ""
	if n != nil && n.Obj().Pkg() != nil {
		name, pkg = n.Obj().Name(), n.Obj().Pkg().Path()
	}
	switch {
	case pkg == modPath("types/ref") && name == "Ref":
		if field == "Path" {
			return leafClass{ok: true, what: "layout directory of the reference"}
		}
		return leafClass{tainted: true, what: "reference field " + field + " used as a path element"}
	case pkg == "archive/tar" && name == "Header":
		return leafClass{tainted: true, what: "tar header field " + field}
	case pkg == modPath("types/descriptor") && name == "Descriptor":
		return leafClass{tainted: true, what: "descriptor field " + field + " used as a path element"}
	}
	if isDigestType(v.Type()) {
		return leafClass{tainted: true, what: "digest value used as a path element without going through Validate()+Encoded()"}
	}
	// option structs, configuration: caller-designated
	return leafClass{ok: true, what: "field " + name + "." + field}
}

func (pc pathCtx) classifyCall(c *ssa.Call, res int) leafClass {
	cal := core.Callee(c)
	if cal == nil {
		return leafClass{what: "result of a dynamic call"}
	}
	pkg := ""
	if cal.Pkg() != nil {
		pkg = cal.Pkg().Path()
	}
	switch {
	case isCleanCall(c):
		if rootedClean(c) {
			return leafClass{ok: true, what: "rooted-clean name"}
		}
		in := pc.classify(c.Call.Args[0])
		if in.tainted {
			return leafClass{tainted: true, what: "Clean() of " + in.what + " without a leading \"/\" keeps leading .. segments"}
		}
		return in
	case (pkg == "path" || pkg == "path/filepath") && (cal.Name() == "Join"):
		out := leafClass{ok: true, what: "join"}
		for _, e := range variadicElems(c.Call.Args[0]) {
			k := pc.classify(e)
			if k.tainted {
				return k
			}
			if !k.ok {
				out = k
			}
		}
		return out
	case (pkg == "path" || pkg == "path/filepath") && (cal.Name() == "Dir" || cal.Name() == "Base" || cal.Name() == "Ext"):
		return pc.classify(c.Call.Args[0])
	case pkg == "strings" && cal.Name() == "Split":
		if s, ok := core.ConstString(c.Call.Args[1]); ok && s == "/" {
			k := pc.classify(c.Call.Args[0])
			k.what = "components of " + k.what
			return k
		}
	case pkg == "strings" && safeStringFuncs[cal.Name()]:
		return pc.classify(c.Call.Args[0])
	case pkg == "fmt" && cal.Name() == "Sprintf":
		out := leafClass{ok: true, what: "formatted"}
		for _, e := range variadicElems(c.Call.Args[len(c.Call.Args)-1]) {
			k := pc.classify(e)
			if k.tainted {
				return k
			}
			if !k.ok {
				out = k
			}
		}
		return out
	case cal.Name() == "Name" && (core.IsNamed(core.CallArg(c, 0).Type(), "io/fs", "DirEntry") || core.IsNamed(core.CallArg(c, 0).Type(), "io/fs", "FileInfo") || core.IsNamed(core.CallArg(c, 0).Type(), "os", "File")):
		return leafClass{ok: true, what: "name from a directory listing / temp file"}
	case pkg == "github.com/opencontainers/go-digest" && (cal.Name() == "Encoded" || cal.Name() == "Hex" || cal.Name() == "Algorithm" || cal.Name() == "String"):
		recv := core.CallArg(c, 0)
		if core.IsNamed(recv.Type(), "github.com/opencontainers/go-digest", "Algorithm") {
			// Algorithm.String(): look at the digest the algorithm came from
			return pc.classifyAlgo(recv, 0)
		}
		ok, why := digestValidatedAt(recv, pc.at)
		if ok {
			return leafClass{ok: true, what: "part of a validated digest: " + why}
		}
		return leafClass{tainted: true, what: "digest part (" + cal.Name() + ") used in a path: " + why}
	case cal.Pkg() != nil && cal.Pkg().Path() == modPath(".") && canonObj(cal) == "tarOCILayoutDescPath":
		return leafClass{ok: true, what: "layout path of a descriptor (callers checked by C20.R4)"}
	case core.IsModFunc(cal, "types/referrer", "FallbackTag"):
		return leafClass{tainted: true, what: "fallback tag used as a path element"}
	case func() bool { ok, k := spoolHelper(c.Call.StaticCallee()); return ok && (res == k || res == -1) }():
		return leafClass{ok: true, what: "name of a temp file made by " + cal.Name()}
	case pkg == "os" || pkg == "github.com/spf13/cobra" || pkg == "github.com/yuin/gopher-lua":
		return leafClass{ok: true, what: "value supplied by the local user (" + cal.Name() + ")"}
	}
	return leafClass{what: "result of " + core.ShortFunc(cal)}
}

type sinkSite struct {
	fn   *ssa.Function
	c    ssa.CallInstruction
	name string
	arg  int
}

func fsSinks(p *core.Prog, fns []*ssa.Function) []sinkSite {
	var out []sinkSite
	for _, fn := range fns {
		core.Calls(fn, func(c ssa.CallInstruction) {
			cal := core.Callee(c)
			if cal == nil || cal.Pkg() == nil || cal.Pkg().Path() != "os" || cal.Type().(*types.Signature).Recv() != nil {
				return
			}
			for _, a := range pathSinks[cal.Name()] {
				out = append(out, sinkSite{fn: fn, c: c, name: cal.Name(), arg: a})
			}
		})
	}
	return out
}

func runC20(p *core.Prog, r *core.Report) {
	digValProg = p
	c20Strict(p, r, "C20.R1", ocidirRel, 25, "every file-system path of scheme/ocidir = layout directory ⊕ constants ⊕ listing/temp names ⊕ parts of a digest validated on every path to the call")
	c20Strict(p, r, "C20.R2", "pkg/archive", 3, "every file-system path of pkg/archive = caller's directory ⊕ rooted-clean entry name; links are never materialised")
	c20Links(p, r)
	c20Lenient(p, r)
	c20R4(p, r)
	c20R5(p, r)
}

// c20R5: the directory of a layout reference is what the reference parser accepted. Code that puts a
// path into a Ref itself (a composite literal, a field assignment) bypasses the grammar; when the path
// is built from names a registry sent, a "../" in a name leaves the directory the user chose.
func c20R5(p *core.Prog, r *core.Report) {
	const rule = "C20.R5"
	r.Rule(rule, "only the reference parsers decide a layout directory: the Path field of ref.Ref is stored only inside package types/ref (every ocidir path the schemes see went through the anchored path pattern of the parser)", 1)
	rt := p.Named("types/ref", "Ref")
	if rt == nil {
		r.MissingAnchor(rule, "types/ref.Ref")
		return
	}
	in, lab := 0, map[string]labeler{}
	for _, fs := range fieldStores(p.ModFuncs, func(n *types.Named, f string) bool { return n == rt && f == "Path" }) {
		fname := p.FuncName(fs.Fn)
		if pk := core.FuncPkg(fs.Fn); pk != nil && pk.Path() == modPath("types/ref") {
			in++
			continue
		}
		if lab[fname] == nil {
			lab[fname] = labeler{}
		}
		// copying the path of another reference (a value that is itself a Ref.Path) keeps the guarantee
		if dependsOnlyOnRefPath(fs.Store.Val) {
			r.Held(rule, fname, lab[fname].next("Ref.Path copied"), p.Pos(fs.Store.Pos()), "the path of another parsed reference")
			continue
		}
		r.Violated(rule, fname, lab[fname].next("Ref.Path stored"), p.Pos(fs.Store.Pos()), "a layout directory is put into a reference without going through the reference parser: a name taken from a listing or an archive (\"../x\") is joined onto the directory the user chose and the layout is written outside it")
	}
	r.Check(in > 0, rule, "types/ref", "parsers store Path", "-", fmt.Sprintf("%d store(s) of Ref.Path inside types/ref", in))
}

// dependsOnlyOnRefPath: every origin of v is a load of the Path field of a ref.Ref.
func dependsOnlyOnRefPath(v ssa.Value) bool {
	os := core.Origins(v, core.SliceOpts{})
	if len(os) == 0 {
		return false
	}
	for _, o := range os {
		if o.Kind != core.OField || o.Field != "Path" {
			return false
		}
	}
	return true
}

func c20Strict(p *core.Prog, r *core.Report, rule, rel string, floor int, text string) {
	r.Rule(rule, text, floor)
	fns := pkgFuncs(p, rel)
	lab := map[string]labeler{}
	for _, s := range fsSinks(p, fns) {
		fname := p.FuncName(s.fn)
		if lab[fname] == nil {
			lab[fname] = labeler{}
		}
		label := lab[fname].next(fmt.Sprintf("os.%s path", s.name))
		arg := core.CallArg(s.c, s.arg)
		pc := pathCtx{p: p, at: s.c.(ssa.Instruction), strict: true}
		bad := ""
		var parts []string
		for _, l := range pathLeaves(arg) {
			// unexported helper parameters: check the callers' arguments one level up
			if par, ok := l.(*ssa.Parameter); ok && s.fn.Object() != nil && !s.fn.Object().Exported() {
				if why := callerArgsOK(p, s.fn, par); why != "" {
					bad = why
				}
				parts = append(parts, "helper parameter "+par.Name())
				continue
			}
			k := pc.classify(l)
			parts = append(parts, k.what)
			if !k.ok || k.tainted {
				bad = k.what
			}
		}
		if bad != "" {
			r.Violated(rule, fname, label, p.Pos(s.c.Pos()), "path element not confined to the layout: "+bad+" (a digest, tag or name taken from untrusted content can escape the directory)")
		} else {
			r.Held(rule, fname, label, p.Pos(s.c.Pos()), strings.Join(parts, " ⊕ "))
		}
	}
}

func callerArgsOK(p *core.Prog, fn *ssa.Function, par *ssa.Parameter) string {
	idx := -1
	for i, q := range fn.Params {
		if q == par {
			idx = i
		}
	}
	if idx < 0 {
		return "parameter not found"
	}
	for _, st := range p.Callers(fn) {
		c, ok := st.Site.(ssa.CallInstruction)
		if !ok || core.CalleeFn(c) != fn {
			continue
		}
		a := c.Common().Args[idx]
		pc := pathCtx{p: p, at: st.Site, strict: true}
		for _, l := range pathLeaves(a) {
			k := pc.classify(l)
			if !k.ok || k.tainted {
				return "caller " + p.FuncName(st.From) + " passes " + k.what
			}
		}
	}
	return ""
}

func c20Links(p *core.Prog, r *core.Report) {
	const rule = "C20.R2"
	n := 0
	for _, s := range fsSinks(p, pkgFuncs(p, "pkg/archive")) {
		if s.name == "Symlink" || s.name == "Link" {
			n++
			if s.arg == 0 {
				r.Violated(rule, p.FuncName(s.fn), "os."+s.name, p.Pos(s.c.Pos()), "archive extraction creates a link: a link entry followed by a file entry below it writes outside the extraction directory (a lexical check of the target does not see links created by earlier entries)")
			}
		}
	}
	if n == 0 {
		r.Held(rule, "pkg/archive", "no links materialised", "-", "no os.Symlink / os.Link in pkg/archive")
	}
}

// c20Lenient: everywhere else only values that are known to come from remote/archive content are
// rejected.
func c20Lenient(p *core.Prog, r *core.Report) {
	const rule = "C20.R3"
	r.Rule(rule, "outside the layout and archive packages no annotation value, tar header field, reference tag/digest or unvalidated digest part reaches a file-system path without Clean(\"/\"+x)", 30)
	skip := map[string]bool{modPath(ocidirRel): true, modPath("pkg/archive"): true, modPath("internal/copyfs"): true}
	var fns []*ssa.Function
	for _, fn := range p.ModFuncs {
		pk := core.FuncPkg(fn)
		if pk == nil || skip[pk.Path()] || fn.Synthetic != "" {
			continue
		}
		fns = append(fns, fn)
	}
	lab := map[string]labeler{}
	check := func(fn *ssa.Function, c ssa.CallInstruction, what string, arg ssa.Value) {
		fname := p.FuncName(fn)
		if lab[fname] == nil {
			lab[fname] = labeler{}
		}
		label := lab[fname].next(what)
		pc := pathCtx{p: p, at: c.(ssa.Instruction)}
		bad := ""
		for _, l := range pathLeaves(arg) {
			k := pc.classify(l)
			if k.tainted {
				bad = k.what
			}
			// a transformation applied on top of a sanitised name is not recognised: look below it
			if !k.ok && !k.tainted {
				if t := pc.taintBelow(l, 0); t != "" {
					bad = "unrecognised transformation of remote content (" + t + "): " + k.what
				}
			}
		}
		if bad != "" {
			r.Violated(rule, fname, label, p.Pos(c.Pos()), "remote or archive content reaches a file-system path: "+bad)
		} else {
			r.Held(rule, fname, label, p.Pos(c.Pos()), "no unsanitised remote content in the path")
		}
	}
	for _, s := range fsSinks(p, fns) {
		check(s.fn, s.c, "os."+s.name+" path", core.CallArg(s.c, s.arg))
	}
	// the extraction directory handed to archive.Extract is a path sink too
	for _, fn := range fns {
		for _, c := range core.CallsTo(fn, func(f *types.Func) bool { return core.IsModFunc(f, "pkg/archive", "Extract") }) {
			check(fn, c, "archive.Extract directory", core.CallArg(c, 1))
		}
	}
}

// taintBelow looks through unrecognised calls/operations for remote content.
func (pc pathCtx) taintBelow(v ssa.Value, d int) string {
	if v == nil || d > 8 {
		return ""
	}
	k := pc.classify(v)
	if k.tainted {
		return k.what
	}
	if k.ok {
		// a sanitised value that is transformed afterwards is no longer known to be clean
		if derivesFromClean(v, 0, map[ssa.Value]bool{}) {
			return "a name that was cleaned with Clean(\"/\"+x) is altered afterwards, which can re-introduce .. segments"
		}
		return ""
	}
	in, ok := v.(ssa.Instruction)
	if !ok {
		return ""
	}
	for _, op := range in.Operands(nil) {
		if op != nil && *op != nil {
			if _, isFn := (*op).(*ssa.Function); isFn {
				continue
			}
			if t := pc.taintBelow(*op, d+1); t != "" {
				return t
			}
		}
	}
	return ""
}

func c20R4(p *core.Prog, r *core.Report) {
	const rule = "C20.R4"
	r.Rule(rule, "tar entry names of export/import are built from digests validated on every path to the call", 3)
	helper := p.Func(".", "tarOCILayoutDescPath")
	if helper == nil {
		r.MissingAnchor(rule, "regclient.tarOCILayoutDescPath")
		return
	}
	lab := map[string]labeler{}
	for _, st := range p.Callers(helper) {
		c, ok := st.Site.(ssa.CallInstruction)
		if !ok || core.CalleeFn(c) != helper {
			continue
		}
		fname := p.FuncName(st.From)
		if lab[fname] == nil {
			lab[fname] = labeler{}
		}
		d := c.Common().Args[0]
		// the digest of the descriptor argument: access path + ".Digest"
		ap := accessPath(d)
		okV := false
		why := "descriptor expression not recognised"
		if ap != "" {
			dap := ap + ".Digest"
			if isDigestType(d.Type()) {
				dap = ap // the helper takes the digest itself
			}
			okV = validatedAP(st.From, dap, st.Site)
			why = "no Validate() on " + strings.TrimPrefix(dap, "var:") + " on every path to the call"
		}
		r.Check(okV, rule, fname, lab[fname].next("descriptor path"), p.Pos(st.Site.Pos()), map[bool]string{true: "digest validated on every path", false: why + ": a digest such as sha256:../../x from a manifest or archive index becomes an entry name outside blobs/"}[okV])
	}
}

func validatedAP(fn *ssa.Function, ap string, at ssa.Instruction) bool {
	cur := at
	for fn != nil {
		if validatedIn(fn, ap, cur) {
			return true
		}
		par := fn.Parent()
		if par == nil {
			return false
		}
		var site ssa.Instruction
		for _, b := range par.Blocks {
			for _, in := range b.Instrs {
				if mc, ok := in.(*ssa.MakeClosure); ok && mc.Fn == fn {
					site = in
				}
			}
		}
		if site == nil {
			return false
		}
		fn, cur = par, site
	}
	return false
}

// derivesFromClean: v is (built from) the result of a rooted Clean call.
func derivesFromClean(v ssa.Value, d int, seen map[ssa.Value]bool) bool {
	if v == nil || d > 12 || seen[v] {
		return false
	}
	seen[v] = true
	switch x := v.(type) {
	case *ssa.Call:
		if rootedClean(x) {
			return true
		}
		return false
	case *ssa.Phi:
		for _, e := range x.Edges {
			if derivesFromClean(e, d+1, seen) {
				return true
			}
		}
	case *ssa.BinOp:
		return derivesFromClean(x.X, d+1, seen) || derivesFromClean(x.Y, d+1, seen)
	case *ssa.Slice:
		return derivesFromClean(x.X, d+1, seen)
	case *ssa.MakeInterface:
		return derivesFromClean(x.X, d+1, seen)
	case *ssa.UnOp:
		if al, ok := x.X.(*ssa.Alloc); ok {
			for _, st := range core.StoresToCell(al) {
				if derivesFromClean(st.Val, d+1, seen) {
					return true
				}
			}
		}
	}
	return false
}

// valueFunc: the function a value is defined in (for a load, of the loaded cell or field base).
func valueFunc(v ssa.Value) *ssa.Function {
	for i := 0; i < 8 && v != nil; i++ {
		switch x := v.(type) {
		case *ssa.Parameter:
			return x.Parent()
		case *ssa.UnOp:
			v = x.X
		case *ssa.FieldAddr:
			v = x.X
		case *ssa.Field:
			v = x.X
		case *ssa.Alloc:
			return x.Parent()
		case ssa.Instruction:
			return x.Parent()
		default:
			return nil
		}
	}
	return nil
}

func isAncestor(anc, f *ssa.Function) bool {
	for g := f; g != nil; g = g.Parent() {
		if g == anc {
			return true
		}
	}
	return false
}

package rules

import (
	"fmt"
	"go/ast"
	"go/token"
	"go/types"
	"sort"
	"strings"

	"golang.org/x/tools/go/ssa"

	"verif/internal/core"
)

// httpDoers returns the module functions that directly issue an HTTP request through net/http.
func httpDoers(p *core.Prog) map[*ssa.Function]bool {
	out := map[*ssa.Function]bool{}
	for _, fn := range p.ModFuncs {
		core.Calls(fn, func(c ssa.CallInstruction) {
			cal := core.Callee(c)
			if cal == nil || cal.Pkg() == nil || cal.Pkg().Path() != "net/http" {
				return
			}
			switch {
			case core.IsMethod(cal, "net/http", "Client", "Do"),
				core.IsMethod(cal, "net/http", "Client", "Get"),
				core.IsMethod(cal, "net/http", "Client", "Post"),
				core.IsMethod(cal, "net/http", "Client", "PostForm"),
				core.IsMethod(cal, "net/http", "Client", "Head"),
				core.IsMethod(cal, "net/http", "RoundTripper", "RoundTrip"),
				core.IsFunc(cal, "net/http", "Get"),
				core.IsFunc(cal, "net/http", "Post"),
				core.IsFunc(cal, "net/http", "Head"),
				core.IsFunc(cal, "net/http", "PostForm"):
				out[fn] = true
			}
		})
	}
	return out
}

// reachers returns all module functions from which one of targets is reachable in the reference
// graph (targets included).
func reachers(p *core.Prog, targets map[*ssa.Function]bool) map[*ssa.Function]bool {
	rev := map[*ssa.Function][]*ssa.Function{}
	for _, fn := range p.ModFuncs {
		for _, e := range p.RefEdges(fn) {
			rev[e.To] = append(rev[e.To], fn)
		}
	}
	out := map[*ssa.Function]bool{}
	var stack []*ssa.Function
	for t := range targets {
		out[t] = true
		stack = append(stack, t)
	}
	for len(stack) > 0 {
		x := stack[len(stack)-1]
		stack = stack[:len(stack)-1]
		for _, f := range rev[x] {
			if !out[f] {
				out[f] = true
				stack = append(stack, f)
			}
		}
	}
	return out
}

// instrRefs reports whether instruction in references (calls, closes over, passes) a function of set.
func instrRefs(p *core.Prog, in ssa.Instruction, set map[*ssa.Function]bool) *ssa.Function {
	if c, ok := in.(ssa.CallInstruction); ok && c.Common().IsInvoke() {
		for _, impl := range p.Implementations(c.Common().Method) {
			if set[impl] {
				return impl
			}
		}
	}
	for _, op := range in.Operands(nil) {
		if op == nil || *op == nil {
			continue
		}
		if f, ok := (*op).(*ssa.Function); ok && set[f] {
			return f
		}
	}
	return nil
}

// fieldStores lists the stores in fn (and optionally its closures) to field `field` of named type
// (rel, typ).
type fieldStore struct {
	Store *ssa.Store
	Addr  *ssa.FieldAddr
	Fn    *ssa.Function
}

func fieldStores(fns []*ssa.Function, match func(n *types.Named, field string) bool) []fieldStore {
	var out []fieldStore
	for _, fn := range fns {
		for _, b := range fn.Blocks {
			for _, in := range b.Instrs {
				st, ok := in.(*ssa.Store)
				if !ok {
					continue
				}
				fa, ok := st.Addr.(*ssa.FieldAddr)
				if !ok {
					continue
				}
				n, f := core.FieldAddrInfo(fa)
				if n != nil && match(n, f) {
					out = append(out, fieldStore{Store: st, Addr: fa, Fn: fn})
				}
			}
		}
	}
	return out
}

// fieldLoadOf reports whether v is a load of field `field` of a struct of named type (pkgPath, typ).
func fieldLoadOf(v ssa.Value, pkgPath, typ, field string) bool {
	switch x := v.(type) {
	case *ssa.UnOp:
		if x.Op != token.MUL {
			return false
		}
		fa, ok := x.X.(*ssa.FieldAddr)
		if !ok {
			return false
		}
		n, f := core.FieldAddrInfo(fa)
		return n != nil && f == field && core.TypeCanon(n) == typ && n.Obj().Pkg() != nil && n.Obj().Pkg().Path() == pkgPath
	case *ssa.Field:
		n := core.NamedOf(x.X.Type())
		f := core.FieldName(x.X.Type(), x.Field)
		return n != nil && f == field && core.TypeCanon(n) == typ && n.Obj().Pkg() != nil && n.Obj().Pkg().Path() == pkgPath
	}
	return false
}

func modPath(rel string) string {
	if rel == "." || rel == "" {
		return core.ModPath
	}
	return core.ModPath + "/" + rel
}

// guardedBy reports whether block b is dominated by a branch edge whose (negation-stripped)
// condition satisfies pred with the given polarity.
func guardedBy(b *ssa.BasicBlock, pol bool, pred func(ssa.Value) bool) bool {
	for _, g := range core.Guards(b) {
		c, gp := core.StripNot(g.Cond, g.Polarity)
		if gp == pol && pred(c) {
			return true
		}
	}
	return false
}

// anyGuard reports whether any dominating guard (cond, polarity) satisfies pred.
func anyGuard(b *ssa.BasicBlock, pred func(c ssa.Value, pol bool) bool) bool {
	for _, g := range core.Guards(b) {
		c, gp := core.StripNot(g.Cond, g.Polarity)
		if pred(c, gp) {
			return true
		}
	}
	return false
}

// closureOf returns the function literal a MakeClosure / Function value denotes.
func closureOf(v ssa.Value) *ssa.Function {
	switch x := v.(type) {
	case *ssa.MakeClosure:
		f, _ := x.Fn.(*ssa.Function)
		return f
	case *ssa.Function:
		return x
	}
	return nil
}

// nth labels repeated constructs within one function deterministically: label, label#2, label#3 …
type labeler map[string]int

func (l labeler) next(s string) string {
	l[s]++
	if l[s] == 1 {
		return s
	}
	return fmt.Sprintf("%s#%d", s, l[s])
}

func sortedFuncs(m map[*ssa.Function]bool) []*ssa.Function {
	var out []*ssa.Function
	for f := range m {
		out = append(out, f)
	}
	sort.Slice(out, func(i, j int) bool {
		if out[i].Pos() != out[j].Pos() {
			return out[i].Pos() < out[j].Pos()
		}
		return out[i].String() < out[j].String()
	})
	return out
}

// pkgFuncs returns the module functions (closures included) that belong to the package with the
// given module-relative path.
func pkgFuncs(p *core.Prog, rel string) []*ssa.Function {
	want := modPath(rel)
	var out []*ssa.Function
	for _, fn := range p.ModFuncs {
		if pk := core.FuncPkg(fn); pk != nil && pk.Path() == want {
			if fn.Synthetic != "" && !strings.Contains(fn.Synthetic, "instance") {
				continue // wrappers and bound-method thunks have no source
			}
			out = append(out, fn)
		}
	}
	return out
}

// isErrNonNil matches `err != nil` where err satisfies pred; returns polarity-normalised result:
// the function reports (matches, polarityWhenErrNonNil).
func errCmpNil(c ssa.Value) (ssa.Value, bool, bool) {
	bo, ok := c.(*ssa.BinOp)
	if !ok {
		return nil, false, false
	}
	if bo.Op != token.NEQ && bo.Op != token.EQL {
		return nil, false, false
	}
	var x ssa.Value
	switch {
	case core.IsNilConst(bo.Y):
		x = bo.X
	case core.IsNilConst(bo.X):
		x = bo.Y
	default:
		return nil, false, false
	}
	return x, bo.Op == token.NEQ, true
}

// dataDeps returns the parameters of the enclosing function that v is computed from: a backward
// data slice through every operand (a call result depends on its receiver and all arguments), loads
// of local cells (the whole-cell stores that reach the load, plus stores to parts of the cell from
// which the load can be reached), field and element addresses. Control dependence is not followed.
func dataDeps(v ssa.Value) map[*ssa.Parameter]bool {
	out := map[*ssa.Parameter]bool{}
	seen := map[ssa.Value]bool{}
	var walk func(x ssa.Value)
	cellDefs := func(at ssa.Instruction, a *ssa.Alloc) {
		for _, st := range core.ReachingStores(at, a) {
			walk(st.Val)
		}
		if refs := a.Referrers(); refs != nil {
			for _, rf := range *refs {
				var addr ssa.Value
				switch x := rf.(type) {
				case *ssa.FieldAddr:
					addr = x
				case *ssa.IndexAddr:
					addr = x
				default:
					continue
				}
				if ar := addr.Referrers(); ar != nil {
					for _, u := range *ar {
						st, ok := u.(*ssa.Store)
						if !ok || st.Addr != addr {
							continue
						}
						if st.Block() == at.Block() && core.InstrIndex(st) < core.InstrIndex(at) || (core.Reach{}).FromInstr(st)[at] {
							walk(st.Val)
						}
					}
				}
			}
		}
	}
	walk = func(x ssa.Value) {
		if x == nil || seen[x] || len(seen) > 6000 {
			return
		}
		seen[x] = true
		switch t := x.(type) {
		case *ssa.Parameter:
			out[t] = true
			return
		case *ssa.UnOp:
			if t.Op == token.MUL {
				base := t.X
				for {
					if fa, ok := base.(*ssa.FieldAddr); ok {
						base = fa.X
					} else if ia, ok := base.(*ssa.IndexAddr); ok {
						walk(ia.Index)
						base = ia.X
					} else {
						break
					}
				}
				if a, ok := base.(*ssa.Alloc); ok {
					cellDefs(t, a)
					return
				}
			}
		case *ssa.Alloc:
			// address of a cell used as a value (&x passed to a call): every store
			for _, st := range core.StoresToCell(t) {
				walk(st.Val)
			}
			return
		}
		in, ok := x.(ssa.Instruction)
		if !ok {
			return
		}
		for _, op := range in.Operands(nil) {
			if op != nil && *op != nil {
				walk(*op)
			}
		}
	}
	walk(v)
	return out
}

// forwardReaches: the value src can flow (forward data flow through element access, phis, local
// cells, closure capture and arguments of static calls to module functions) into an argument of a
// call for which sink reports true. Bounded; used for "the result of this getter is what gets copied".
func forwardReaches(p *core.Prog, src ssa.Value, sink func(c ssa.CallInstruction, argIdx int) bool) bool {
	return forwardFlow(p, src, sink, nil)
}

// forwardFlow is forwardReaches with a second kind of sink: use is called for every instruction that
// uses a value the source flows into.
func forwardFlow(p *core.Prog, src ssa.Value, sink func(c ssa.CallInstruction, argIdx int) bool, use func(user ssa.Instruction, x ssa.Value) bool) bool {
	seen := map[ssa.Value]bool{}
	work := []ssa.Value{src}
	push := func(v ssa.Value) {
		if v != nil && !seen[v] {
			work = append(work, v)
		}
	}
	for len(work) > 0 && len(seen) < 6000 {
		x := work[len(work)-1]
		work = work[:len(work)-1]
		if seen[x] {
			continue
		}
		seen[x] = true
		refs := x.Referrers()
		if refs == nil {
			continue
		}
		for _, ref := range *refs {
			if use != nil && use(ref, x) {
				return true
			}
			switch y := ref.(type) {
			case *ssa.Store:
				if y.Val == x {
					push(addrBase(y.Addr))
				}
			case *ssa.MakeClosure:
				lit, _ := y.Fn.(*ssa.Function)
				for i, b := range y.Bindings {
					if b == x && lit != nil && i < len(lit.FreeVars) {
						push(lit.FreeVars[i])
					}
				}
				push(y)
			case *ssa.MapUpdate:
				if y.Value == x || y.Key == x {
					push(y.Map)
				}
			case *ssa.Return:
				// what a module function returns is what its callers receive
				// (unexported helpers only: following every exported getter to all of its callers would
				// leave the unit the flow is about)
				if fn := y.Parent(); fn != nil && p.InModule(fn) && fn.Parent() == nil && !ast.IsExported(fn.Name()) {
					for _, st := range p.Callers(fn) {
						if c, ok := st.Site.(ssa.CallInstruction); ok && core.CalleeFn(c) == fn {
							if v, ok := st.Site.(ssa.Value); ok {
								push(v)
							}
						}
					}
				}
			case ssa.CallInstruction:
				cc := y.Common()
				args := cc.Args
				off := 0
				if cc.IsInvoke() {
					off = 1
				}
				for i, a := range args {
					if a != x {
						continue
					}
					if sink != nil && sink(y, i+off) {
						return true
					}
					if b, ok := cc.Value.(*ssa.Builtin); ok && (b.Name() == "append" || b.Name() == "copy") {
						if v, ok := y.(ssa.Value); ok {
							push(v)
						}
						continue
					}
					if g := cc.StaticCallee(); g != nil && p.InModule(g) && i < len(g.Params) {
						push(g.Params[i])
					}
					// what a call computes from the value carries it on (String(), SetDigest(x), Join, …)
					if v, ok := y.(ssa.Value); ok {
						push(v)
					}
				}
				if cc.IsInvoke() && cc.Value == x {
					if v, ok := y.(ssa.Value); ok {
						push(v)
					}
				}
				// the function value itself being called with captured state is followed through MakeClosure
			case ssa.Value:
				switch y.(type) {
				case *ssa.Phi, *ssa.Slice, *ssa.MakeInterface, *ssa.ChangeType, *ssa.ChangeInterface, *ssa.Convert, *ssa.UnOp, *ssa.IndexAddr, *ssa.Index,
					*ssa.FieldAddr, *ssa.Field, *ssa.Extract, *ssa.Range, *ssa.Next, *ssa.Lookup, *ssa.TypeAssert:
					push(y)
				}
			}
		}
	}
	return false
}

// isMapMembership: v is the answer to "is this string key in the map": a lookup in a map[string]bool,
// the ok of a comma-ok lookup in a string-keyed map, or the result of a small module function that
// returns one of those for a map it is given (`func (s set) has(k string) bool { _, ok := s[k]; return ok }`).
func isMapMembership(v ssa.Value, depth int) bool {
	switch x := v.(type) {
	case *ssa.Lookup:
		if m, ok := x.X.Type().Underlying().(*types.Map); ok && isStringType(m.Key()) {
			return true
		}
	case *ssa.Extract:
		if lk, ok := x.Tuple.(*ssa.Lookup); ok && lk.CommaOk && x.Index == 1 {
			if m, ok := lk.X.Type().Underlying().(*types.Map); ok && isStringType(m.Key()) {
				return true
			}
		}
	case *ssa.Call:
		g := x.Call.StaticCallee()
		if g == nil || depth > 1 || len(g.Blocks) == 0 || len(g.Blocks) > 3 || g.Signature.Results().Len() != 1 {
			return false
		}
		rets := core.Returns(g)
		if len(rets) != 1 {
			return false
		}
		return isMapMembership(core.ReturnOperand(rets[0], 0), depth+1)
	}
	return false
}

// unitFuncs: fn, its function literals, and the unexported same-package functions they call — applied
// repeatedly up to depth. It is the set of functions a maintainer may have spread the body of fn over
// (helpers, handlers registered as literals that forward to methods).
func unitFuncs(fn *ssa.Function, depth int, stop func(*ssa.Function) bool) map[*ssa.Function]bool {
	out := map[*ssa.Function]bool{}
	var walk func(f *ssa.Function, d int)
	walk = func(f *ssa.Function, d int) {
		for _, lit := range core.WithAnon(f) {
			if out[lit] {
				continue
			}
			out[lit] = true
			if d >= depth {
				continue
			}
			for h := range core.HelpersExcept(lit, 1, stop) {
				if !out[h] {
					walk(h, d+1)
				}
			}
		}
	}
	walk(fn, 0)
	return out
}

package rules

import (
	"fmt"
	"go/ast"
	"go/constant"
	"go/token"
	"go/types"
	"slices"
	"sort"
	"strings"

	"golang.org/x/tools/go/ssa"

	"verif/internal/core"
)

func init() {
	register(&Spec{
		ID: "C16",
		Decides: "the normal-form sentence, one ordering fact and the shape of the selection fold: the alias table of the platform normaliser is extracted from its switch statements; every documented alias maps to its canonical value, every value the table can produce is a fixed point of the table (for all strings, because unknown values are only compared, never rewritten), every architecture alias is known to the arch-only parser; " +
			"a platform handed to the comparator is normalised before it is stored or compared; the loop that folds Better over the list is left only at exhaustion, and its best-so-far (previous platform and kept entry) is updated together, from the candidate, exactly where Better says yes.",
		NotCovered: "that the chosen entry is runnable, that an exact match wins, that the preference is a strict order (statements about the values computed by Compatible/Better over a cross product): no sound structural surrogate was found that is not a copy of the functions; seeded change C16-3 (lossy cache key) is not detected.",
		Run:        runC16,
	})
}

// A platform tuple of the extracted table.
type plat struct{ os, arch, variant string }

// tableEval evaluates the alias table, which is written in a small pure language over strings: the
// fields of the receiver, parameters and locals; string constants and concatenation; comparisons with
// ==, != joined by &&, ||, !; if / else, switch (with a tag or without), assignments (also tuple
// assignments from a helper), return; calls of functions of the same package written in the same
// language. ok=false when something outside that language is met — the rule is then undecided, not
// wrong. Nothing of the program is run: the evaluator walks the syntax on abstract tuples of constants.
type tableEval struct {
	p     *core.Prog
	info  *types.Info
	recv  types.Object
	env   map[types.Object]string
	ok    bool
	why   string
	depth int
	seen  map[*ast.FuncDecl]bool // helper bodies visited (for constant collection)
}

func (te *tableEval) fail(why string) {
	if te.ok {
		te.ok, te.why = false, why
	}
}

func (te *tableEval) field(e ast.Expr) string {
	se, isSel := ast.Unparen(e).(*ast.SelectorExpr)
	if !isSel {
		return ""
	}
	id, isId := se.X.(*ast.Ident)
	if !isId || te.recv == nil || te.info.Uses[id] != te.recv {
		return ""
	}
	return se.Sel.Name
}

func (te *tableEval) get(p *plat, f string) string {
	switch f {
	case "OS":
		return p.os
	case "Architecture":
		return p.arch
	case "Variant":
		return p.variant
	}
	te.fail("field " + f + " is not part of the table")
	return ""
}

func (te *tableEval) set(p *plat, f, v string) {
	switch f {
	case "OS":
		p.os = v
	case "Architecture":
		p.arch = v
	case "Variant":
		p.variant = v
	default:
		te.fail("field " + f + " is not part of the table")
	}
}

// call evaluates a call of a package function written in the table language.
func (te *tableEval) call(p *plat, c *ast.CallExpr) ([]string, bool) {
	id, ok := ast.Unparen(c.Fun).(*ast.Ident)
	if !ok {
		return nil, false
	}
	obj, ok := te.info.Uses[id].(*types.Func)
	if !ok || te.p == nil || te.depth > 4 {
		return nil, false
	}
	fn := te.p.SSA.FuncValue(obj)
	if fn == nil {
		return nil, false
	}
	syn := te.p.Syntax(fn)
	if syn == nil || syn.Decl == nil || syn.Decl.Body == nil || syn.Decl.Recv != nil {
		return nil, false
	}
	var params []types.Object
	for _, f := range syn.Decl.Type.Params.List {
		for _, nm := range f.Names {
			params = append(params, syn.Pkg.TypesInfo.Defs[nm])
		}
	}
	if len(params) != len(c.Args) {
		return nil, false
	}
	env := map[types.Object]string{}
	for i, a := range c.Args {
		v, ok := te.strExpr(p, a)
		if !ok {
			return nil, false
		}
		env[params[i]] = v
	}
	if te.seen != nil {
		te.seen[syn.Decl] = true
	}
	sub := &tableEval{p: te.p, info: syn.Pkg.TypesInfo, env: env, ok: true, depth: te.depth + 1, seen: te.seen}
	var none plat
	ret, res := sub.stmts(&none, syn.Decl.Body.List)
	if !sub.ok {
		te.fail(sub.why)
		return nil, false
	}
	if !ret {
		return nil, false
	}
	return res, true
}

func (te *tableEval) strExpr(p *plat, e ast.Expr) (string, bool) {
	e = ast.Unparen(e)
	if tv, ok := te.info.Types[e]; ok && tv.Value != nil && tv.Value.Kind() == constant.String {
		return constant.StringVal(tv.Value), true
	}
	if f := te.field(e); f != "" {
		return te.get(p, f), true
	}
	switch x := e.(type) {
	case *ast.Ident:
		if obj := te.info.Uses[x]; obj != nil {
			if v, ok := te.env[obj]; ok {
				return v, true
			}
		}
	case *ast.BinaryExpr:
		if x.Op == token.ADD {
			a, ok1 := te.strExpr(p, x.X)
			b, ok2 := te.strExpr(p, x.Y)
			return a + b, ok1 && ok2
		}
	case *ast.CallExpr:
		if res, ok := te.call(p, x); ok && len(res) == 1 {
			return res[0], true
		}
	}
	return "", false
}

func (te *tableEval) cond(p *plat, e ast.Expr) (bool, bool) {
	e = ast.Unparen(e)
	switch x := e.(type) {
	case *ast.UnaryExpr:
		if x.Op == token.NOT {
			v, ok := te.cond(p, x.X)
			return !v, ok
		}
	case *ast.BinaryExpr:
		switch x.Op {
		case token.LAND, token.LOR:
			a, ok1 := te.cond(p, x.X)
			b, ok2 := te.cond(p, x.Y)
			if x.Op == token.LAND {
				return a && b, ok1 && ok2
			}
			return a || b, ok1 && ok2
		case token.EQL, token.NEQ:
			a, ok1 := te.strExpr(p, x.X)
			b, ok2 := te.strExpr(p, x.Y)
			return (a == b) == (x.Op == token.EQL), ok1 && ok2
		}
	}
	return false, false
}

// assign stores v into the field, parameter or local that lhs names.
func (te *tableEval) assign(p *plat, lhs ast.Expr, v string, define bool) {
	if f := te.field(lhs); f != "" {
		te.set(p, f, v)
		return
	}
	if id, ok := ast.Unparen(lhs).(*ast.Ident); ok {
		if id.Name == "_" {
			return
		}
		obj := te.info.Uses[id]
		if define || obj == nil {
			if d := te.info.Defs[id]; d != nil {
				obj = d
			}
		}
		if obj != nil {
			if te.env == nil {
				te.env = map[types.Object]string{}
			}
			te.env[obj] = v
			return
		}
	}
	te.fail("assignment target is not a field of the receiver, a parameter or a local")
}

// stmts evaluates a statement list; returned reports that a return statement was executed.
func (te *tableEval) stmts(p *plat, list []ast.Stmt) (returned bool, results []string) {
	for _, s := range list {
		if !te.ok {
			return false, nil
		}
		switch x := s.(type) {
		case *ast.ReturnStmt:
			var out []string
			if len(x.Results) == 1 {
				if c, isCall := ast.Unparen(x.Results[0]).(*ast.CallExpr); isCall {
					if res, ok := te.call(p, c); ok {
						return true, res
					}
				}
			}
			for _, e := range x.Results {
				v, ok := te.strExpr(p, e)
				if !ok {
					te.fail("returned expression is outside the table language")
					return false, nil
				}
				out = append(out, v)
			}
			return true, out
		case *ast.BlockStmt:
			if ret, res := te.stmts(p, x.List); ret {
				return true, res
			}
		case *ast.SwitchStmt:
			if x.Init != nil {
				te.fail("switch with an init statement")
				return false, nil
			}
			var def *ast.CaseClause
			var hit *ast.CaseClause
			tag, hasTag := "", x.Tag != nil
			if hasTag {
				v, ok := te.strExpr(p, x.Tag)
				if !ok {
					te.fail("switch tag is outside the table language")
					return false, nil
				}
				tag = v
			}
			for _, cl := range x.Body.List {
				cc := cl.(*ast.CaseClause)
				if cc.List == nil {
					def = cc
					continue
				}
				for _, ce := range cc.List {
					match := false
					if hasTag {
						v, ok := te.strExpr(p, ce)
						if !ok {
							te.fail("non-constant case")
							return false, nil
						}
						match = v == tag
					} else {
						v, ok := te.cond(p, ce)
						if !ok {
							te.fail("case condition is outside the table language")
							return false, nil
						}
						match = v
					}
					if match && hit == nil {
						hit = cc
					}
				}
			}
			if hit == nil {
				hit = def
			}
			if hit != nil {
				for _, st := range hit.Body {
					if br, isBr := st.(*ast.BranchStmt); isBr && br.Tok == token.FALLTHROUGH {
						te.fail("fallthrough")
						return false, nil
					}
				}
				if ret, res := te.stmts(p, hit.Body); ret {
					return true, res
				}
			}
		case *ast.IfStmt:
			if x.Init != nil {
				te.fail("if with an init statement")
				return false, nil
			}
			v, ok := te.cond(p, x.Cond)
			if !ok {
				te.fail("condition is not a comparison of strings of the table")
				return false, nil
			}
			if v {
				if ret, res := te.stmts(p, x.Body.List); ret {
					return true, res
				}
			} else if x.Else != nil {
				if ret, res := te.stmts(p, []ast.Stmt{x.Else}); ret {
					return true, res
				}
			}
		case *ast.AssignStmt:
			if x.Tok != token.ASSIGN && x.Tok != token.DEFINE {
				te.fail("assignment form")
				return false, nil
			}
			define := x.Tok == token.DEFINE
			if len(x.Rhs) == 1 && len(x.Lhs) > 1 {
				c, isCall := ast.Unparen(x.Rhs[0]).(*ast.CallExpr)
				if !isCall {
					te.fail("tuple assignment from something that is not a call")
					return false, nil
				}
				res, ok := te.call(p, c)
				if !ok || len(res) != len(x.Lhs) {
					te.fail("tuple assignment from a call outside the table language")
					return false, nil
				}
				for i, l := range x.Lhs {
					te.assign(p, l, res[i], define)
				}
				continue
			}
			if len(x.Lhs) != len(x.Rhs) {
				te.fail("assignment form")
				return false, nil
			}
			vals := make([]string, len(x.Rhs))
			for i, e := range x.Rhs {
				v, ok := te.strExpr(p, e)
				if !ok {
					te.fail("assigned expression is outside the table language")
					return false, nil
				}
				vals[i] = v
			}
			for i, l := range x.Lhs {
				te.assign(p, l, vals[i], define)
			}
		case *ast.DeclStmt:
			gd, ok := x.Decl.(*ast.GenDecl)
			if !ok || gd.Tok != token.VAR {
				te.fail("declaration outside the table language")
				return false, nil
			}
			for _, sp := range gd.Specs {
				vs := sp.(*ast.ValueSpec)
				for i, nm := range vs.Names {
					v := ""
					if i < len(vs.Values) {
						var okV bool
						if v, okV = te.strExpr(p, vs.Values[i]); !okV {
							te.fail("declaration outside the table language")
							return false, nil
						}
					}
					te.assign(p, nm, v, true)
				}
			}
		case *ast.EmptyStmt:
		default:
			te.fail(fmt.Sprintf("statement %T is outside the table language", s))
			return false, nil
		}
	}
	return false, nil
}

// tableConstants collects every string constant of the table, per field it is compared with or
// assigned to.
func tableConstants(info *types.Info, body *ast.BlockStmt) []string {
	set := map[string]bool{"": true}
	ast.Inspect(body, func(n ast.Node) bool {
		if e, ok := n.(ast.Expr); ok {
			if tv, ok := info.Types[e]; ok && tv.Value != nil && tv.Value.Kind() == constant.String {
				set[constant.StringVal(tv.Value)] = true
			}
		}
		return true
	})
	var out []string
	for s := range set {
		out = append(out, s)
	}
	sort.Strings(out)
	return out
}

func runC16(p *core.Prog, r *core.Report) {
	const rule = "C16.R1"
	r.Rule(rule, "alias table: documented aliases map to the canonical value; every tuple the table produces is a fixed point; every architecture alias is known to the arch-only parser", 12)
	pt := p.Named("types/platform", "Platform")
	if pt == nil {
		r.MissingAnchor(rule, "types/platform.Platform")
		return
	}
	fn := p.MethodOf(pt, "normalize")
	syn := p.Syntax(fn)
	if fn == nil || syn == nil || syn.Decl == nil || syn.Decl.Recv == nil || len(syn.Decl.Recv.List[0].Names) == 0 {
		r.MissingAnchor(rule, "types/platform.(*Platform).normalize")
		return
	}
	info := syn.Pkg.TypesInfo
	recv := info.Defs[syn.Decl.Recv.List[0].Names[0]]
	fname := p.FuncName(fn)
	helperDecls := map[*ast.FuncDecl]bool{}
	eval := func(in plat) (plat, bool, string) {
		te := &tableEval{p: p, info: info, recv: recv, ok: true, seen: helperDecls}
		out := in
		te.stmts(&out, syn.Decl.Body.List)
		return out, te.ok, te.why
	}
	if _, ok, why := eval(plat{"linux", "amd64", ""}); !ok {
		r.Undecided(rule, fname, "table language", p.Pos(fn.Pos()), "the normaliser is no longer a pure switch table: "+why)
		return
	}
	// (1) documented aliases
	type alias struct {
		in, want plat
		doc      string
	}
	for _, a := range []alias{
		{plat{"linux", "x86_64", ""}, plat{"linux", "amd64", ""}, "x86_64 → amd64"},
		{plat{"linux", "x86-64", ""}, plat{"linux", "amd64", ""}, "x86-64 → amd64"},
		{plat{"linux", "aarch64", ""}, plat{"linux", "arm64", ""}, "aarch64 → arm64"},
		{plat{"linux", "armhf", ""}, plat{"linux", "arm", "v7"}, "armhf → arm/v7"},
		{plat{"linux", "armel", ""}, plat{"linux", "arm", "v6"}, "armel → arm/v6"},
		{plat{"linux", "i386", ""}, plat{"linux", "386", ""}, "i386 → 386"},
		{plat{"macos", "arm64", ""}, plat{"darwin", "arm64", ""}, "macos → darwin"},
		{plat{"linux", "arm64", "v8"}, plat{"linux", "arm64", ""}, "arm64/v8 → arm64"},
		{plat{"linux", "amd64", "v1"}, plat{"linux", "amd64", ""}, "amd64/v1 → amd64"},
		{plat{"linux", "arm", ""}, plat{"linux", "arm", "v7"}, "arm → arm/v7"},
	} {
		got, _, _ := eval(a.in)
		r.Check(got == a.want, rule, fname, "alias "+a.doc, p.Pos(fn.Pos()), fmt.Sprintf("table maps %v to %v, documented %v", a.in, got, a.want))
	}
	// (2) idempotence over the whole finite abstraction: every combination of the table's constants plus one
	// value outside it per field
	constSet := map[string]bool{}
	for _, c := range tableConstants(info, syn.Decl.Body) {
		constSet[c] = true
	}
	// the table may be spread over helper functions: their constants belong to it (the helpers were
	// recorded while evaluating the documented aliases above)
	for d := range helperDecls {
		for _, c := range tableConstants(info, d.Body) {
			constSet[c] = true
		}
	}
	var consts []string
	for c := range constSet {
		consts = append(consts, c)
	}
	sort.Strings(consts)
	consts = append(consts, "\x00other")
	bad := ""
	n := 0
	for _, o := range consts {
		for _, a := range consts {
			for _, v := range consts {
				in := plat{o, a, v}
				once, ok1, _ := eval(in)
				twice, ok2, _ := eval(once)
				n++
				if !ok1 || !ok2 || once != twice {
					bad = fmt.Sprintf("%q/%q/%q → %q/%q/%q → %q/%q/%q", in.os, in.arch, in.variant, once.os, once.arch, once.variant, twice.os, twice.arch, twice.variant)
				}
			}
		}
	}
	if bad == "" {
		r.Held(rule, fname, "normal form is a fixed point", p.Pos(fn.Pos()), fmt.Sprintf("%d tuples over the table's %d constants (plus one unknown value per field): normalising twice equals normalising once", n, len(consts)-1))
	} else {
		r.Violated(rule, fname, "normal form is a fixed point", p.Pos(fn.Pos()), "normalising is not idempotent: "+bad+" (a printed platform would re-parse to something else)")
	}
	// (3) arch aliases known to the arch-only parser
	ka := p.Func("types/platform", "knownArch")
	if ka == nil {
		r.MissingAnchor(rule, "types/platform.knownArch")
	} else {
		known := map[string]bool{}
		for _, b := range ka.Blocks {
			for _, in := range b.Instrs {
				if bo, ok := in.(*ssa.BinOp); ok && bo.Op == token.EQL {
					if s, isK := core.ConstString(bo.Y); isK {
						known[s] = true
					}
				}
			}
		}
		// architecture cases of the table: constants that appear in a case of the Architecture switch
		var missing []string
		ast.Inspect(syn.Decl.Body, func(nd ast.Node) bool {
			sw, ok := nd.(*ast.SwitchStmt)
			if !ok || sw.Tag == nil {
				return true
			}
			if se, ok := sw.Tag.(*ast.SelectorExpr); !ok || se.Sel.Name != "Architecture" {
				return true
			}
			for _, cl := range sw.Body.List {
				for _, ce := range cl.(*ast.CaseClause).List {
					if tv, ok := info.Types[ce]; ok && tv.Value != nil {
						if s := constant.StringVal(tv.Value); !known[s] {
							missing = append(missing, s)
						}
					}
				}
			}
			return false
		})
		r.Check(len(missing) == 0, rule, p.FuncName(ka), "architecture aliases parse alone", p.Pos(ka.Pos()), "aliases not accepted as an architecture-only platform string: "+strings.Join(missing, ", "))
	}
	c16R2(p, r, fn)
	c16R3R4(p, r)
	c16R5(p, r)
	// a platform-specific result is cached under a key that distinguishes everything the selection reads (shared with C18.R7)
	lossyKeyRule(p, r, "C16.R6")
	c16R7(p, r)
	c16R8(p, r)
	c16R9(p, r)
}

// c16R7: what a function literal remembers across its calls does not depend on the call that
// computed it. A captured variable that is filled once (`if v == nil { v = ... }`) is the same for
// every later call, so the value stored must be computed from what is captured (and from the
// plumbing every call shares: the context, the client), never from the arguments of the current
// call. A step of the image walk that remembers the base manifest *after* resolving it for the
// platform of the image it is looking at hands every later platform the first platform's entry.
func c16R7(p *core.Prog, r *core.Report) {
	const rule = "C16.R7"
	r.Rule(rule, "a remembered value does not depend on the call that computed it: in a function literal, a store to a captured variable made behind a nil test of that variable carries a value computed from captured state, the context and the client only, not from the literal's other parameters (a platform-resolved manifest remembered by a per-image step is reused for every other platform)", 0)
	plumbing := func(t types.Type) bool {
		if core.IsNamed(t, "context", "Context") {
			return true
		}
		if pt, ok := t.(*types.Pointer); ok {
			if core.IsNamed(pt.Elem(), modPath("."), "RegClient") {
				return true
			}
		}
		return false
	}
	n := 0
	lab := map[*ssa.Function]labeler{}
	for _, fn := range p.ModFuncs {
		if len(fn.FreeVars) == 0 || len(fn.Blocks) == 0 {
			continue
		}
		for _, b := range fn.Blocks {
			for _, in := range b.Instrs {
				st, ok := in.(*ssa.Store)
				if !ok {
					continue
				}
				fv, ok := st.Addr.(*ssa.FreeVar)
				if !ok {
					continue
				}
				// an error collected by a deferred literal is not a remembered value
				if pt, isPtr := fv.Type().(*types.Pointer); isPtr && isErr(pt.Elem()) {
					continue
				}
				// behind `*fv == nil`
				if !anyGuard(b, func(c ssa.Value, pol bool) bool {
					x, neq, isCmp := errCmpNil(c)
					if !isCmp || neq == pol {
						return false
					}
					l, isLoad := x.(*ssa.UnOp)
					return isLoad && l.Op == token.MUL && l.X == fv
				}) {
					continue
				}
				n++
				var bad []string
				for prm := range dataDeps(st.Val) {
					if prm.Parent() == fn && !plumbing(prm.Type()) {
						bad = append(bad, prm.Name())
					}
				}
				sort.Strings(bad)
				if lab[fn] == nil {
					lab[fn] = labeler{}
				}
				r.Check(len(bad) == 0, rule, p.FuncName(fn), lab[fn].next("value remembered in "+fv.Name()), p.Pos(st.Pos()),
					"the value stored once into the captured variable is computed from the parameters of the current call ("+strings.Join(bad, ", ")+"): every later call, made for a different image or platform, is served the first call's value")
			}
		}
	}
	if n == 0 {
		r.Held(rule, "module", "remembered values", "", "no function literal fills a captured variable behind a nil test")
	}
}

// c16R5: the platform that is asked for is the platform that is selected for. A string parsed into a
// platform and then dropped (a shadowed variable, a result only looked at in a condition) means the
// selection runs with some other platform.
func c16R5(p *core.Prog, r *core.Report) {
	const rule = "C16.R5"
	r.Rule(rule, "the requested platform reaches the selection: the result of every platform.Parse outside types/platform flows into an argument of a module function, a return value or a field (a result that is only compared is a request that was dropped)", 5)
	n := 0
	for _, fn := range p.ModFuncs {
		if len(fn.Blocks) == 0 {
			continue
		}
		if pk := core.FuncPkg(fn); pk == nil || pk.Path() == modPath("types/platform") {
			continue
		}
		lab := labeler{}
		for _, c := range core.CallsTo(fn, func(f *types.Func) bool { return core.IsModFunc(f, "types/platform", "Parse") }) {
			call, ok := c.(*ssa.Call)
			if !ok {
				continue
			}
			var res ssa.Value
			for _, ref := range *call.Referrers() {
				if ex, ok := ref.(*ssa.Extract); ok && ex.Index == 0 {
					res = ex
				}
			}
			n++
			label := lab.next("platform.Parse result")
			if res == nil {
				r.Held(rule, p.FuncName(fn), label, p.Pos(call.Pos()), "the result is discarded explicitly: the call only validates the string")
				continue
			}
			used := false
			if res != nil {
				used = forwardFlow(p, res, func(cc ssa.CallInstruction, i int) bool {
					g := core.Callee(cc)
					return g != nil && g.Pkg() != nil && strings.HasPrefix(g.Pkg().Path(), modPath(".")) && !strings.HasPrefix(g.Pkg().Path(), modPath("types/platform")+"/") || g == nil
				}, func(user ssa.Instruction, x ssa.Value) bool {
					switch u := user.(type) {
					case *ssa.Return:
						return true
					case *ssa.Store:
						if fa, ok := u.Addr.(*ssa.FieldAddr); ok && u.Val == x {
							_ = fa
							return true
						}
					}
					return false
				})
			}
			r.Check(used, rule, p.FuncName(fn), label, p.Pos(call.Pos()), "the parsed platform is never handed on (it is at most compared): the selection that follows works with another platform than the one that was requested")
		}
	}
	if n == 0 {
		r.MissingAnchor(rule, "platform.Parse calls outside types/platform")
	}
}

// c16R2: a Platform parameter is normalised before it is stored into the comparator (or any struct).
func c16R2(p *core.Prog, r *core.Report, norm *ssa.Function) {
	const rule = "C16.R2"
	r.Rule(rule, "normalise before use: a platform parameter stored into the comparator is loaded after normalize() ran on it", 1)
	n := 0
	for _, fn := range pkgFuncs(p, "types/platform") {
		if fn == norm {
			continue
		}
		for _, fs := range fieldStores([]*ssa.Function{fn}, func(nn *types.Named, f string) bool { return core.TypeCanon(nn) == "compare" }) {
			if !core.IsModNamed(fs.Store.Val.Type(), "types/platform", "Platform") {
				continue
			}
			n++
			// the stored value: a load of the parameter's cell
			ld, ok := fs.Store.Val.(*ssa.UnOp)
			ok2 := false
			detail := "the stored platform is not a local copy of the parameter"
			if ok {
				if cell, isCell := ld.X.(*ssa.Alloc); isCell {
					detail = "normalize() is not called on the platform before it is copied into the comparator: a requested platform spelled with an alias (or arm without variant) never matches a canonical entry"
					core.Calls(fn, func(c ssa.CallInstruction) {
						if core.CalleeFn(c) == norm && c.Common().Args[0] == ssa.Value(cell) && core.DominatesInstr(c.(ssa.Instruction), ld) {
							ok2 = true
							detail = "normalised first"
						}
					})
				}
			}
			r.Check(ok2, rule, p.FuncName(fn), "comparator host normalised", p.Pos(fs.Store.Pos()), detail)
		}
	}
	if n == 0 {
		r.Undecided(rule, "types/platform", "comparator host", "-", "no store of a Platform into the comparator found")
	}
}

// c16R3R4: the selection is a fold of the pairwise "better than" over the list. Two shape conditions
// of that fold are decided; the order laws of the comparison itself are not (see DESIGN.md).
func c16R3R4(p *core.Prog, r *core.Report) {
	const rule3, rule4 = "C16.R3", "C16.R4"
	r.Rule(rule3, "the scan visits every entry: a loop that folds the comparator's Better over a list is left only when the list is exhausted (an early exit makes the result depend on the order of the entries unless the entry it stops at is maximal, which is a statement about values)", 1)
	r.Rule(rule4, "the fold keeps its best-so-far consistent: the second argument of Better is the loop-carried previous platform; on the true edge it becomes the platform that was the first argument, the kept entry is the element that platform belongs to, and on every other edge both stay what they were", 1)
	better := func(f *types.Func) bool {
		return f != nil && f.Name() == "Better" && f.Pkg() != nil && f.Pkg().Path() == modPath("types/platform")
	}
	n := 0
	for _, fn := range p.ModFuncs {
		if len(fn.Blocks) == 0 || fn.Synthetic != "" {
			continue
		}
		if pk := core.FuncPkg(fn); pk == nil || pk.Path() == modPath("types/platform") {
			continue
		}
		for _, l := range core.Loops(fn) {
			var call *ssa.Call
			l.Instrs(func(in ssa.Instruction) {
				if c, ok := in.(*ssa.Call); ok && better(core.Callee(c)) {
					call = c
				}
			})
			if call == nil {
				continue
			}
			n++
			fname := p.FuncName(fn)
			// R3
			var early []string
			for _, e := range l.Exits() {
				if e[0] == l.Header {
					continue
				}
				pos := "-"
				for _, in := range append(append([]ssa.Instruction{}, e[0].Instrs...), e[1].Instrs...) {
					if in.Pos() != token.NoPos {
						pos = p.Pos(in.Pos())
					}
				}
				early = append(early, pos)
			}
			sort.Strings(early)
			r.Check(len(early) == 0, rule3, fname, "selection loop scans the whole list", p.Pos(call.Pos()),
				"the loop is left before the list is exhausted at "+strings.Join(early, ", ")+": entries after that point are never compared, so a better entry listed later is passed over")
			// R4 (phi form of the fold)
			args := call.Call.Args
			if len(args) != 3 {
				continue
			}
			target, prev := args[1], args[2]
			phi, ok := prev.(*ssa.Phi)
			if !ok || phi.Block() != l.Header {
				if tphi, isPhi := target.(*ssa.Phi); isPhi && tphi.Block() == l.Header {
					r.Violated(rule4, fname, "best-so-far update", p.Pos(call.Pos()), "the loop-carried best-so-far is passed as the candidate and the list entry as the previous platform: the arguments of Better are swapped")
					continue
				}
				if _, isConst := prev.(*ssa.Const); isConst {
					r.Violated(rule4, fname, "best-so-far update", p.Pos(call.Pos()), "every candidate is compared with a constant: the previous platform is never updated, so the last compatible entry wins whatever came before")
					continue
				}
				r.Note("%s: %s keeps its best-so-far in another form than a loop-carried value; fold shape not decided", rule4, fname)
				r.Held(rule4, fname, "best-so-far kept in a cell", p.Pos(call.Pos()), "fold shape not decided for this form (see notes)")
				continue
			}
			// the edge on which Better was true
			ifi, ok := core.LastInstr(call.Block()).(*ssa.If)
			var trueSucc *ssa.BasicBlock
			if ok {
				if cnd, pol := core.StripNot(ifi.Cond, true); cnd == ssa.Value(call) {
					trueSucc = call.Block().Succs[0]
					if !pol {
						trueSucc = call.Block().Succs[1]
					}
				}
			}
			if trueSucc == nil || len(trueSucc.Preds) != 1 {
				r.Note("%s: %s does not branch on Better directly; fold shape not decided", rule4, fname)
				r.Held(rule4, fname, "Better not branched on directly", p.Pos(call.Pos()), "fold shape not decided for this form (see notes)")
				continue
			}
			onTrue := func(pred *ssa.BasicBlock) bool { return pred == trueSucc || trueSucc.Dominates(pred) }
			// the values a header phi takes from inside the loop, with the block each comes from,
			// looking through the phis of join blocks inside the loop
			type inc struct {
				v    ssa.Value
				from *ssa.BasicBlock
			}
			var incoming func(q *ssa.Phi, seen map[*ssa.Phi]bool) []inc
			incoming = func(q *ssa.Phi, seen map[*ssa.Phi]bool) []inc {
				var out []inc
				seen[q] = true
				for i, ed := range q.Edges {
					pred := q.Block().Preds[i]
					if !l.Blocks[pred] {
						continue
					}
					if in, ok := ed.(*ssa.Phi); ok && in.Block() != l.Header && l.Blocks[in.Block()] && !seen[in] {
						out = append(out, incoming(in, seen)...)
						continue
					}
					out = append(out, inc{ed, pred})
				}
				return out
			}
			// structural equality of two pure load expressions
			var same func(a, b ssa.Value, d int) bool
			same = func(a, b ssa.Value, d int) bool {
				if a == b {
					return true
				}
				if d > 8 {
					return false
				}
				switch x := a.(type) {
				case *ssa.UnOp:
					y, ok := b.(*ssa.UnOp)
					return ok && x.Op == y.Op && same(x.X, y.X, d+1)
				case *ssa.FieldAddr:
					y, ok := b.(*ssa.FieldAddr)
					return ok && x.Field == y.Field && same(x.X, y.X, d+1)
				case *ssa.Field:
					y, ok := b.(*ssa.Field)
					return ok && x.Field == y.Field && same(x.X, y.X, d+1)
				case *ssa.IndexAddr:
					y, ok := b.(*ssa.IndexAddr)
					return ok && same(x.X, y.X, d+1) && same(x.Index, y.Index, d+1)
				}
				return false
			}
			// the element the candidate platform belongs to: target = *(*(&E.Platform))
			var elem ssa.Value
			if u, ok := target.(*ssa.UnOp); ok && u.Op == token.MUL {
				if u2, ok := u.X.(*ssa.UnOp); ok && u2.Op == token.MUL {
					if fa, ok := u2.X.(*ssa.FieldAddr); ok {
						elem = fa.X
					}
				}
			}
			var bad []string
			for _, e := range incoming(phi, map[*ssa.Phi]bool{}) {
				if onTrue(e.from) {
					if !same(e.v, target, 0) {
						bad = append(bad, "after Better says yes the previous platform becomes something else than the platform just compared")
					}
				} else if e.v != ssa.Value(phi) {
					bad = append(bad, "the previous platform changes on a path where Better did not say yes")
				}
			}
			// the kept entry: every other loop-carried value that changes exactly where Better says yes
			kept := 0
			for _, in := range l.Header.Instrs {
				q, ok := in.(*ssa.Phi)
				if !ok || q == phi {
					continue
				}
				if bt, isBasic := q.Type().Underlying().(*types.Basic); isBasic && bt.Info()&types.IsBoolean != 0 {
					continue
				}
				es := incoming(q, map[*ssa.Phi]bool{})
				onlyOnTrue, changes := true, false
				for _, e := range es {
					if onTrue(e.from) {
						changes = changes || e.v != ssa.Value(q)
					} else if e.v != ssa.Value(q) {
						onlyOnTrue = false
					}
				}
				if !onlyOnTrue || !changes || elem == nil {
					continue
				}
				kept++
				for _, e := range es {
					if !onTrue(e.from) {
						continue
					}
					ok := same(e.v, elem, 0)
					if u, isLoad := e.v.(*ssa.UnOp); isLoad && u.Op == token.MUL && same(u.X, elem, 0) {
						ok = true
					}
					if ia, isIdx := elem.(*ssa.IndexAddr); isIdx && same(e.v, ia.Index, 0) {
						ok = true
					}
					if !ok {
						bad = append(bad, "the entry kept after Better says yes ("+q.Comment+") is not the element whose platform was compared")
					}
				}
			}
			if kept == 0 {
				r.Note("%s: %s keeps no entry value next to the previous platform; only the platform update is decided", rule4, fname)
			}
			sort.Strings(bad)
			bad = slices.Compact(bad)
			r.Check(len(bad) == 0, rule4, fname, "best-so-far update", p.Pos(call.Pos()), strings.Join(bad, "; "))
		}
	}
	if n == 0 {
		r.MissingAnchor(rule3, "a loop that folds platform.Better over a list")
	}
}

// c16R8: "among compatible entries none that the ordering ranks strictly better is passed over".
// The ranking only sees what it is handed: the platform lookup of a manifest gives the ranked search
// every entry of the index. A pre-filter (images first, artifacts as a fall-back) makes the result
// depend on something the ordering does not rank, and an exact match outside the subset is passed
// over for a merely compatible entry inside it.
func c16R8(p *core.Prog, r *core.Report) {
	const rule = "C16.R8"
	r.Rule(rule, "the ranked search sees the whole index: in types/manifest, the list handed to descriptor.DescriptorListSearch together with a platform is the index's own list (its Manifests field or the result of GetManifestList), never a list built or filtered locally", 1)
	n := 0
	for _, fn := range pkgFuncs(p, "types/manifest") {
		lab := labeler{}
		core.Calls(fn, func(c ssa.CallInstruction) {
			cal := core.Callee(c)
			if cal == nil || !core.IsModFunc(cal, "types/descriptor", "DescriptorListSearch") || len(c.Common().Args) < 1 {
				return
			}
			n++
			// the search may sit in an unexported helper that is handed the list: the rule is then about
			// what its callers in the package hand over
			var listOK func(f *ssa.Function, v ssa.Value, depth int) bool
			listOK = func(f *ssa.Function, v ssa.Value, depth int) bool {
				return core.AllOrigins(core.Origins(v, core.SliceOpts{}), func(o core.Origin) bool {
					switch {
					case o.Kind == core.OField:
						return true // the index's own list (a field of the manifest the method belongs to)
					case o.Kind == core.OCall:
						return o.Call.Call.IsInvoke() && o.Call.Call.Method.Name() == "GetManifestList"
					case o.Kind == core.OParam && depth < 3 && f.Object() != nil && !f.Object().Exported():
						idx := -1
						for i, pr := range f.Params {
							if pr == o.Param {
								idx = i
							}
						}
						sites, all := 0, true
						for _, caller := range pkgFuncs(p, "types/manifest") {
							core.Calls(caller, func(cc ssa.CallInstruction) {
								if core.CalleeFn(cc) != f || idx < 0 || idx >= len(cc.Common().Args) {
									return
								}
								sites++
								if !listOK(caller, cc.Common().Args[idx], depth+1) {
									all = false
								}
							})
						}
						return sites > 0 && all
					}
					return false
				})
			}
			ok := listOK(fn, c.Common().Args[0], 0)
			r.Check(ok, rule, p.FuncName(fn), lab.next("list handed to the ranked search"), p.Pos(c.Pos()),
				"the list searched is not (only) the index's own list of entries: an entry left out of it cannot win although the ordering ranks it best")
		})
	}
	if n == 0 {
		r.MissingAnchor(rule, "DescriptorListSearch in types/manifest")
	}
}

// c16R9: "the documented aliases map to one canonical value" also for the short notations that Parse
// completes from the local platform: the fields of the parsed platform are compared with the local
// platform's (which are canonical) only after they have been normalised themselves — x86_64 compared
// raw with amd64 does not match, and the alias ends up without the variant its canonical spelling gets.
func c16R9(p *core.Prog, r *core.Report) {
	const rule = "C16.R9"
	r.Rule(rule, "normalise before comparing with the local platform: in platform.Parse every comparison of a field of the parsed platform with a field of another platform value is dominated by the normalize() call on the parsed platform", 1)
	fn := p.Func("types/platform", "Parse")
	if fn == nil {
		r.MissingAnchor(rule, "types/platform.Parse")
		return
	}
	pt := p.Named("types/platform", "Platform")
	baseOf := func(v ssa.Value) ssa.Value {
		// the struct (cell or value) a string field is read from
		switch x := v.(type) {
		case *ssa.UnOp:
			if fa, ok := x.X.(*ssa.FieldAddr); ok && x.Op == token.MUL && core.NamedOf(fa.X.Type()) == pt {
				return fa.X
			}
		case *ssa.Field:
			if core.NamedOf(x.X.Type()) == pt {
				return x.X
			}
		}
		return nil
	}
	var norms []*ssa.Call
	core.Calls(fn, func(c ssa.CallInstruction) {
		if g := core.CalleeFn(c); g != nil && canon(g) == "normalize" {
			if call, ok := c.(*ssa.Call); ok {
				norms = append(norms, call)
			}
		}
	})
	n := 0
	lab := labeler{}
	for _, b := range fn.Blocks {
		for _, in := range b.Instrs {
			bo, ok := in.(*ssa.BinOp)
			if !ok || (bo.Op != token.EQL && bo.Op != token.NEQ) {
				continue
			}
			bx, by := baseOf(bo.X), baseOf(bo.Y)
			if bx == nil || by == nil || bx == by {
				continue
			}
			n++
			ok2 := false
			for _, nc := range norms {
				recv := core.CallArg(nc, 0)
				if (recv == bx || recv == by) && core.DominatesInstr(nc, bo) {
					ok2 = true
				}
			}
			r.Check(ok2, rule, p.FuncName(fn), lab.next("field compared with another platform"), p.Pos(bo.Pos()),
				"a field of the parsed platform is compared with the local platform before normalize() ran on it: an alias (x86_64, aarch64) does not equal the canonical local value and the short notation is completed differently from its canonical spelling")
		}
	}
	if n == 0 {
		r.Held(rule, p.FuncName(fn), "field compared with another platform", p.Pos(fn.Pos()), "Parse compares no field of the parsed platform with another platform value directly")
	}
}

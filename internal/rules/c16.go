package rules

import (
	"fmt"
	"go/ast"
	"go/constant"
	"go/token"
	"go/types"
	"sort"
	"strings"

	"golang.org/x/tools/go/ssa"

	"verif/internal/core"
)

func init() {
	register(&Spec{
		ID: "C16",
		Decides: "only the normal-form sentence and one ordering fact: the alias table of the platform normaliser is extracted from its switch statements; every documented alias maps to its canonical value, every value the table can produce is a fixed point of the table (for all strings, because unknown values are only compared, never rewritten), every architecture alias is known to the arch-only parser; " +
			"a platform handed to the comparator is normalised before it is stored or compared.",
		NotCovered: "that the chosen entry is runnable, that an exact match wins, that the preference is a strict order independent of list order (statements about the values computed by Compatible/Better over a cross product; seeded change C16-1 is not detected): no sound structural surrogate was found that is not a copy of the functions.",
		Run:        runC16,
	})
}

// A platform tuple of the extracted table.
type plat struct{ os, arch, variant string }

// tableEval evaluates the extracted switch table (a restricted statement language: switch on a
// field of the receiver with constant cases, if field == const, field = const, field = const + field)
// on a tuple. ok=false when a statement outside that language is met.
type tableEval struct {
	info *types.Info
	recv types.Object
	ok   bool
	why  string
}

func (te *tableEval) field(e ast.Expr) string {
	se, isSel := ast.Unparen(e).(*ast.SelectorExpr)
	if !isSel {
		return ""
	}
	id, isId := se.X.(*ast.Ident)
	if !isId || te.info.Uses[id] != te.recv {
		return ""
	}
	return se.Sel.Name
}

func (te *tableEval) get(p *plat, f string) string {
	switch f {
	case "OS":
		return p.os
	case "Architecture":
		return p.arch
	case "Variant":
		return p.variant
	}
	te.ok, te.why = false, "field "+f+" is not part of the table"
	return ""
}

func (te *tableEval) set(p *plat, f, v string) {
	switch f {
	case "OS":
		p.os = v
	case "Architecture":
		p.arch = v
	case "Variant":
		p.variant = v
	default:
		te.ok, te.why = false, "field "+f+" is not part of the table"
	}
}

func (te *tableEval) strExpr(p *plat, e ast.Expr) (string, bool) {
	e = ast.Unparen(e)
	if tv, ok := te.info.Types[e]; ok && tv.Value != nil && tv.Value.Kind() == constant.String {
		return constant.StringVal(tv.Value), true
	}
	if f := te.field(e); f != "" {
		return te.get(p, f), true
	}
	if be, ok := e.(*ast.BinaryExpr); ok && be.Op == token.ADD {
		a, ok1 := te.strExpr(p, be.X)
		b, ok2 := te.strExpr(p, be.Y)
		return a + b, ok1 && ok2
	}
	return "", false
}

func (te *tableEval) stmts(p *plat, list []ast.Stmt) {
	for _, s := range list {
		if !te.ok {
			return
		}
		switch x := s.(type) {
		case *ast.SwitchStmt:
			if x.Init != nil || x.Tag == nil {
				te.ok, te.why = false, "switch without a field tag"
				return
			}
			tag, ok := te.strExpr(p, x.Tag)
			if !ok {
				te.ok, te.why = false, "switch tag is not a field of the receiver"
				return
			}
			var def *ast.CaseClause
			matched := false
			for _, cl := range x.Body.List {
				cc := cl.(*ast.CaseClause)
				if cc.List == nil {
					def = cc
					continue
				}
				for _, ce := range cc.List {
					v, ok := te.strExpr(p, ce)
					if !ok {
						te.ok, te.why = false, "non-constant case"
						return
					}
					if v == tag && !matched {
						matched = true
						te.stmts(p, cc.Body)
					}
				}
			}
			if !matched && def != nil {
				te.stmts(p, def.Body)
			}
		case *ast.IfStmt:
			if x.Init != nil {
				te.ok, te.why = false, "if with init"
				return
			}
			be, ok := ast.Unparen(x.Cond).(*ast.BinaryExpr)
			if !ok || (be.Op != token.EQL && be.Op != token.NEQ) {
				te.ok, te.why = false, "condition is not a field comparison"
				return
			}
			a, ok1 := te.strExpr(p, be.X)
			b, ok2 := te.strExpr(p, be.Y)
			if !ok1 || !ok2 {
				te.ok, te.why = false, "condition is not a field comparison"
				return
			}
			if (a == b) == (be.Op == token.EQL) {
				te.stmts(p, x.Body.List)
			} else if x.Else != nil {
				switch e := x.Else.(type) {
				case *ast.BlockStmt:
					te.stmts(p, e.List)
				case *ast.IfStmt:
					te.stmts(p, []ast.Stmt{e})
				}
			}
		case *ast.AssignStmt:
			if len(x.Lhs) != 1 || len(x.Rhs) != 1 || x.Tok != token.ASSIGN {
				te.ok, te.why = false, "assignment form"
				return
			}
			f := te.field(x.Lhs[0])
			v, ok := te.strExpr(p, x.Rhs[0])
			if f == "" || !ok {
				te.ok, te.why = false, "assignment is not field = constant [+ field]"
				return
			}
			te.set(p, f, v)
		default:
			te.ok, te.why = false, fmt.Sprintf("statement %T is outside the table language", s)
			return
		}
	}
}

// tableConstants collects every string constant of the table, per field it is compared with or
// assigned to.
func tableConstants(info *types.Info, body *ast.BlockStmt) []string {
	set := map[string]bool{"": true}
	ast.Inspect(body, func(n ast.Node) bool {
		if e, ok := n.(ast.Expr); ok {
			if tv, ok := info.Types[e]; ok && tv.Value != nil && tv.Value.Kind() == constant.String {
				set[constant.StringVal(tv.Value)] = true
			}
		}
		return true
	})
	var out []string
	for s := range set {
		out = append(out, s)
	}
	sort.Strings(out)
	return out
}

func runC16(p *core.Prog, r *core.Report) {
	const rule = "C16.R1"
	r.Rule(rule, "alias table: documented aliases map to the canonical value; every tuple the table produces is a fixed point; every architecture alias is known to the arch-only parser", 12)
	pt := p.Named("types/platform", "Platform")
	if pt == nil {
		r.MissingAnchor(rule, "types/platform.Platform")
		return
	}
	fn := p.MethodOf(pt, "normalize")
	syn := p.Syntax(fn)
	if fn == nil || syn == nil || syn.Decl == nil || syn.Decl.Recv == nil || len(syn.Decl.Recv.List[0].Names) == 0 {
		r.MissingAnchor(rule, "types/platform.(*Platform).normalize")
		return
	}
	info := syn.Pkg.TypesInfo
	recv := info.Defs[syn.Decl.Recv.List[0].Names[0]]
	fname := p.FuncName(fn)
	eval := func(in plat) (plat, bool, string) {
		te := &tableEval{info: info, recv: recv, ok: true}
		out := in
		te.stmts(&out, syn.Decl.Body.List)
		return out, te.ok, te.why
	}
	if _, ok, why := eval(plat{"linux", "amd64", ""}); !ok {
		r.Undecided(rule, fname, "table language", p.Pos(fn.Pos()), "the normaliser is no longer a pure switch table: "+why)
		return
	}
	// (1) documented aliases
	type alias struct {
		in, want plat
		doc      string
	}
	for _, a := range []alias{
		{plat{"linux", "x86_64", ""}, plat{"linux", "amd64", ""}, "x86_64 → amd64"},
		{plat{"linux", "x86-64", ""}, plat{"linux", "amd64", ""}, "x86-64 → amd64"},
		{plat{"linux", "aarch64", ""}, plat{"linux", "arm64", ""}, "aarch64 → arm64"},
		{plat{"linux", "armhf", ""}, plat{"linux", "arm", "v7"}, "armhf → arm/v7"},
		{plat{"linux", "armel", ""}, plat{"linux", "arm", "v6"}, "armel → arm/v6"},
		{plat{"linux", "i386", ""}, plat{"linux", "386", ""}, "i386 → 386"},
		{plat{"macos", "arm64", ""}, plat{"darwin", "arm64", ""}, "macos → darwin"},
		{plat{"linux", "arm64", "v8"}, plat{"linux", "arm64", ""}, "arm64/v8 → arm64"},
		{plat{"linux", "amd64", "v1"}, plat{"linux", "amd64", ""}, "amd64/v1 → amd64"},
		{plat{"linux", "arm", ""}, plat{"linux", "arm", "v7"}, "arm → arm/v7"},
	} {
		got, _, _ := eval(a.in)
		r.Check(got == a.want, rule, fname, "alias "+a.doc, p.Pos(fn.Pos()), fmt.Sprintf("table maps %v to %v, documented %v", a.in, got, a.want))
	}
	// (2) idempotence over the whole finite abstraction: every combination of the table's constants plus one
	// value outside it per field
	consts := append(tableConstants(info, syn.Decl.Body), "\x00other")
	bad := ""
	n := 0
	for _, o := range consts {
		for _, a := range consts {
			for _, v := range consts {
				in := plat{o, a, v}
				once, ok1, _ := eval(in)
				twice, ok2, _ := eval(once)
				n++
				if !ok1 || !ok2 || once != twice {
					bad = fmt.Sprintf("%q/%q/%q → %q/%q/%q → %q/%q/%q", in.os, in.arch, in.variant, once.os, once.arch, once.variant, twice.os, twice.arch, twice.variant)
				}
			}
		}
	}
	if bad == "" {
		r.Held(rule, fname, "normal form is a fixed point", p.Pos(fn.Pos()), fmt.Sprintf("%d tuples over the table's %d constants (plus one unknown value per field): normalising twice equals normalising once", n, len(consts)-1))
	} else {
		r.Violated(rule, fname, "normal form is a fixed point", p.Pos(fn.Pos()), "normalising is not idempotent: "+bad+" (a printed platform would re-parse to something else)")
	}
	// (3) arch aliases known to the arch-only parser
	ka := p.Func("types/platform", "knownArch")
	if ka == nil {
		r.MissingAnchor(rule, "types/platform.knownArch")
	} else {
		known := map[string]bool{}
		for _, b := range ka.Blocks {
			for _, in := range b.Instrs {
				if bo, ok := in.(*ssa.BinOp); ok && bo.Op == token.EQL {
					if s, isK := core.ConstString(bo.Y); isK {
						known[s] = true
					}
				}
			}
		}
		// architecture cases of the table: constants that appear in a case of the Architecture switch
		var missing []string
		ast.Inspect(syn.Decl.Body, func(nd ast.Node) bool {
			sw, ok := nd.(*ast.SwitchStmt)
			if !ok || sw.Tag == nil {
				return true
			}
			if se, ok := sw.Tag.(*ast.SelectorExpr); !ok || se.Sel.Name != "Architecture" {
				return true
			}
			for _, cl := range sw.Body.List {
				for _, ce := range cl.(*ast.CaseClause).List {
					if tv, ok := info.Types[ce]; ok && tv.Value != nil {
						if s := constant.StringVal(tv.Value); !known[s] {
							missing = append(missing, s)
						}
					}
				}
			}
			return false
		})
		r.Check(len(missing) == 0, rule, p.FuncName(ka), "architecture aliases parse alone", p.Pos(ka.Pos()), "aliases not accepted as an architecture-only platform string: "+strings.Join(missing, ", "))
	}
	c16R2(p, r, fn)
}

// c16R2: a Platform parameter is normalised before it is stored into the comparator (or any struct).
func c16R2(p *core.Prog, r *core.Report, norm *ssa.Function) {
	const rule = "C16.R2"
	r.Rule(rule, "normalise before use: a platform parameter stored into the comparator is loaded after normalize() ran on it", 1)
	n := 0
	for _, fn := range pkgFuncs(p, "types/platform") {
		if fn == norm {
			continue
		}
		for _, fs := range fieldStores([]*ssa.Function{fn}, func(nn *types.Named, f string) bool { return nn.Obj().Name() == "compare" }) {
			if !core.IsModNamed(fs.Store.Val.Type(), "types/platform", "Platform") {
				continue
			}
			n++
			// the stored value: a load of the parameter's cell
			ld, ok := fs.Store.Val.(*ssa.UnOp)
			ok2 := false
			detail := "the stored platform is not a local copy of the parameter"
			if ok {
				if cell, isCell := ld.X.(*ssa.Alloc); isCell {
					detail = "normalize() is not called on the platform before it is copied into the comparator: a requested platform spelled with an alias (or arm without variant) never matches a canonical entry"
					core.Calls(fn, func(c ssa.CallInstruction) {
						if core.CalleeFn(c) == norm && c.Common().Args[0] == ssa.Value(cell) && core.DominatesInstr(c.(ssa.Instruction), ld) {
							ok2 = true
							detail = "normalised first"
						}
					})
				}
			}
			r.Check(ok2, rule, p.FuncName(fn), "comparator host normalised", p.Pos(fs.Store.Pos()), detail)
		}
	}
	if n == 0 {
		r.Undecided(rule, "types/platform", "comparator host", "-", "no store of a Platform into the comparator found")
	}
}

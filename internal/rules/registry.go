// Package rules holds one file per property. Each rule enumerates its sites through types and
// roles (never by text or position) and records one obligation per site.
package rules

import (
	"sort"

	"verif/internal/core"
)

// Spec describes the check of one property.
type Spec struct {
	ID          string
	Decides     string   // what the static rules decide (structural necessary conditions)
	NotCovered  string   // clauses of the property that are not decided
	Assumptions []string // trusted base specific to the property
	Run         func(p *core.Prog, r *core.Report)
}

var registry = map[string]*Spec{}

func register(s *Spec) {
	run := s.Run
	s.Run = func(p *core.Prog, r *core.Report) {
		installRoles(p)
		run(p, r)
	}
	s.Decides += decidesExtra[s.ID]
	registry[s.ID] = s
}

// Get returns the spec of a property.
func Get(id string) *Spec { return registry[id] }

// IDs lists the registered properties.
func IDs() []string {
	var ids []string
	for id := range registry {
		ids = append(ids, id)
	}
	sort.Strings(ids)
	return ids
}

// CommonAssumptions is the trusted base shared by all checks (DESIGN.md §2.8).
var CommonAssumptions = []string{
	"go/types, go/ssa, go/packages of golang.org/x/tools v0.29.0 and the Go front end are correct",
	"the analysed packages use no reflect calls on functions, no unsafe, no cgo and no go:linkname (checked by the loader guard)",
	"standard-library and third-party functions behave as documented (os.Rename atomic within a directory, filepath.Clean of a rooted path has no .. element, digest.Validate restricts the alphabet)",
	"dynamic calls are resolved by class hierarchy restricted to module-defined types; callbacks stored by third-party code are separate entry points",
	"test files are not analysed; js/wasm does not type-check offline and is excluded",
}

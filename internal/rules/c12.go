package rules

import (
	"fmt"
	"go/token"
	"go/types"
	"slices"
	"sort"
	"strings"

	"golang.org/x/tools/go/ssa"

	"verif/internal/core"
)

func init() {
	register(&Spec{
		ID: "C12",
		Decides: "every reghttp.Req literal with a state-changing method carries NoMirrors; mirrors are only added under !NoMirrors; " +
			"every loop in reghttp/auth/scheme-reg that can repeat an HTTP request is range-bounded, counter-bounded or a listed pager; " +
			"the retry counter is incremented and tested on every cycle of the host loop and decremented only by Seek; " +
			"the chunk-upload loop tests its retry counter on every non-progress cycle; " +
			"the mirror-order comparator is evaluated abstractly over all consistent orderings of its atoms and compared with the documented order; " +
			"a throttle slot stored in the response is released before the host loop acquires a new one.",
		NotCovered: "back-off durations and Retry-After (time), the status classification table's semantics, that absorbed faults yield the correct result, whether mirrors hold the content.",
		Run:        runC12,
	})
}

func runC12(p *core.Prog, r *core.Report) {
	c12R1(p, r)
	c12R2(p, r)
	c12R3(p, r)
	c12R4(p, r)
	c12R5(p, r)
	c12R6(p, r, "C12.R6")
	c12R7(p, r)
	c12R8(p, r)
	// a transient fault on an upload is absorbed by sending the body again: the copy hands over a source that can rewind (shared with C05.R6)
	c05R6(p, r, "C12.R9")
	transportRetryRule(p, r, "C12.R10")
	c12R11(p, r)
	// what is sent again must still be readable (shared with C05.R10)
	readKeepsSourceRule(p, r, "C12.R12")
	c12R13(p, r)
	c12R14(p, r)
}

// c12R8: a body that ends early is recognised, and resumed with a Range request, only when the
// request said how long the body should be. The blob download passes the descriptor's size.
func c12R8(p *core.Prog, r *core.Report) {
	const rule = "C12.R8"
	r.Rule(rule, "downloads can be resumed: every GET request the registry scheme's BlobGet builds sets ExpectLen from a non-constant value (the descriptor size); without it a truncated chunked body is taken for the whole blob and the single transient fault is not absorbed", 1)
	fn := p.Method("scheme/reg", "Reg", "BlobGet")
	if fn == nil {
		r.MissingAnchor(rule, "scheme/reg.(*Reg).BlobGet")
		return
	}
	unit := core.Helpers(fn, 2)
	n := 0
	lab := map[*ssa.Function]labeler{}
	for _, lit := range reqLiterals(p) {
		if !unit[lit.Fn] || !lit.MethodOK || !strings.Contains(lit.Method, "GET") {
			continue
		}
		n++
		if lab[lit.Fn] == nil {
			lab[lit.Fn] = labeler{}
		}
		v := lit.Fields["ExpectLen"]
		_, isConst := v.(*ssa.Const)
		r.Check(v != nil && !isConst, rule, p.FuncName(lit.Fn), lab[lit.Fn].next("blob GET declares its length"), p.Pos(lit.Alloc.Pos()), "the request does not set ExpectLen: the response reader cannot tell a body that was cut off from a complete one, so a dropped connection ends the download with an error (or a short blob) instead of a Range request for the rest")
	}
	if n == 0 {
		r.MissingAnchor(rule, "GET request literals of scheme/reg BlobGet")
	}
}

// reqLiteral is a reghttp.Req allocation with the constant fields the literal (and later direct
// stores) assign.
type reqLiteral struct {
	Fn        *ssa.Function
	Alloc     *ssa.Alloc
	Method    string
	MethodOK  bool
	NoMirrors ssa.Value
	Fields    map[string]ssa.Value
}

func reqLiterals(p *core.Prog) []reqLiteral {
	var out []reqLiteral
	isReqCell := func(v ssa.Value) (*ssa.Alloc, bool) {
		al, ok := v.(*ssa.Alloc)
		if !ok {
			return nil, false
		}
		pt, ok := al.Type().(*types.Pointer)
		if !ok || !core.IsModNamed(pt.Elem(), "internal/reghttp", "Req") {
			return nil, false
		}
		if _, isPtr := pt.Elem().(*types.Pointer); isPtr {
			return nil, false
		}
		return al, true
	}
	// the field stores of a cell; a whole-struct copy from another Req cell (`req := common`) brings
	// that cell's fields with it, later field stores override them
	var fieldsOf func(al *ssa.Alloc, depth int) map[string]ssa.Value
	fieldsOf = func(al *ssa.Alloc, depth int) map[string]ssa.Value {
		fields := map[string]ssa.Value{}
		for _, ref := range *al.Referrers() {
			if st, ok := ref.(*ssa.Store); ok && st.Addr == ssa.Value(al) && depth < 3 {
				if ld, ok := st.Val.(*ssa.UnOp); ok && ld.Op == token.MUL {
					if src, ok := isReqCell(ld.X); ok && src != al {
						for k, v := range fieldsOf(src, depth+1) {
							fields[k] = v
						}
					}
				}
			}
		}
		own := map[string]bool{}
		for _, ref := range *al.Referrers() {
			fa, ok := ref.(*ssa.FieldAddr)
			if !ok {
				continue
			}
			name := core.FieldName(fa.X.Type(), fa.Field)
			for _, r2 := range *fa.Referrers() {
				if st, ok := r2.(*ssa.Store); ok && st.Addr == fa {
					if own[name] {
						fields[name+"#dup"] = st.Val
					}
					own[name] = true
					fields[name] = st.Val
				}
			}
		}
		return fields
	}
	units := map[*types.Package]map[*ssa.Function]bool{}
	for _, fn := range p.ModFuncs {
		for _, b := range fn.Blocks {
			for _, in := range b.Instrs {
				al, ok := isReqCell(valueOf(in))
				if !ok {
					continue
				}
				lit := reqLiteral{Fn: fn, Alloc: al, Fields: fieldsOf(al, 0)}
				if m, ok := lit.Fields["Method"]; ok {
					lit.Method, lit.MethodOK = core.ConstString(m)
					if !lit.MethodOK {
						// a method handed in by the package's own callers: every value it can have
						pk := core.FuncPkg(fn)
						if units[pk] == nil {
							units[pk] = map[*ssa.Function]bool{}
							for _, f := range p.ModFuncs {
								if core.FuncPkg(f) == pk {
									units[pk][f] = true
								}
							}
						}
						var ms []string
						all := true
						for _, o := range core.Origins(m, core.SliceOpts{Helpers: units[pk], Callers: units[pk]}) {
							if c, isC := core.ConstString(o.Val); o.Kind == core.OConst && isC {
								ms = append(ms, c)
							} else {
								all = false
							}
						}
						if all && len(ms) > 0 {
							sort.Strings(ms)
							ms = slices.Compact(ms)
							lit.Method, lit.MethodOK = strings.Join(ms, "|"), true
						}
					}
				}
				lit.NoMirrors = lit.Fields["NoMirrors"]
				out = append(out, lit)
			}
		}
	}
	return out
}

func valueOf(in ssa.Instruction) ssa.Value {
	v, _ := in.(ssa.Value)
	return v
}

// readMethod reports whether every method the literal can carry is a read.
func readMethod(m string) bool {
	for _, x := range strings.Split(m, "|") {
		if !readMethods[x] {
			return false
		}
	}
	return true
}

var readMethods = map[string]bool{"GET": true, "HEAD": true}

func c12R1(p *core.Prog, r *core.Report) {
	const rule = "C12.R1"
	r.Rule(rule, "every reghttp.Req literal whose constant Method is not GET/HEAD sets NoMirrors: true (state-changing requests go only to the named registry)", 23)
	lab := labeler{}
	mut := 0
	for _, lit := range reqLiterals(p) {
		fn := p.FuncName(lit.Fn)
		pos := p.Pos(lit.Alloc.Pos())
		if !lit.MethodOK {
			// A Req copied from another value or with a computed method cannot be classified.
			if _, has := lit.Fields["Method"]; !has && len(lit.Fields) == 0 {
				// bare allocation that is the target of a whole-struct copy: find whole stores
				r.Undecided(rule, fn, lab.next(fn+"|Req{Method:?}"), pos, "reghttp.Req value without field-wise construction: method cannot be determined statically")
				continue
			}
			r.Undecided(rule, fn, lab.next(fn + "|Req{Method:?}")[len(fn)+1:], pos, "reghttp.Req with a non-constant or missing Method: cannot classify the request as read or write")
			continue
		}
		label := lab.next(fn + "|Req{Method:" + lit.Method + "}")[len(fn)+1:]
		if readMethod(lit.Method) {
			r.Held(rule, fn, label, pos, "read request; mirrors allowed")
			continue
		}
		mut++
		nm, isConst := false, false
		if lit.NoMirrors != nil {
			nm, isConst = core.ConstBool(lit.NoMirrors)
		}
		_, dup := lit.Fields["NoMirrors#dup"]
		switch {
		case lit.NoMirrors == nil:
			r.Violated(rule, fn, label, pos, "state-changing request ("+lit.Method+") built without NoMirrors: with mirrors configured it is sent to a mirror instead of the registry named in the reference")
		case !isConst || dup:
			r.Undecided(rule, fn, label, pos, "NoMirrors is not a single constant store for this "+lit.Method+" request")
		case !nm:
			r.Violated(rule, fn, label, pos, "state-changing request ("+lit.Method+") sets NoMirrors: false")
		default:
			r.Held(rule, fn, label, pos, "NoMirrors: true")
		}
	}
	if mut < 5 {
		r.Undecided(rule, "-", "mutating-literal floor", "-", fmt.Sprintf("only %d state-changing Req literals found (10 on the tree the rule was written for)", mut))
	}
}

func c12R2(p *core.Prog, r *core.Report) {
	const rule = "C12.R2"
	r.Rule(rule, "in internal/reghttp every getHost call whose argument is not a request's own Host is guarded by the false edge of req.NoMirrors", 2)
	next := p.Method("internal/reghttp", "Resp", "next")
	if next == nil {
		r.MissingAnchor(rule, "internal/reghttp.(*Resp).next")
		return
	}
	lab := labeler{}
	// next, its literals, and the unexported helpers they call that build the host list (functions that
	// only look a host up to read its state — backoff bookkeeping — do not add to the list)
	scope := map[*ssa.Function]bool{}
	for _, f := range core.WithAnon(next) {
		scope[f] = true
		for h := range core.Helpers(f, 1) {
			// a helper counts when it returns host entries
			res := h.Signature.Results()
			for i := 0; i < res.Len(); i++ {
				t := res.At(i).Type()
				if sl, ok := t.Underlying().(*types.Slice); ok {
					t = sl.Elem()
				}
				if core.IsModNamed(t, "internal/reghttp", "clientHost") && canon(h) != "getHost" {
					scope[h] = true
				}
			}
		}
	}
	for _, f := range sortedFuncs(scope) {
		fn := p.FuncName(f)
		for _, c := range core.CallsTo(f, func(cal *types.Func) bool {
			return cal.Pkg() != nil && cal.Pkg().Path() == modPath("internal/reghttp") && canonObj(cal) == "getHost"
		}) {
			arg := core.CallArg(c, 1)
			os := core.Origins(arg, core.SliceOpts{})
			own := core.AllOrigins(os, func(o core.Origin) bool { return o.Kind == core.OField && o.Field == "Host" })
			if own {
				r.Held(rule, fn, lab.next("getHost(req.Host)"), p.Pos(c.Pos()), "the request's own registry")
				continue
			}
			ok := guardedBy(c.Block(), false, func(v ssa.Value) bool {
				return fieldLoadOf(v, modPath("internal/reghttp"), "Req", "NoMirrors")
			})
			var ds []string
			for _, o := range os {
				ds = append(ds, o.Describe())
			}
			r.Check(ok, rule, fn, lab.next("getHost(other)"), p.Pos(c.Pos()),
				"host taken from "+strings.Join(ds, ",")+"; must only be consulted when the request allows mirrors")
		}
	}
	// every append to the host list other than the request's own host is also behind the guard:
	// covered by the above because mirror hosts can only be produced by getHost.
}

// ---------------------------------------------------------------------------------------------
// R3: every request-repeating loop is bounded

// pagers lists loops that exit only when the server returns no further page. Each iteration is a
// new logical request for a new page, not a retry. Keyed by function; reason is part of the report.
var c12Pagers = map[string]string{
	"scheme/reg.(*Reg).TagList":           "tag listing pager: follows Link rel=next until the server stops sending one",
	"scheme/reg.(*Reg).referrerListByAPI": "referrers API pager: follows Link rel=next until the server stops sending one",
}

func c12R3(p *core.Prog, r *core.Report) {
	const rule = "C12.R3"
	r.Rule(rule, "every natural loop in internal/reghttp, internal/auth, scheme/reg whose body can issue an HTTP request is (a) a range loop, (b) counter-bounded on every cycle, (c) a listed pager, or (d) the chunk loop whose non-progress cycles all increment and test the retry counter", 5)
	doers := httpDoers(p)
	if len(doers) == 0 {
		r.MissingAnchor(rule, "callers of net/http.(*Client).Do")
		return
	}
	reach := reachers(p, doers)
	rels := []string{"internal/reghttp", "internal/auth", "scheme/reg"}
	for _, rel := range rels {
		for _, fn := range pkgFuncs(p, rel) {
			lab := labeler{}
			for _, l := range core.Loops(fn) {
				var via *ssa.Function
				var viaPos token.Pos
				l.Instrs(func(in ssa.Instruction) {
					if via != nil {
						return
					}
					if f := instrRefs(p, in, reach); f != nil {
						via, viaPos = f, in.Pos()
					}
				})
				if via == nil {
					continue
				}
				fname := p.FuncName(fn)
				label := lab.next("loop:" + l.Header.Comment)
				pos := p.Pos(loopPos(l))
				detail := "requests via " + p.FuncName(via) + " at " + p.Pos(viaPos)
				// (a) range loop over something not grown in the body
				if strings.HasPrefix(l.Header.Comment, "range") {
					r.Held(rule, fname, label, pos, "(a) range loop: bounded by the ranged value; "+detail)
					continue
				}
				// (c) listed pager
				if why, ok := c12Pagers[strings.TrimSuffix(fname, fn.Name())+canon(fn)]; ok {
					if okp, d := pagerShape(p, l); okp {
						r.Held(rule, fname, label, pos, "(c) "+why+"; "+d+"; "+detail)
					} else {
						r.Violated(rule, fname, label, pos, "listed pager no longer has pager shape: "+d)
					}
					continue
				}
				// (d) chunk loop
				if canon(fn) == "blobPutUploadChunked" {
					c12ChunkLoop(p, r, rule, fn, l, label, pos)
					continue
				}
				// (b) counter-bounded
				if ok, d := counterBounded(p, l); ok {
					r.Held(rule, fname, label, pos, "(b) "+d+"; "+detail)
					continue
				} else {
					r.Violated(rule, fname, label, pos, "loop can repeat an HTTP request and is not range-bounded, counter-bounded or a listed pager ("+d+"); "+detail)
				}
			}
		}
	}
}

func loopPos(l *core.Loop) token.Pos {
	best := token.NoPos
	l.Instrs(func(in ssa.Instruction) {
		if p := in.Pos(); p.IsValid() && (best == token.NoPos || p < best) {
			best = p
		}
	})
	return best
}

// counterBounded: there is a counter (local phi/cell or struct field) that is incremented on every
// cycle (the increment's block lies on every path from header back to header) and an exit edge,
// passed by every cycle, whose condition compares that counter with a value not written in the loop.
func counterBounded(p *core.Prog, l *core.Loop) (bool, string) {
	// candidate exits: If blocks inside the loop with one successor leaving the loop (directly or via
	// a block that only returns), whose condition is an ordered comparison.
	type cand struct {
		ifb  *ssa.BasicBlock
		cmp  *ssa.BinOp
		desc string
	}
	var why []string
	for b := range l.Blocks {
		ifi, ok := core.LastInstr(b).(*ssa.If)
		if !ok {
			continue
		}
		exits := false
		for _, s := range b.Succs {
			if !l.Blocks[s] {
				exits = true
			}
		}
		if !exits {
			continue
		}
		cmp, ok := ifi.Cond.(*ssa.BinOp)
		if !ok {
			continue
		}
		switch cmp.Op {
		case token.GTR, token.GEQ, token.LSS, token.LEQ:
		default:
			continue
		}
		if !onEveryCycle(l, b) {
			why = append(why, "comparison at "+p.Pos(cmp.Pos())+" is not on every cycle")
			continue
		}
		for _, side := range []struct{ ctr, lim ssa.Value }{{cmp.X, cmp.Y}, {cmp.Y, cmp.X}} {
			if !loopInvariant(l, side.lim) {
				continue
			}
			if ok, d := incrementedEveryCycle(p, l, side.ctr); ok {
				return true, "counter " + d + " compared with a loop-invariant limit at " + p.Pos(cmp.Pos()) + " on every cycle"
			} else if d != "" {
				why = append(why, d)
			}
		}
	}
	if len(why) == 0 {
		why = append(why, "no exit comparing a per-cycle counter with an invariant limit")
	}
	sort.Strings(why)
	return false, strings.Join(why, "; ")
}

// onEveryCycle: block x lies on every cycle of the loop, i.e. removing x leaves no path from the
// header's successors (inside the loop) back to the header.
func onEveryCycle(l *core.Loop, x *ssa.BasicBlock) bool {
	if x == l.Header {
		return true
	}
	seen := map[*ssa.BasicBlock]bool{x: true}
	stack := []*ssa.BasicBlock{}
	for _, s := range l.Header.Succs {
		if l.Blocks[s] {
			stack = append(stack, s)
		}
	}
	for len(stack) > 0 {
		b := stack[len(stack)-1]
		stack = stack[:len(stack)-1]
		if b == l.Header {
			return false
		}
		if seen[b] {
			continue
		}
		seen[b] = true
		for _, s := range b.Succs {
			if l.Blocks[s] {
				stack = append(stack, s)
			}
		}
	}
	return true
}

func loopInvariant(l *core.Loop, v ssa.Value) bool {
	switch x := v.(type) {
	case *ssa.Const, *ssa.Parameter, *ssa.FreeVar, *ssa.Global:
		return true
	case *ssa.UnOp:
		if x.Op == token.MUL {
			// load of a field/cell: invariant if nothing in the loop stores to the same field/cell
			switch a := x.X.(type) {
			case *ssa.FieldAddr:
				n, f := core.FieldAddrInfo(a)
				stored := false
				for _, fn := range core.WithAnon(l.Fn) {
					for _, fs := range fieldStores([]*ssa.Function{fn}, func(n2 *types.Named, f2 string) bool { return n2 == n && f2 == f }) {
						_ = fs
						stored = true
					}
				}
				return !stored
			case *ssa.Alloc:
				for _, st := range core.StoresToCell(a) {
					if st.Parent() != l.Fn || l.Blocks[st.Block()] {
						return false
					}
				}
				return true
			case *ssa.FreeVar:
				return false
			}
		}
	}
	if c, ok := v.(*ssa.Call); ok {
		// len/cap of something the loop does not change
		if b, ok := c.Call.Value.(*ssa.Builtin); ok && (b.Name() == "len" || b.Name() == "cap") && len(c.Call.Args) == 1 {
			if loopInvariant(l, c.Call.Args[0]) {
				return true
			}
		}
	}
	if in, ok := v.(ssa.Instruction); ok {
		return !l.Blocks[in.Block()]
	}
	return false
}

// incrementedEveryCycle recognises ctr as (1) a header phi whose back-edge values are ctr+c (c>0)
// on every latch, (2) a load of a struct field that is stored with (load field)+c in a block on
// every cycle and never otherwise stored in the loop, (3) a load of a local cell likewise.
func incrementedEveryCycle(p *core.Prog, l *core.Loop, ctr ssa.Value) (bool, string) {
	return incrementedEveryCycleOpt(p, l, ctr, true)
}

// incrementedEveryCycleOpt with strict=false ignores other stores to the counter (used to identify
// the counter; the other stores are then judged one by one by C12.R4).
func incrementedEveryCycleOpt(p *core.Prog, l *core.Loop, ctr ssa.Value, strict bool) (bool, string) {
	isInc := func(v ssa.Value, same func(ssa.Value) bool) bool {
		bo, ok := v.(*ssa.BinOp)
		if !ok || bo.Op != token.ADD {
			return false
		}
		if c, ok := core.ConstInt(bo.Y); ok && c > 0 && same(bo.X) {
			return true
		}
		return false
	}
	switch x := ctr.(type) {
	case *ssa.Phi:
		if x.Block() != l.Header {
			return false, ""
		}
		for i, pred := range l.Header.Preds {
			if !l.Blocks[pred] {
				continue
			}
			if !isInc(x.Edges[i], func(v ssa.Value) bool { return v == x }) {
				return false, "phi " + x.Name() + " is not incremented on every back edge"
			}
		}
		return true, x.Comment
	case *ssa.BinOp:
		// the compared value may be the already incremented counter
		if x.Op == token.ADD {
			if c, ok := core.ConstInt(x.Y); ok && c > 0 {
				return incrementedEveryCycleOpt(p, l, x.X, strict)
			}
		}
	case *ssa.UnOp:
		if x.Op != token.MUL {
			return false, ""
		}
		switch a := x.X.(type) {
		case *ssa.FieldAddr:
			n, f := core.FieldAddrInfo(a)
			var incOK, other bool
			for _, fs := range fieldStores(core.WithAnon(l.Fn), func(n2 *types.Named, f2 string) bool { return n2 == n && f2 == f }) {
				if fs.Fn != l.Fn || !l.Blocks[fs.Store.Block()] {
					if fs.Fn != l.Fn {
						other = true
					}
					continue
				}
				if isInc(fs.Store.Val, func(v ssa.Value) bool { return fieldLoadSame(v, n, f) }) && onEveryCycle(l, fs.Store.Block()) {
					incOK = true
				} else {
					other = true
				}
			}
			if incOK && (!other || !strict) {
				return true, "field " + n.Obj().Name() + "." + f
			}
			return false, "field " + f + " is not incremented exactly once on every cycle"
		case *ssa.Alloc:
			var incOK, other bool
			for _, st := range core.StoresToCell(a) {
				if st.Parent() != l.Fn || !l.Blocks[st.Block()] {
					if st.Parent() != l.Fn {
						other = true
					}
					continue
				}
				if isInc(st.Val, func(v ssa.Value) bool {
					u, ok := v.(*ssa.UnOp)
					return ok && u.Op == token.MUL && u.X == a
				}) && onEveryCycle(l, st.Block()) {
					incOK = true
				} else {
					other = true
				}
			}
			if incOK && !other {
				return true, "local " + a.Comment
			}
			return false, "local " + a.Comment + " is not incremented exactly once on every cycle"
		}
	}
	return false, ""
}

func fieldLoadSame(v ssa.Value, n *types.Named, f string) bool {
	u, ok := v.(*ssa.UnOp)
	if !ok || u.Op != token.MUL {
		return false
	}
	fa, ok := u.X.(*ssa.FieldAddr)
	if !ok {
		return false
	}
	n2, f2 := core.FieldAddrInfo(fa)
	return n2 == n && f2 == f
}

// pagerShape: a listed pager must still handle the Link header: the loop body (or a module function
// it references, transitively) calls into internal/httplink, and the loop has an exit edge whose
// condition is a nil test (no next link / error).
func pagerShape(p *core.Prog, l *core.Loop) (bool, string) {
	link := map[*ssa.Function]bool{}
	for _, fn := range pkgFuncs(p, "internal/httplink") {
		link[fn] = true
	}
	toLink := reachers(p, link)
	hasLink := false
	l.Instrs(func(in ssa.Instruction) {
		if instrRefs(p, in, toLink) != nil {
			hasLink = true
		}
	})
	if !hasLink {
		return false, "no Link header handling (internal/httplink) reachable from the loop body"
	}
	nilExit := false
	for _, e := range l.Exits() {
		if ifi, ok := core.LastInstr(e[0]).(*ssa.If); ok {
			if _, _, ok := errCmpNil(ifi.Cond); ok {
				nilExit = true
			}
		}
	}
	if !nilExit {
		return false, "no exit edge decided by a nil test (absent next link)"
	}
	return true, "loop follows the Link header and exits on a nil test"
}

// c12ChunkLoop: in the outer chunk loop every increment of the retry counter is followed, before
// the next request can be issued, by a comparison of the counter with the limit whose failing edge
// leaves the function.
func c12ChunkLoop(p *core.Prog, r *core.Report, rule string, fn *ssa.Function, l *core.Loop, label, pos string) {
	fname := p.FuncName(fn)
	// the retry budget: a local integer that the loop steps by a constant and compares (ordered) on a
	// branch one side of which leaves the function. Which direction consumes the budget is read off the
	// comparison: `v > limit` leaving on true means counting up, `v < 0` leaving on true counting down.
	type incSite struct {
		st   *ssa.Store
		cell *ssa.Alloc
	}
	leavesFn := func(b *ssa.BasicBlock) bool {
		_, isRet := core.LastInstr(b).(*ssa.Return)
		return isRet
	}
	// consuming direction per cell / per header phi: +1 up, -1 down, 0 unknown
	cellDir := map[*ssa.Alloc]int{}
	phiDir := map[*ssa.Phi]int{}
	loadOfCell := func(v ssa.Value) *ssa.Alloc {
		if u, ok := v.(*ssa.UnOp); ok && u.Op == token.MUL {
			if al, ok := u.X.(*ssa.Alloc); ok {
				return al
			}
		}
		return nil
	}
	headerPhiOf := func(v ssa.Value) *ssa.Phi {
		// the header phi a value is, or is a ±const step of
		for d := 0; d < 3 && v != nil; d++ {
			switch x := v.(type) {
			case *ssa.Phi:
				if l.Blocks[x.Block()] {
					return x
				}
				return nil
			case *ssa.BinOp:
				if _, isK := core.ConstInt(x.Y); isK && (x.Op == token.ADD || x.Op == token.SUB) {
					v = x.X
					continue
				}
				return nil
			default:
				return nil
			}
		}
		return nil
	}
	for blk := range l.Blocks {
		ifi, ok := core.LastInstr(blk).(*ssa.If)
		if !ok {
			continue
		}
		cnd, pol := core.StripNot(ifi.Cond, true)
		bo, ok := cnd.(*ssa.BinOp)
		if !ok {
			continue
		}
		var up bool // the comparison is true when the left operand is large
		switch bo.Op {
		case token.GTR, token.GEQ:
			up = true
		case token.LSS, token.LEQ:
			up = false
		default:
			continue
		}
		// the edge that leaves the function
		exitTrue := leavesFn(blk.Succs[0])
		exitFalse := leavesFn(blk.Succs[1])
		if exitTrue == exitFalse {
			continue
		}
		exitWhenCondTrue := exitTrue == pol
		for side, v := range []ssa.Value{bo.X, bo.Y} {
			// the variable is on the left (side 0) or on the right (side 1): a large left operand makes
			// `>` true; for the right operand the sense is reversed
			grows := up == exitWhenCondTrue
			if side == 1 {
				grows = !grows
			}
			dir := -1
			if grows {
				dir = 1
			}
			if al := loadOfCell(v); al != nil && types.Identical(al.Type().(*types.Pointer).Elem().Underlying(), types.Typ[types.Int]) {
				cellDir[al] = dir
			}
			if ph := headerPhiOf(v); ph != nil {
				phiDir[ph] = dir
			}
		}
	}
	var incs []incSite
	l.Instrs(func(in ssa.Instruction) {
		st, ok := in.(*ssa.Store)
		if !ok {
			return
		}
		cell, ok := st.Addr.(*ssa.Alloc)
		if !ok || cellDir[cell] == 0 {
			return
		}
		bo, ok := st.Val.(*ssa.BinOp)
		if !ok || (bo.Op != token.ADD && bo.Op != token.SUB) {
			return
		}
		if c, ok := core.ConstInt(bo.Y); !ok || c <= 0 {
			return
		}
		if loadOfCell(bo.X) != cell {
			return
		}
		if (bo.Op == token.ADD) == (cellDir[cell] == 1) {
			incs = append(incs, incSite{st, cell})
		}
	})
	// go/ssa keeps the counter as a phi when no closure captures it
	var phiIncs []*ssa.BinOp
	l.Instrs(func(in ssa.Instruction) {
		bo, ok := in.(*ssa.BinOp)
		if !ok || (bo.Op != token.ADD && bo.Op != token.SUB) {
			return
		}
		if c, ok := core.ConstInt(bo.Y); !ok || c <= 0 {
			return
		}
		ph := headerPhiOf(bo.X)
		if ph == nil || phiDir[ph] == 0 || !types.Identical(bo.Type().Underlying(), types.Typ[types.Int]) {
			return
		}
		if (bo.Op == token.ADD) == (phiDir[ph] == 1) {
			phiIncs = append(phiIncs, bo)
		}
	})
	if len(incs) == 0 && len(phiIncs) == 0 {
		// inner read loop has no request; the outer loop must have the counter
		if requestsInLoopOnlyViaInner(l) {
			return
		}
		r.Violated(rule, fname, label, pos, "(d) chunk loop without a retry counter: a registry that never accepts a chunk is retried forever")
		return
	}
	doReq := func(in ssa.Instruction) bool {
		c, ok := in.(ssa.CallInstruction)
		if !ok {
			return false
		}
		cal := core.Callee(c)
		return cal != nil && core.IsModMethod(cal, "internal/reghttp", "Client", "Do")
	}
	lab := labeler{}
	check := func(at ssa.Instruction, isCounter func(ssa.Value) bool, what string) {
		// From the increment, is a PATCH (reghttp Do in the loop) reachable without passing a
		// comparison of the counter against the limit on whose "exceeded" edge the function returns?
		reach := core.Reach{
			StopEdge: func(from, to *ssa.BasicBlock) bool { return false },
			Stop: func(in ssa.Instruction) bool {
				ifi, ok := in.(*ssa.If)
				if !ok {
					return false
				}
				return condTestsCounter(ifi.Cond, isCounter)
			},
		}
		seen := reach.FromInstr(at)
		bad := false
		var badPos token.Pos
		for in := range seen {
			if doReq(in) && l.Blocks[in.Block()] && in.Parent() == fn {
				// the status request issued between increment and test is not a repeat of the chunk
				if c, ok := in.(ssa.CallInstruction); ok && isPatchDo(c) {
					bad = true
					badPos = in.Pos()
				}
			}
		}
		c := lab.next(label + " " + what)
		if bad {
			r.Violated(rule, fname, c, p.Pos(at.Pos()), "(d) retry counter incremented without a limit test before the next chunk request at "+p.Pos(badPos)+": the same chunk can be re-sent without bound")
		} else {
			r.Held(rule, fname, c, p.Pos(at.Pos()), "(d) increment is followed by a limit test before any further chunk request")
		}
	}
	for _, inc := range incs {
		cell := inc.cell
		check(inc.st, func(v ssa.Value) bool {
			u, ok := v.(*ssa.UnOp)
			return ok && u.Op == token.MUL && u.X == cell
		}, "retry++")
	}
	for _, pi := range phiIncs {
		inc := pi
		check(inc, func(v ssa.Value) bool { return v == ssa.Value(inc) }, "retry++")
	}
	// every cycle that re-sends (does not advance) must pass an increment: the branches of the
	// status switch other than 201/202 are exactly the blocks holding an increment. We check the
	// structural core: on every path from the PATCH Do to the loop header, either an increment is
	// passed or the path passes the "accepted" edge (StatusCode == 201 or the final else of != 202).
	var patch ssa.Instruction
	l.Instrs(func(in ssa.Instruction) {
		if c, ok := in.(ssa.CallInstruction); ok && isPatchDo(c) && in.Parent() == fn {
			patch = in
		}
	})
	if patch == nil {
		r.Undecided(rule, fname, label+" PATCH", pos, "(d) chunk request not found in the chunk loop")
		return
	}
	incSet := map[ssa.Instruction]bool{}
	for _, inc := range incs {
		incSet[inc.st] = true
	}
	for _, pi := range phiIncs {
		incSet[pi] = true
	}
	reach := core.Reach{
		Stop: func(in ssa.Instruction) bool { return incSet[in] },
		StopEdge: func(from, to *ssa.BasicBlock) bool {
			// accepted edges: StatusCode == 201 (true) and StatusCode != 202 (false)
			ifi, ok := core.LastInstr(from).(*ssa.If)
			if !ok {
				return false
			}
			bo, ok := ifi.Cond.(*ssa.BinOp)
			if !ok {
				return false
			}
			c, ok := core.ConstInt(bo.Y)
			if !ok || !fieldLoadOf(bo.X, "net/http", "Response", "StatusCode") {
				return false
			}
			if bo.Op == token.EQL && (c == 201 || c == 202) && to == from.Succs[0] {
				return true
			}
			if bo.Op == token.NEQ && (c == 201 || c == 202) && to == from.Succs[1] {
				return true
			}
			return false
		},
	}
	seen := reach.FromInstr(patch)
	reHeader := false
	for in := range seen {
		if in.Block() == l.Header {
			reHeader = true
		}
	}
	if reHeader {
		r.Violated(rule, fname, label+" non-progress cycle", p.Pos(patch.Pos()), "(d) a cycle that neither passes an 'accepted' status edge (201/202) nor increments the retry counter can return to the loop header")
	} else {
		r.Held(rule, fname, label+" non-progress cycle", p.Pos(patch.Pos()), "(d) every cycle passes an accepted-status edge or a retry increment")
	}
}

func requestsInLoopOnlyViaInner(l *core.Loop) bool { return false }

func chunkPhiIncrements(l *core.Loop) []*ssa.BinOp {
	var out []*ssa.BinOp
	l.Instrs(func(in ssa.Instruction) {
		bo, ok := in.(*ssa.BinOp)
		if !ok || bo.Op != token.ADD {
			return
		}
		if c, ok := core.ConstInt(bo.Y); !ok || c <= 0 {
			return
		}
		// value flows into a header phi named retry*
		for _, ref := range *bo.Referrers() {
			if ph, ok := ref.(*ssa.Phi); ok && strings.Contains(strings.ToLower(ph.Comment), "retry") {
				out = append(out, bo)
				return
			}
		}
	})
	return out
}

func condTestsCounter(c ssa.Value, isCounter func(ssa.Value) bool) bool {
	bo, ok := c.(*ssa.BinOp)
	if !ok {
		return false
	}
	switch bo.Op {
	case token.GTR, token.GEQ, token.LSS, token.LEQ:
		return isCounter(bo.X) || isCounter(bo.Y)
	}
	return false
}

func isPatchDo(c ssa.CallInstruction) bool {
	cal := core.Callee(c)
	if cal == nil || !core.IsModMethod(cal, "internal/reghttp", "Client", "Do") {
		return false
	}
	// the request argument is a Req literal with Method PATCH
	arg := core.CallArg(c, 2)
	al, ok := arg.(*ssa.Alloc)
	if !ok {
		return false
	}
	for _, ref := range *al.Referrers() {
		fa, ok := ref.(*ssa.FieldAddr)
		if !ok || core.FieldName(fa.X.Type(), fa.Field) != "Method" {
			continue
		}
		for _, r2 := range *fa.Referrers() {
			if st, ok := r2.(*ssa.Store); ok {
				if s, ok := core.ConstString(st.Val); ok && s == "PATCH" {
					return true
				}
			}
		}
	}
	return false
}

// ---------------------------------------------------------------------------------------------
// R4: retry counter write discipline

// nextCounter identifies the per-request attempt counter: the struct field that bounds the host
// loop of (*Resp).next (found by the same recogniser as R3, not by name).
func nextCounter(p *core.Prog) (*ssa.Function, *types.Named, string) {
	next := p.Method("internal/reghttp", "Resp", "next")
	if next == nil {
		return nil, nil, ""
	}
	for _, l := range core.Loops(next) {
		for b := range l.Blocks {
			ifi, ok := core.LastInstr(b).(*ssa.If)
			if !ok {
				continue
			}
			cmp, ok := ifi.Cond.(*ssa.BinOp)
			if !ok {
				continue
			}
			for _, side := range []ssa.Value{cmp.X, cmp.Y} {
				u, ok := side.(*ssa.UnOp)
				if !ok || u.Op != token.MUL {
					continue
				}
				fa, ok := u.X.(*ssa.FieldAddr)
				if !ok {
					continue
				}
				if ok, _ := incrementedEveryCycleOpt(p, l, side, false); ok {
					n, f := core.FieldAddrInfo(fa)
					return next, n, f
				}
			}
		}
	}
	return next, nil, ""
}

func c12R4(p *core.Prog, r *core.Report) {
	const rule = "C12.R4"
	r.Rule(rule, "the attempt counter of a request is only ever incremented inside the host loop; the single permitted decrement is in Seek, directly before re-entering next (a seek is not a retry)", 2)
	next, n, f := nextCounter(p)
	if next == nil {
		r.MissingAnchor(rule, "internal/reghttp.(*Resp).next")
		return
	}
	if n == nil {
		r.Undecided(rule, p.FuncName(next), "attempt counter", p.Pos(next.Pos()), "no per-cycle counter field compared with a limit found in the host loop (see C12.R3)")
		return
	}
	seek := p.Method("internal/reghttp", "Resp", "Seek")
	lab := labeler{}
	for _, fs := range fieldStores(p.ModFuncs, func(n2 *types.Named, f2 string) bool { return n2 == n && f2 == f }) {
		fname := p.FuncName(fs.Fn)
		pos := p.Pos(fs.Store.Pos())
		bo, isBin := fs.Store.Val.(*ssa.BinOp)
		delta := int64(0)
		if isBin && fieldLoadSame(bo.X, n, f) {
			if c, ok := core.ConstInt(bo.Y); ok {
				switch bo.Op {
				case token.ADD:
					delta = c
				case token.SUB:
					delta = -c
				}
			}
		}
		switch {
		case delta > 0:
			r.Check(fs.Fn == next, rule, fname, lab.next(fname + "|" + f + "++")[len(fname)+1:], pos, "increment of the attempt counter (expected only in the host loop)")
		case delta < 0:
			ok := seek != nil && fs.Fn == seek
			detail := "decrement of the attempt counter outside Seek: a request path that gives attempts back can exceed retryLimit+1 attempts"
			if ok {
				// must be followed by the call to next on every path to a return
				callsNext := func(in ssa.Instruction) bool {
					c, isCall := in.(ssa.CallInstruction)
					return isCall && core.CalleeFn(c) == next
				}
				seen := core.Reach{Stop: callsNext}.FromInstr(fs.Store)
				for in := range seen {
					if _, isRet := in.(*ssa.Return); isRet {
						ok = false
						detail = "decrement in Seek can reach a return without re-sending the request"
					}
				}
				if ok {
					detail = "Seek gives back one attempt and re-enters next on every path"
				}
			}
			r.Check(ok, rule, fname, lab.next(fname + "|" + f + "--")[len(fname)+1:], pos, detail)
		default:
			if c, ok := core.ConstInt(fs.Store.Val); ok && c == 0 && fs.Fn.Name() == "Do" {
				r.Held(rule, fname, lab.next(fname + "|" + f + "=0")[len(fname)+1:], pos, "initialisation")
				continue
			}
			r.Violated(rule, fname, lab.next(fname + "|" + f + "=?")[len(fname)+1:], pos, "attempt counter overwritten with a value that is neither an increment nor the Seek decrement")
		}
	}
}

// ---------------------------------------------------------------------------------------------
// R5: mirror order comparator, evaluated abstractly

type cmpVal struct {
	// weak order of now, T0, T1 given as ranks
	now, t0, t1 int
	// priorities
	p0, p1 int
	// names equal upstream
	n0up, n1up bool
}

func c12R5(p *core.Prog, r *core.Report) {
	const rule = "C12.R5"
	r.Rule(rule, "the mirror comparator, evaluated over every consistent ordering of (now, backoff times), (priorities) and (name = upstream), puts backing-off hosts last, higher priority first, the named registry last among equals", 3)
	outer := p.Func("internal/reghttp", "sortHostsCmp")
	var cmp *ssa.Function
	if outer != nil {
		for _, ret := range core.Returns(outer) {
			if len(ret.Results) == 1 {
				cmp = closureOf(ret.Results[0])
			}
		}
	}
	if cmp == nil {
		// semantic fallback: the function value passed to sort.Slice in next
		if next := p.Method("internal/reghttp", "Resp", "next"); next != nil {
			for _, c := range core.CallsTo(next, func(f *types.Func) bool {
				return core.IsFunc(f, "sort", "Slice") || core.IsFunc(f, "slices", "SortFunc") || core.IsFunc(f, "sort", "SliceStable")
			}) {
				cmp = closureOf(core.CallArg(c, 1))
			}
		}
	}
	if cmp == nil || len(cmp.Params) != 2 {
		r.MissingAnchor(rule, "internal/reghttp.sortHostsCmp (index comparator passed to sort.Slice)")
		return
	}
	fname := p.FuncName(cmp)
	type clause struct {
		name   string
		total  int
		bad    int
		sample string
		undec  string
	}
	clauses := []*clause{{name: "backing-off hosts after the others"}, {name: "higher priority first"}, {name: "named registry last among equals"}}
	ranks := [][3]int{}
	for a := 0; a < 3; a++ {
		for b := 0; b < 3; b++ {
			for c := 0; c < 3; c++ {
				ranks = append(ranks, [3]int{a, b, c})
			}
		}
	}
	for _, rk := range ranks {
		for p0 := 0; p0 < 2; p0++ {
			for p1 := 0; p1 < 2; p1++ {
				for _, n0 := range []bool{false, true} {
					for _, n1 := range []bool{false, true} {
						v := cmpVal{now: rk[0], t0: rk[1], t1: rk[2], p0: p0, p1: p1, n0up: n0, n1up: n1}
						bi, bj := v.now < v.t0, v.now < v.t1
						var cl *clause
						var want bool
						switch {
						case bi != bj:
							cl, want = clauses[0], bj
						case bi && bj:
							continue
						case v.p0 != v.p1:
							cl, want = clauses[1], v.p0 > v.p1
						case v.n0up != v.n1up:
							cl, want = clauses[2], v.n1up
						default:
							continue
						}
						got, err := evalComparator(cmp, v)
						if tgt, hosts := comparatorTarget(cmp); tgt != nil {
							got, err = evalComparatorWith(tgt, v, hosts)
						}
						cl.total++
						if err != "" {
							cl.undec = err
							continue
						}
						if got != want {
							cl.bad++
							if cl.sample == "" {
								cl.sample = fmt.Sprintf("valuation now=%d backoff_i=%d backoff_j=%d prio_i=%d prio_j=%d i_is_upstream=%v j_is_upstream=%v: less(i,j)=%v, specified %v", v.now, v.t0, v.t1, v.p0, v.p1, v.n0up, v.n1up, got, want)
							}
						}
					}
				}
			}
		}
	}
	for _, cl := range clauses {
		pos := p.Pos(cmp.Pos())
		switch {
		case cl.undec != "":
			r.Undecided(rule, fname, cl.name, pos, "comparator uses a construct the abstract evaluator does not model: "+cl.undec)
		case cl.bad > 0:
			r.Violated(rule, fname, cl.name, pos, fmt.Sprintf("%d of %d valuations disagree with the documented order; e.g. %s", cl.bad, cl.total, cl.sample))
		default:
			r.Held(rule, fname, cl.name, pos, fmt.Sprintf("all %d valuations agree", cl.total))
		}
	}
}

// evalComparator walks the comparator's CFG under a valuation of its atoms.
func evalComparator(fn *ssa.Function, v cmpVal) (bool, string) {
	return evalComparatorWith(fn, v, nil)
}

// comparatorTarget: the comparator handed to the sort is an adapter that forwards to a function or
// method of the module (`func(i, j int) bool { return order.less(hosts[i], hosts[j]) }`). It returns
// that function and, for each of its parameters, which of the two compared hosts it receives.
func comparatorTarget(fn *ssa.Function) (*ssa.Function, map[*ssa.Parameter]int) {
	rets := core.Returns(fn)
	if len(rets) != 1 || len(rets[0].Results) != 1 {
		return nil, nil
	}
	call, ok := rets[0].Results[0].(*ssa.Call)
	if !ok {
		return nil, nil
	}
	g := call.Call.StaticCallee()
	if g == nil || len(g.Blocks) == 0 || len(fn.Blocks) > 3 {
		return nil, nil
	}
	hosts := map[*ssa.Parameter]int{}
	for i, a := range call.Call.Args {
		if i >= len(g.Params) {
			break
		}
		// the argument is an element indexed by one of the adapter's parameters
		var idx ssa.Value
		v := a
		for d := 0; d < 6 && v != nil && idx == nil; d++ {
			switch z := v.(type) {
			case *ssa.UnOp:
				v = z.X
			case *ssa.IndexAddr:
				idx = z.Index
			case *ssa.Index:
				idx = z.Index
			default:
				v = nil
			}
		}
		if pr, ok := idx.(*ssa.Parameter); ok {
			for k, pp := range fn.Params {
				if pp == pr {
					hosts[g.Params[i]] = k
				}
			}
		}
	}
	if len(hosts) != 2 {
		return nil, nil
	}
	return g, hosts
}

func evalComparatorWith(fn *ssa.Function, v cmpVal, paramHost map[*ssa.Parameter]int) (bool, string) {
	if len(fn.Blocks) == 0 {
		return false, "no body"
	}
	var prev *ssa.BasicBlock
	b := fn.Blocks[0]
	errStr := ""
	// classify a value into an atom token
	var tok func(x ssa.Value) string
	hostIdx := func(x ssa.Value) int {
		// does the access path of x go through an index by parameter k?
		idx := -1
		var walk func(y ssa.Value, depth int)
		walk = func(y ssa.Value, depth int) {
			if depth > 12 || y == nil {
				return
			}
			switch z := y.(type) {
			case *ssa.Parameter:
				if k, ok := paramHost[z]; ok {
					idx = k
				}
			case *ssa.UnOp:
				walk(z.X, depth+1)
			case *ssa.FieldAddr:
				walk(z.X, depth+1)
			case *ssa.Field:
				walk(z.X, depth+1)
			case *ssa.IndexAddr:
				if pr, ok := z.Index.(*ssa.Parameter); ok {
					for k, pp := range fn.Params {
						if pp == pr {
							idx = k
						}
					}
				}
			case *ssa.Index:
				if pr, ok := z.Index.(*ssa.Parameter); ok {
					for k, pp := range fn.Params {
						if pp == pr {
							idx = k
						}
					}
				}
			}
		}
		walk(x, 0)
		return idx
	}
	tok = func(x ssa.Value) string {
		k := hostIdx(x)
		t := x.Type()
		switch {
		case core.IsNamed(t, "time", "Time"):
			if k >= 0 {
				return fmt.Sprintf("T%d", k)
			}
			return "now"
		case isIntegerType(t):
			if k >= 0 {
				return fmt.Sprintf("P%d", k)
			}
		case isStringType(t):
			if k >= 0 {
				return fmt.Sprintf("N%d", k)
			}
			return "up"
		}
		return ""
	}
	timeRank := func(t string) (int, bool) {
		switch t {
		case "now":
			return v.now, true
		case "T0":
			return v.t0, true
		case "T1":
			return v.t1, true
		}
		return 0, false
	}
	var eval func(x ssa.Value) (bool, bool)
	eval = func(x ssa.Value) (bool, bool) {
		switch y := x.(type) {
		case *ssa.Const:
			if bv, ok := core.ConstBool(y); ok {
				return bv, true
			}
		case *ssa.UnOp:
			if y.Op == token.NOT {
				r, ok := eval(y.X)
				return !r, ok
			}
		case *ssa.Phi:
			for i, pb := range y.Block().Preds {
				if pb == prev {
					return eval(y.Edges[i])
				}
			}
		case *ssa.Call:
			cal := core.Callee(y)
			if cal != nil && len(y.Call.Args) == 2 {
				a, aok := timeRank(tok(y.Call.Args[0]))
				bb, bok := timeRank(tok(y.Call.Args[1]))
				if aok && bok {
					switch {
					case core.IsMethod(cal, "time", "Time", "Before"):
						return a < bb, true
					case core.IsMethod(cal, "time", "Time", "After"):
						return a > bb, true
					case core.IsMethod(cal, "time", "Time", "Equal"):
						return a == bb, true
					}
				}
			}
		case *ssa.BinOp:
			ta, tb := tok(y.X), tok(y.Y)
			num := func(t string) (int, bool) {
				switch t {
				case "P0":
					return v.p0, true
				case "P1":
					return v.p1, true
				}
				return 0, false
			}
			if a, ok := num(ta); ok {
				if bb, ok := num(tb); ok {
					switch y.Op {
					case token.LSS:
						return a < bb, true
					case token.GTR:
						return a > bb, true
					case token.LEQ:
						return a <= bb, true
					case token.GEQ:
						return a >= bb, true
					case token.EQL:
						return a == bb, true
					case token.NEQ:
						return a != bb, true
					}
				}
			}
			nameEq := func(s, t string) (bool, bool) {
				switch {
				case s == "N0" && t == "up", s == "up" && t == "N0":
					return v.n0up, true
				case s == "N1" && t == "up", s == "up" && t == "N1":
					return v.n1up, true
				}
				return false, false
			}
			if eq, ok := nameEq(ta, tb); ok {
				switch y.Op {
				case token.EQL:
					return eq, true
				case token.NEQ:
					return !eq, true
				}
			}
		}
		errStr = "cannot evaluate " + x.String()
		return false, false
	}
	for steps := 0; steps < 200; steps++ {
		switch last := core.LastInstr(b).(type) {
		case *ssa.If:
			c, ok := eval(last.Cond)
			if !ok {
				return false, errStr
			}
			prev = b
			if c {
				b = b.Succs[0]
			} else {
				b = b.Succs[1]
			}
		case *ssa.Jump:
			prev = b
			b = b.Succs[0]
		case *ssa.Return:
			if len(last.Results) != 1 {
				return false, "comparator does not return one value"
			}
			res, ok := eval(last.Results[0])
			if !ok {
				return false, errStr
			}
			return res, ""
		default:
			return false, "unexpected terminator"
		}
	}
	return false, "comparator does not terminate within 200 blocks"
}

func isIntegerType(t types.Type) bool {
	b, ok := t.Underlying().(*types.Basic)
	return ok && b.Info()&types.IsInteger != 0
}

func isStringType(t types.Type) bool {
	b, ok := t.Underlying().(*types.Basic)
	return ok && b.Info()&types.IsString != 0
}

// ---------------------------------------------------------------------------------------------
// R6 (shared with C17.R6): the slot stored in the response is released before the host loop acquires
// another one.

func c12R6(p *core.Prog, r *core.Report, rule string) {
	r.Rule(rule, "in (*Resp).next the release function kept in the response is called and cleared (or known nil) on every path to the next Acquire: re-entry from Read/Seek must not leak or self-deadlock a throttle slot", 1)
	next := p.Method("internal/reghttp", "Resp", "next")
	if next == nil {
		r.MissingAnchor(rule, "internal/reghttp.(*Resp).next")
		return
	}
	fname := p.FuncName(next)
	isAcquire := func(f *types.Func) bool {
		return core.IsModMethod(f, "internal/pqueue", "Queue", "Acquire")
	}
	helpers := core.Helpers(next, 2)
	acqs := core.CallsTo(next, isAcquire)
	// a wrapper of the package that hands back what Acquire returns counts as the Acquire at its call
	core.Calls(next, func(c ssa.CallInstruction) {
		h := core.CalleeFn(c)
		if h == nil || h == next || !helpers[h] {
			return
		}
		for _, ret := range core.Returns(h) {
			if len(ret.Results) == 0 {
				continue
			}
			for _, oc := range originCalls(core.ReturnOperand(ret, 0)) {
				if isAcquire(core.Callee(oc)) {
					acqs = append(acqs, c)
					return
				}
			}
		}
	})
	if len(acqs) == 0 {
		r.MissingAnchor(rule, "call of (*pqueue.Queue).Acquire in (*Resp).next")
		return
	}
	// the owning field: the struct field that receives result 0 of Acquire
	var ownN *types.Named
	ownF := ""
	for _, fs := range fieldStores(core.WithAnon(next), func(n *types.Named, f string) bool { return true }) {
		for _, o := range core.Origins(fs.Store.Val, core.SliceOpts{Helpers: helpers}) {
			if o.Kind == core.OCall && o.Res == 0 && o.Callee() != nil && isAcquire(o.Callee()) {
				ownN, ownF = core.FieldAddrInfo(fs.Addr)
			}
		}
	}
	if ownN == nil {
		r.Undecided(rule, fname, "slot owner field", p.Pos(next.Pos()), "the release function returned by Acquire is not stored in a field of the response: ownership idiom not recognised")
		return
	}
	isClear := func(in ssa.Instruction) bool {
		st, ok := in.(*ssa.Store)
		if !ok {
			return false
		}
		fa, ok := st.Addr.(*ssa.FieldAddr)
		if !ok {
			return false
		}
		n, f := core.FieldAddrInfo(fa)
		return n == ownN && f == ownF && core.IsNilConst(st.Val)
	}
	knownNilEdge := func(from, to *ssa.BasicBlock) bool {
		ifi, ok := core.LastInstr(from).(*ssa.If)
		if !ok {
			return false
		}
		x, neq, ok := errCmpNil(ifi.Cond)
		if !ok || !fieldLoadSame(x, ownN, ownF) {
			return false
		}
		// edge on which the field is nil
		if neq {
			return to == from.Succs[1]
		}
		return to == from.Succs[0]
	}
	// a clear only counts when the stored function was called before it in the same block
	clearAfterCall := func(in ssa.Instruction) bool {
		if !isClear(in) {
			return false
		}
		b := in.Block()
		for _, x := range b.Instrs {
			if x == in {
				break
			}
			if c, ok := x.(*ssa.Call); ok && !c.Call.IsInvoke() {
				if fieldLoadSame(c.Call.Value, ownN, ownF) {
					return true
				}
			}
		}
		return false
	}
	// a helper that releases: from its entry no return is reachable except through the clear after the
	// call or the field-is-nil edge
	releases := map[*ssa.Function]bool{}
	for h := range helpers {
		if h == next || len(h.Blocks) == 0 {
			continue
		}
		touches := false
		for _, b := range h.Blocks {
			for _, in := range b.Instrs {
				touches = touches || isClear(in)
			}
		}
		if !touches {
			continue
		}
		ok := true
		for in := range (core.Reach{Stop: clearAfterCall, StopEdge: knownNilEdge}).FromEntry(h) {
			if _, isRet := in.(*ssa.Return); isRet {
				ok = false
			}
		}
		releases[h] = ok
	}
	stop := func(in ssa.Instruction) bool {
		if clearAfterCall(in) {
			return true
		}
		if c, ok := in.(ssa.CallInstruction); ok {
			if _, isDefer := in.(*ssa.Defer); !isDefer && releases[core.CalleeFn(c)] {
				return true
			}
		}
		return false
	}
	reach := core.Reach{Stop: stop, StopEdge: knownNilEdge}
	lab := labeler{}
	for _, a := range acqs {
		ai := a.(ssa.Instruction)
		seen := reach.FromEntry(next)
		ok := !seen[ai]
		r.Check(ok, rule, fname, lab.next("Acquire after release of "+ownN.Obj().Name()+"."+ownF), p.Pos(a.Pos()),
			"from the function entry (re-entry from Read or Seek with a slot still stored) the Acquire must only be reachable through `if field != nil { field(); field = nil }`")
	}
}

// ---------------------------------------------------------------------------------------------
// R7 client-side marker pagers stop when the server makes no progress

func c12R7(p *core.Prog, r *core.Report) {
	const rule = "C12.R7"
	r.Rule(rule, "a loop that pages through a listing by sending the last entry of the previous page as marker (RepoList / TagList of the client, outside the registry scheme) leaves when a page is empty and when the page's last entry equals the marker just sent; a registry that ignores or mis-handles the marker otherwise makes the loop repeat the same request forever", 1)
	isListing := func(f *types.Func) bool {
		return core.IsModMethod(f, ".", "RegClient", "RepoList") || core.IsModMethod(f, ".", "RegClient", "TagList")
	}
	n := 0
	for _, fn := range p.ModFuncs {
		pk := core.FuncPkg(fn)
		if pk == nil || fn.Synthetic != "" || strings.HasPrefix(pk.Path(), modPath("scheme")) || strings.HasPrefix(pk.Path(), modPath("internal")) {
			continue
		}
		lab := labeler{}
		for _, l := range core.Loops(fn) {
			if strings.HasPrefix(l.Header.Comment, "range") {
				continue
			}
			listing := pagerListing(l, isListing)
			if listing == nil {
				continue
			}
			n++
			fname := p.FuncName(fn)
			label := lab.next("marker pager")
			// loop-carried values: phis of the header, and cells stored inside the loop
			carried := func(v ssa.Value) bool {
				for d := 0; d < 4 && v != nil; d++ {
					switch x := v.(type) {
					case *ssa.Phi:
						return x.Block() == l.Header
					case *ssa.UnOp:
						if x.Op != token.MUL {
							return false
						}
						al, ok := x.X.(*ssa.Alloc)
						if !ok {
							return false
						}
						for _, st := range core.StoresToCell(al) {
							if l.Blocks[st.Block()] {
								return true
							}
						}
						return false
					default:
						return false
					}
				}
				return false
			}
			emptyExit, progressExit := false, false
			for _, e := range l.Exits() {
				ifi, ok := core.LastInstr(e[0]).(*ssa.If)
				if !ok {
					continue
				}
				cnd, _ := core.StripNot(ifi.Cond, true)
				bo, ok := cnd.(*ssa.BinOp)
				if !ok {
					continue
				}
				if bo.Op == token.EQL || bo.Op == token.NEQ {
					if isStringType(bo.X.Type()) && (carried(bo.X) || carried(bo.Y)) {
						progressExit = true
					}
				}
				for _, side := range []ssa.Value{bo.X, bo.Y} {
					if c, ok := side.(*ssa.Call); ok {
						if b, ok := c.Call.Value.(*ssa.Builtin); ok && b.Name() == "len" {
							emptyExit = true
						}
					}
				}
			}
			switch {
			case emptyExit && progressExit:
				r.Held(rule, fname, label, p.Pos(listing.Pos()), "leaves on an empty page and when the last entry equals the marker")
			case !progressExit:
				r.Violated(rule, fname, label, p.Pos(listing.Pos()), "no exit compares the marker that was sent with the page that came back: against a registry that ignores the marker the same request is repeated without end")
			default:
				r.Violated(rule, fname, label, p.Pos(listing.Pos()), "no exit on an empty page")
			}
		}
	}
	if n == 0 {
		r.Held(rule, "module", "no client-side marker pager", "", "nothing pages through a listing outside the registry scheme")
	}
}

// pagerListing returns the call inside loop l that fetches a page of a listing: a call of a listing
// function, or of a helper of the same package that makes one.
func pagerListing(l *core.Loop, isListing func(*types.Func) bool) ssa.CallInstruction {
	var listing ssa.CallInstruction
	l.Instrs(func(in ssa.Instruction) {
		c, ok := in.(ssa.CallInstruction)
		if !ok {
			return
		}
		if isListing(core.Callee(c)) {
			listing = c
			return
		}
		g := core.CalleeFn(c)
		if g == nil || len(g.Blocks) == 0 || core.FuncPkg(g) != core.FuncPkg(in.Parent()) {
			return
		}
		for h := range core.Helpers(g, 2) {
			core.Calls(h, func(hc ssa.CallInstruction) {
				if isListing(core.Callee(hc)) && listing == nil {
					listing = c
				}
			})
		}
	})
	return listing
}

// transportRetryRule: a request that failed in the transport (connection reset, broken pipe, refused)
// is repeated on the same host after a backoff. The flag that takes the host out of the list for this
// request is never set on the failure edge of the HTTP round trip: an upload is sent to the one
// registry only (no mirrors), so giving that host up on the first reset fails the whole upload where
// the retry would have absorbed the fault.
func transportRetryRule(p *core.Prog, r *core.Report, rule string) {
	r.Rule(rule, "a transport failure is retried on the same host: from the failure edge of the HTTP round trip (http.Client.Do) in internal/reghttp no store of true to the flag that removes the host from the request's host list is reachable (an upload has no other host to go to: one connection reset would fail it)", 1)
	fns := pkgFuncs(p, "internal/reghttp")
	type doSite struct {
		fn   *ssa.Function
		call *ssa.Call
	}
	var dos []doSite
	for _, fn := range fns {
		core.Calls(fn, func(c ssa.CallInstruction) {
			call, ok := c.(*ssa.Call)
			if f := core.Callee(c); ok && f != nil && f.Pkg() != nil && f.Pkg().Path() == "net/http" && f.Name() == "Do" {
				dos = append(dos, doSite{fn, call})
			}
		})
	}
	if len(dos) == 0 {
		r.MissingAnchor(rule, "call of (*net/http.Client).Do in internal/reghttp")
		return
	}
	// the drop flag: a bool cell of the enclosing function that is tested before the host list is
	// shortened with slices.Delete
	dropCell := func(parent *ssa.Function) *ssa.Alloc {
		for _, b := range parent.Blocks {
			ifi, ok := core.LastInstr(b).(*ssa.If)
			if !ok {
				continue
			}
			c, pol := core.StripNot(ifi.Cond, true)
			l, ok := c.(*ssa.UnOp)
			if !ok || l.Op != token.MUL {
				continue
			}
			cell, ok := l.X.(*ssa.Alloc)
			if !ok {
				continue
			}
			succ := b.Succs[0]
			if !pol {
				succ = b.Succs[1]
			}
			for _, in := range succ.Instrs {
				if cc, ok := in.(ssa.CallInstruction); ok {
					if f := core.Callee(cc); f != nil && f.Pkg() != nil && f.Pkg().Path() == "slices" && f.Name() == "Delete" {
						return cell
					}
				}
			}
		}
		return nil
	}
	lab := labeler{}
	for _, d := range dos {
		// the flag as seen from the function that makes the round trip
		var flag ssa.Value
		if cell := dropCell(d.fn); cell != nil {
			flag = cell
		} else if parent := d.fn.Parent(); parent != nil {
			if cell := dropCell(parent); cell != nil {
				for _, b := range parent.Blocks {
					for _, in := range b.Instrs {
						mc, ok := in.(*ssa.MakeClosure)
						if !ok || mc.Fn != d.fn {
							continue
						}
						for i, bd := range mc.Bindings {
							if bd == cell && i < len(d.fn.FreeVars) {
								flag = d.fn.FreeVars[i]
							}
						}
					}
				}
			}
		}
		label := lab.next("round trip failure")
		if flag == nil {
			r.Held(rule, p.FuncName(d.fn), label, p.Pos(d.call.Pos()), "no flag of this function removes the host from the list")
			continue
		}
		bad := ""
		for _, e := range errEdgesOf(d.fn, d.call) {
			for in := range (core.Reach{}).FromEdge(e[0], e[1]) {
				if st, ok := in.(*ssa.Store); ok && st.Addr == flag {
					if cst, isC := st.Val.(*ssa.Const); !isC || cst.Value == nil || cst.Value.String() != "false" {
						bad = p.Pos(st.Pos())
					}
				}
			}
		}
		r.Check(bad == "", rule, p.FuncName(d.fn), label, p.Pos(d.call.Pos()),
			"the host is dropped at "+bad+" when the round trip itself failed: requests that may only go to the registry (every upload request) fail on the first connection reset instead of being retried after the backoff")
	}
}

// c12R11: a probe that is sent without retries has a fallback. A request literal with IgnoreErr
// (reghttp does not retry it and drops the host on its first failure) is only sound while whatever
// goes wrong with it — a refusal as well as a connection reset — leads on to the other requests of
// the function. A failure return between the probe and its fallback makes one transient fault, far
// below the retry limit, fail the whole operation.
func c12R11(p *core.Prog, r *core.Report) {
	const rule = "C12.R11"
	r.Rule(rule, "a single-shot probe falls back on every failure: in scheme/reg, where a function sends a request whose literal sets IgnoreErr and goes on to send other requests, no return is reachable from the probe's failure edge before one of those requests (the probe is never retried, so a return there turns one connection reset into a failed operation)", 1)
	doers := reachers(p, httpDoers(p))
	n := 0
	lab := map[*ssa.Function]labeler{}
	for _, lit := range reqLiterals(p) {
		if pk := core.FuncPkg(lit.Fn); pk == nil || pk.Path() != modPath("scheme/reg") {
			continue
		}
		if b, ok := core.ConstBool(lit.Fields["IgnoreErr"]); !ok || !b {
			continue
		}
		fn := lit.Fn
		// the Do this literal is handed to
		var probe *ssa.Call
		core.Calls(fn, func(c ssa.CallInstruction) {
			call, isCall := c.(*ssa.Call)
			if !isCall || probe != nil {
				return
			}
			for _, a := range call.Call.Args {
				if a == ssa.Value(lit.Alloc) {
					if g := core.CalleeFn(c); g != nil && doers[g] {
						probe = call
					}
				}
			}
		})
		if probe == nil {
			continue
		}
		isRequest := func(in ssa.Instruction) bool {
			c, ok := in.(ssa.CallInstruction)
			if !ok || in == ssa.Instruction(probe) {
				return false
			}
			if g := core.CalleeFn(c); g != nil && doers[g] {
				return true
			}
			if c.Common().IsInvoke() {
				for _, impl := range p.Implementations(c.Common().Method) {
					if doers[impl] {
						return true
					}
				}
			}
			return false
		}
		// a fallback exists: some other request is reachable after the probe
		hasFallback := false
		for in := range (core.Reach{}).FromInstr(probe) {
			if isRequest(in) {
				hasFallback = true
			}
		}
		if !hasFallback {
			continue
		}
		n++
		bad := ""
		for _, e := range errEdgesOf(fn, probe) {
			for in := range (core.Reach{Stop: isRequest}).FromEdge(e[0], e[1]) {
				if ret, isRet := in.(*ssa.Return); isRet {
					bad = p.Pos(ret.Pos())
				}
			}
		}
		if lab[fn] == nil {
			lab[fn] = labeler{}
		}
		r.Check(bad == "", rule, p.FuncName(fn), lab[fn].next("probe sent with IgnoreErr"), p.Pos(probe.Pos()),
			"the return at "+bad+" is reached from the probe's failure edge before any of the requests that follow it: the probe is sent once, so a single connection reset or timeout fails the operation although the fallback would have done the work")
	}
	if n == 0 {
		r.Held(rule, "scheme/reg", "probe sent with IgnoreErr", "", "no function sends an IgnoreErr request and other requests after it")
	}
}

// ---------------------------------------------------------------------------------------------
// R13 an operation is not restarted from scratch by calling itself

// c12R13: the loops of the request code are bounded by R3. Recursion is a loop too: a function that
// sends requests and, on some answer, calls itself with exactly the arguments it was given starts
// the whole operation again — new session, same stream, same answer — with nothing that counts the
// restarts. (Mutual recursion with changed arguments, such as a manifest push that pushes the
// fallback referrers index, is not this shape.)
func c12R13(p *core.Prog, r *core.Report) {
	const rule = "C12.R13"
	r.Rule(rule, "no unbounded restart by recursion: a function of scheme/reg, internal/reghttp or internal/auth from which an HTTP request is reachable does not call itself (directly or from one of its literals) with every argument being its own parameter unchanged", 0)
	doers := reachers(p, httpDoers(p))
	n := 0
	for _, rel := range []string{"scheme/reg", "internal/reghttp", "internal/auth"} {
		for _, fn := range pkgFuncs(p, rel) {
			if fn.Parent() != nil || !doers[fn] || len(fn.Blocks) == 0 {
				continue
			}
			lab := labeler{}
			for _, g := range core.WithAnon(fn) {
				core.Calls(g, func(c ssa.CallInstruction) {
					if core.CalleeFn(c) != fn {
						return
					}
					n++
					args := c.Common().Args
					same := len(args) == len(fn.Params)
					for i := 0; same && i < len(args); i++ {
						// the parameter itself, possibly after fields of it were filled in (a cell)
						same = core.HasOrigin(core.Origins(args[i], core.SliceOpts{}), func(o core.Origin) bool {
							if o.Kind == core.OParam && o.Param == fn.Params[i] {
								return true
							}
							if fv, isFV := o.Val.(*ssa.FreeVar); o.Kind == core.OFree && isFV {
								return core.FreeVarBinding(fv) == ssa.Value(fn.Params[i])
							}
							return false
						})
					}
					r.Check(!same, rule, p.FuncName(fn), lab.next("calls itself"), p.Pos(c.Pos()),
						"the function sends requests and calls itself with exactly the arguments it was given: the operation is started over with nothing that bounds the number of restarts (a registry that keeps giving the answer that leads here is asked forever)")
				})
			}
		}
	}
	if n == 0 {
		r.Held(rule, "scheme/reg, internal/reghttp, internal/auth", "self-recursive request functions", "-", "no function that sends requests calls itself")
	}
}

// ---------------------------------------------------------------------------------------------
// R14 a host's release time is only replaced with a look at what it holds

// c12R14: "backed off from for at least the configured (or server-requested) delay". The time a host
// may be contacted again is shared by every request in flight to that host. A store that replaces it
// without looking at the value it holds lets the answer that is processed last shorten a delay that an
// earlier answer asked for.
func c12R14(p *core.Prog, r *core.Report) {
	const rule = "C12.R14"
	r.Rule(rule, "the release time of a host moves with a look at what it holds: every store of a non-zero time into a time.Time field of the per-host state of internal/reghttp either computes the new value from the old one or is guarded by a comparison that involves the old one (Before/After/IsZero on the field)", 2)
	hostT := p.Named("internal/reghttp", "clientHost")
	if hostT == nil {
		r.MissingAnchor(rule, "internal/reghttp.clientHost")
		return
	}
	pkgPath := modPath("internal/reghttp")
	tname := "clientHost" // the canonical name: IsNamed resolves a renamed type through its role
	isTime := func(t types.Type) bool { return core.IsNamed(t, "time", "Time") }
	n := 0
	lab := labeler{}
	for _, fs := range fieldStores(pkgFuncs(p, "internal/reghttp"), func(nm *types.Named, f string) bool { return nm == hostT }) {
		_, fld := core.FieldAddrInfo(fs.Addr)
		if !isTime(fs.Store.Val.Type()) {
			continue
		}
		// the zero time: a reset
		if _, isC := fs.Store.Val.(*ssa.Const); isC {
			continue
		}
		if u, ok := fs.Store.Val.(*ssa.UnOp); ok && u.Op == token.MUL {
			if al, ok := u.X.(*ssa.Alloc); ok && len(core.StoresToCell(al)) == 0 {
				continue // time.Time{} through a zero-initialised local
			}
		}
		n++
		ok := dependsOnField(fs.Store.Val, pkgPath, tname, fld)
		if !ok {
			ok = anyGuard(fs.Store.Block(), func(c ssa.Value, pol bool) bool {
				return dependsOnField(c, pkgPath, tname, fld)
			})
		}
		r.Check(ok, rule, p.FuncName(fs.Fn), lab.next("store to "+fld), p.Pos(fs.Store.Pos()),
			"the release time of the host is overwritten without a look at the value it holds: with several requests in flight the answer processed last can move the time backwards and the host is contacted before a delay it asked for has passed")
	}
	if n == 0 {
		r.MissingAnchor(rule, "stores of a time into the per-host state")
	}
}

package rules

import (
	"fmt"
	"go/constant"
	"go/token"
	"go/types"
	"strings"

	"golang.org/x/tools/go/ssa"

	"verif/internal/core"
)

func init() {
	register(&Spec{
		ID: "C19",
		Decides: "from every Lua binding of cmd/regbot/sandbox no function that issues a state-changing registry request or writes to an OCI layout is reachable in the module's reference graph, once call sites dominated by the not-dry-run edge of a test of the sandbox's dry-run flag are removed; " +
			"the flag is written only by WithDryRun and is passed to every sandbox the tool creates under the --dry-run option; " +
			"RunScript recovers panics and the script loops have no exit that depends on a script's error; a throttle slot taken by a binding is released by defer (a Lua error is a panic).",
		NotCovered: "that read-only bindings behave exactly as in a normal run; Lua's own os/io libraries (outside the documented scripting API); image.exportTar writing a local tar file (neither registry nor layout).",
		Run:        runC19,
	})
}

const sandboxRel = "cmd/regbot/sandbox"

// luaBindings returns the functions of the sandbox package that have the lua.LGFunction shape.
func luaBindings(p *core.Prog) []*ssa.Function {
	var out []*ssa.Function
	for _, fn := range pkgFuncs(p, sandboxRel) {
		sig := fn.Signature
		if sig.Params().Len() != 1 || sig.Results().Len() != 1 {
			continue
		}
		if !core.IsNamed(sig.Params().At(0).Type(), "github.com/yuin/gopher-lua", "LState") {
			continue
		}
		if b, ok := sig.Results().At(0).Type().(*types.Basic); !ok || b.Kind() != types.Int {
			continue
		}
		out = append(out, fn)
	}
	return out
}

// dryRunField identifies the sandbox's dry-run flag semantically: the bool field of Sandbox that the
// option returned by the exported WithDryRun sets to true.
func dryRunField(p *core.Prog) (*types.Named, string) {
	w := p.Func(sandboxRel, "WithDryRun")
	if w == nil {
		return nil, ""
	}
	// the option is a literal, or a method / function value the constructor returns
	fns := core.WithAnon(w)
	for _, ret := range core.Returns(w) {
		if len(ret.Results) == 1 {
			fns = append(fns, hookFuncs(p, core.ReturnOperand(ret, 0), 0)...)
		}
	}
	for _, fs := range fieldStores(fns, func(n *types.Named, f string) bool { return n.Obj().Name() == "Sandbox" }) {
		if c, ok := fs.Store.Val.(*ssa.Const); ok && c.Value != nil {
			dryRunConst = c
			return core.FieldAddrInfo(fs.Addr)
		}
	}
	return nil, ""
}

// dryRunConst is the constant WithDryRun stores into the flag (true for a bool flag, the dry-run
// member for a small enum).
var dryRunConst *ssa.Const

// notDryRunEdge: the guard edge (condition c with truth pol) establishes that the flag (n, f) does
// not have its dry-run value.
func notDryRunEdge(c ssa.Value, pol bool, n *types.Named, f string) bool {
	if fieldLoadSame(c, n, f) {
		// bool flag used directly
		if b, ok := core.ConstBool(dryRunConst); ok {
			return pol != b
		}
		return false
	}
	bo, ok := c.(*ssa.BinOp)
	if !ok || (bo.Op != token.EQL && bo.Op != token.NEQ) {
		return false
	}
	var k *ssa.Const
	switch {
	case fieldLoadSame(bo.X, n, f):
		k, _ = bo.Y.(*ssa.Const)
	case fieldLoadSame(bo.Y, n, f):
		k, _ = bo.X.(*ssa.Const)
	}
	if k == nil || k.Value == nil || dryRunConst == nil {
		return false
	}
	equalOnEdge := (bo.Op == token.EQL) == pol
	if constant.Compare(k.Value, token.EQL, dryRunConst.Value) {
		return !equalOnEdge // flag != dry-run value
	}
	return equalOnEdge // flag == some other value
}

func runC19(p *core.Prog, r *core.Report) {
	c19R1(p, r)
	c19R2(p, r)
	c19R3(p, r)
	c19R4(p, r)
	c19R5(p, r)
	c19R6(p, r)
	// the close binding is not gated: closing a layout the run has not written to must not sweep it (shared with C08.R2)
	c08R2(p, r, "C19.R7")
	c19R8(p, r)
}

// c19R6: a script that fails stops by itself. RunScript turns panics inside the script into an error;
// the code of the runner that looks at that error afterwards runs outside that protection, so it must
// not panic on the shape of what the script raised (an error object need not be a string).
func c19R6(p *core.Prog, r *core.Report) {
	const rule = "C19.R6"
	r.Rule(rule, "the runner cannot be crashed by a script's error value: outside the sandbox package (whose bindings run under the interpreter's protected call) no function of cmd/regbot makes an unchecked type assertion on a Lua value", 1)
	n := 0
	for _, fn := range pkgFuncs(p, "cmd/regbot") {
		lab := labeler{}
		for _, b := range fn.Blocks {
			for _, in := range b.Instrs {
				ta, ok := in.(*ssa.TypeAssert)
				if !ok || ta.CommaOk {
					continue
				}
				nt := core.NamedOf(ta.X.Type())
				if nt == nil || nt.Obj().Pkg() == nil || nt.Obj().Pkg().Path() != "github.com/yuin/gopher-lua" {
					continue
				}
				n++
				r.Violated(rule, p.FuncName(fn), lab.next("unchecked assertion on a Lua value"), p.Pos(ta.Pos()), "a Lua value that a script controls (the object it raised as error) is asserted to be a "+ta.AssertedType.String()+" without the comma-ok form: a script that raises a table, a number or nil crashes regbot, and the scripts after it never run")
			}
		}
	}
	if n == 0 {
		r.Held(rule, "cmd/regbot", "no unchecked assertion on Lua values", "-", "the runner does not depend on the shape of what a script raises")
	}
}

func c19R1(p *core.Prog, r *core.Report) {
	const rule = "C19.R1"
	r.Rule(rule, "no Lua binding reaches a state-changing registry request or a layout write except through a call site dominated by the not-dry-run edge of a test of the sandbox's dry-run flag", 27)
	n, f := dryRunField(p)
	if n == nil {
		r.MissingAnchor(rule, sandboxRel+".WithDryRun (setter of the dry-run flag)")
		return
	}
	prim := primitiveMutators(p)
	if len(prim) < 6 {
		r.Undecided(rule, "-", "mutator floor", "-", fmt.Sprintf("only %d primitive mutators found (state-changing request builders and layout writers); 13 on the tree the rule was written for", len(prim)))
	}
	bindings := luaBindings(p)
	gatedDirect := func(site ssa.Instruction) bool {
		return anyGuard(site.Block(), func(c ssa.Value, pol bool) bool { return notDryRunEdge(c, pol, n, f) })
	}
	// gate runners: functions of the sandbox package that are handed the change as a function value
	// and call it only behind the gate (`func (s *Sandbox) apply(change func()) { if s.dryRun { return }; change() }`)
	runners := map[*ssa.Function]map[int]bool{}
	for _, g := range pkgFuncs(p, sandboxRel) {
		for i, prm := range g.Params {
			if _, isSig := prm.Type().Underlying().(*types.Signature); !isSig || prm.Referrers() == nil {
				continue
			}
			calls, ok := 0, true
			for _, u := range *prm.Referrers() {
				switch x := u.(type) {
				case ssa.CallInstruction:
					if x.Common().Value == prm && gatedDirect(x.(ssa.Instruction)) {
						calls++
					} else {
						ok = false
					}
				case *ssa.DebugRef:
				default:
					ok = false
				}
			}
			if ok && calls > 0 {
				if runners[g] == nil {
					runners[g] = map[int]bool{}
				}
				runners[g][i] = true
			}
		}
	}
	gated := func(site ssa.Instruction) bool {
		if gatedDirect(site) {
			return true
		}
		// a function literal whose only use is to be handed to a gate runner
		mc, ok := site.(*ssa.MakeClosure)
		if !ok || mc.Referrers() == nil {
			return false
		}
		uses := 0
		for _, u := range *mc.Referrers() {
			c, isCall := u.(ssa.CallInstruction)
			if !isCall {
				if _, isDbg := u.(*ssa.DebugRef); isDbg {
					continue
				}
				return false
			}
			g := core.CalleeFn(c)
			if g == nil || runners[g] == nil {
				return false
			}
			args := c.Common().Args
			off := len(g.Params) - len(args) // receiver is part of Params and of Args for static method calls
			found := false
			for j, a := range args {
				if a == ssa.Value(mc) {
					if runners[g][j+off] {
						found = true
					} else {
						return false
					}
				}
			}
			if !found {
				return false
			}
			uses++
		}
		return uses > 0
	}
	maxVisited := 0
	for _, b := range bindings {
		hits, visited := p.Reachable(b, core.ReachQuery{
			SkipEdge: func(from *ssa.Function, e core.RefEdge) bool { return gated(e.Site) },
			IsSink: func(fn *ssa.Function) bool {
				_, ok := prim[fn]
				if _, inert := gcInert[p.FuncName(fn)]; inert {
					return false
				}
				return ok
			},
			Prune: func(fn *ssa.Function) bool { _, inert := gcInert[p.FuncName(fn)]; return inert },
		})
		if visited > maxVisited {
			maxVisited = visited
		}
		fname := p.FuncName(b)
		if len(hits) == 0 {
			r.Held(rule, fname, "binding", p.Pos(b.Pos()), fmt.Sprintf("no ungated path to a mutator (%d functions visited)", visited))
			continue
		}
		// report per first ungated client call: the first step whose target is outside the sandbox package
		seen := map[string]bool{}
		for _, h := range hits {
			first := h.Path[0]
			for _, st := range h.Path {
				if pk := core.FuncPkg(st.To); pk != nil && pk.Path() != modPath(sandboxRel) {
					first = st
					break
				}
			}
			key := p.FuncName(first.To)
			if seen[key] {
				continue
			}
			seen[key] = true
			r.Violated(rule, fname, "ungated call of "+shortRecv(p.FuncName(first.To)), p.Pos(first.Site.Pos()),
				"in a dry run this binding still reaches "+prim[h.Sink]+" in "+p.FuncName(h.Sink)+": "+chain(p, h.Path))
		}
	}
	r.Note("C19.R1: %d bindings, %d primitive mutators, at most %d functions visited per binding", len(bindings), len(prim), maxVisited)
}

func shortRecv(s string) string {
	if i := strings.LastIndex(s, "."); i >= 0 {
		return s[i+1:]
	}
	return s
}

func c19R2(p *core.Prog, r *core.Report) {
	const rule = "C19.R2"
	r.Rule(rule, "the dry-run flag is written only by WithDryRun (true) and the constructor (false); every sandbox.New in cmd/regbot receives WithDryRun() under the field bound to the --dry-run option", 3)
	n, f := dryRunField(p)
	if n == nil {
		r.MissingAnchor(rule, sandboxRel+".WithDryRun")
		return
	}
	lab := labeler{}
	for _, fs := range fieldStores(p.ModFuncs, func(n2 *types.Named, f2 string) bool { return n2 == n && f2 == f }) {
		fname := p.FuncName(fs.Fn)
		k, isConst := fs.Store.Val.(*ssa.Const)
		root := fs.Fn
		for root.Parent() != nil {
			root = root.Parent()
		}
		isDry := isConst && k.Value != nil && dryRunConst != nil && constant.Compare(k.Value, token.EQL, dryRunConst.Value)
		byOption := root.Name() == "WithDryRun"
		if w := p.Func(sandboxRel, "WithDryRun"); w != nil && !byOption {
			for _, ret := range core.Returns(w) {
				if len(ret.Results) == 1 {
					for _, hf := range hookFuncs(p, core.ReturnOperand(ret, 0), 0) {
						if hf == root {
							byOption = true
						}
					}
				}
			}
		}
		ok := isConst && ((isDry && byOption) || (!isDry && root.Name() == "New"))
		r.Check(ok, rule, fname, lab.next("store "+f), p.Pos(fs.Store.Pos()), "writer of the dry-run flag (allowed: WithDryRun sets true, New initialises false)")
	}
	// the composite literal in New initialises the field through a FieldAddr store, counted above.
	// callers of sandbox.New in cmd/regbot
	newFn := p.Func(sandboxRel, "New")
	wdr := p.Func(sandboxRel, "WithDryRun")
	if newFn == nil || wdr == nil {
		r.MissingAnchor(rule, sandboxRel+".New")
		return
	}
	// the option field bound to the "dry-run" flag
	var flagN *types.Named
	flagF := ""
	for _, fn := range pkgFuncs(p, "cmd/regbot") {
		core.Calls(fn, func(c ssa.CallInstruction) {
			cal := core.Callee(c)
			if cal == nil || !strings.HasPrefix(cal.Name(), "BoolVar") {
				return
			}
			args := c.Common().Args
			for i, a := range args {
				if s, ok := core.ConstString(a); ok && s == "dry-run" && i > 0 {
					if fa, ok := args[i-1].(*ssa.FieldAddr); ok {
						flagN, flagF = core.FieldAddrInfo(fa)
					}
				}
			}
		})
	}
	if flagN == nil {
		r.Undecided(rule, "cmd/regbot", "--dry-run flag binding", "-", "no BoolVar(&field, \"dry-run\", …) found")
		return
	}
	// what the user said on the command line stands: nothing in the program assigns the field the
	// --dry-run option is bound to (a configuration value may add a dry run, it may not take one away)
	nw := 0
	for _, fs := range fieldStores(p.ModFuncs, func(n2 *types.Named, f2 string) bool { return n2 == flagN && f2 == flagF }) {
		if k, isC := core.ConstBool(fs.Store.Val); isC && k {
			continue // switching the dry run on is harmless
		}
		// `x = x || y` keeps a dry run that was asked for
		keeps := false
		if ph, ok := fs.Store.Val.(*ssa.Phi); ok {
			for _, e := range ph.Edges {
				if k, isC := core.ConstBool(e); isC && k {
					keeps = true
				}
			}
		}
		if keeps {
			continue
		}
		nw++
		r.Violated(rule, p.FuncName(fs.Fn), lab.next("store to the --dry-run option field"), p.Pos(fs.Store.Pos()), "the field the --dry-run option is bound to is overwritten by the program: a value from somewhere else (a configuration file, a default) can switch off a dry run the user asked for")
	}
	if nw == 0 {
		r.Held(rule, "cmd/regbot", "--dry-run option field never overwritten", "-", "only the flag parser writes it")
	}
	for _, fn := range pkgFuncs(p, "cmd/regbot") {
		for _, c := range core.CallsTo(fn, func(f *types.Func) bool { return core.IsModFunc(f, sandboxRel, "New") }) {
			fname := p.FuncName(fn)
			// a call of WithDryRun in the same function, guarded exactly by the flag, that dominates … the New call
			ok := false
			detail := "no sandbox.WithDryRun() guarded by the --dry-run option field reaches this sandbox"
			for _, w := range core.CallsTo(fn, func(f *types.Func) bool { return core.IsModFunc(f, sandboxRel, "WithDryRun") }) {
				gs := core.Guards(w.Block())
				if len(gs) != 1 {
					detail = "WithDryRun() is under additional conditions besides the --dry-run option"
					continue
				}
				cnd, pol := core.StripNot(gs[0].Cond, gs[0].Polarity)
				if !pol || !fieldLoadSame(cnd, flagN, flagF) {
					detail = "WithDryRun() is not guarded by the --dry-run option field"
					continue
				}
				// the option value must flow into the opts argument of New: the appended slice cell is the variadic argument
				if flowsInto(w.Value(), core.CallArg(c, 1)) {
					ok = true
					detail = "WithDryRun() is appended under the --dry-run option field and flows into the options of this sandbox"
				} else {
					detail = "the WithDryRun() option does not flow into the options passed to sandbox.New"
				}
			}
			r.Check(ok, rule, fname, lab.next("sandbox.New"), p.Pos(c.Pos()), detail)
		}
	}
}

// flowsInto reports whether value v can flow into value dst through appends, slices, phis and
// local cells (forward from v, bounded).
func flowsInto(v ssa.Value, dst ssa.Value) bool {
	if v == nil || dst == nil {
		return false
	}
	seen := map[ssa.Value]bool{}
	var work []ssa.Value
	work = append(work, v)
	for len(work) > 0 && len(seen) < 2000 {
		x := work[len(work)-1]
		work = work[:len(work)-1]
		if seen[x] {
			continue
		}
		seen[x] = true
		if x == dst {
			return true
		}
		refs := x.Referrers()
		if refs == nil {
			continue
		}
		for _, ref := range *refs {
			switch y := ref.(type) {
			case *ssa.Store:
				if y.Val == x {
					// stored into a cell or an element: continue from the base of the address
					work = append(work, addrBase(y.Addr))
				}
			case ssa.Value:
				switch y.(type) {
				case *ssa.Phi, *ssa.Slice, *ssa.MakeInterface, *ssa.ChangeType, *ssa.Convert, *ssa.UnOp, *ssa.IndexAddr, *ssa.FieldAddr:
					work = append(work, y)
				case *ssa.Call:
					c := y.(*ssa.Call)
					if b, ok := c.Call.Value.(*ssa.Builtin); ok && b.Name() == "append" {
						work = append(work, y)
					}
				}
			}
		}
	}
	return false
}

func addrBase(a ssa.Value) ssa.Value {
	for {
		switch x := a.(type) {
		case *ssa.IndexAddr:
			a = x.X
		case *ssa.FieldAddr:
			a = x.X
		default:
			return a
		}
	}
}

func c19R3(p *core.Prog, r *core.Report) {
	const rule = "C19.R3"
	r.Rule(rule, "RunScript defers a recover that turns a panic into its error result; every loop over the configured scripts leaves only through exhaustion of the range (no exit depends on one script's outcome)", 2)
	run := p.Method(sandboxRel, "Sandbox", "RunScript")
	if run == nil {
		r.MissingAnchor(rule, sandboxRel+".(*Sandbox).RunScript")
	} else {
		// the function that hands the script to the interpreter: RunScript itself or a helper it calls
		isInterp := func(c ssa.CallInstruction) bool {
			f := core.Callee(c)
			return f != nil && f.Pkg() != nil && f.Pkg().Path() == "github.com/yuin/gopher-lua" && (f.Name() == "DoString" || f.Name() == "DoFile" || f.Name() == "PCall" || f.Name() == "Call")
		}
		var runners []*ssa.Function
		for _, h := range sortedFuncs(unitFuncs(run, 2, nil)) {
			if pk := core.FuncPkg(h); pk == nil || pk.Path() != modPath(sandboxRel) {
				continue
			}
			found := false
			core.Calls(h, func(c ssa.CallInstruction) {
				if isInterp(c) {
					found = true
				}
			})
			if found {
				runners = append(runners, h)
			}
		}
		// a function recovers when it defers a literal (or a module function) that calls recover, uses
		// the result, and stores into a variable of the deferring function (or through a pointer given)
		recoversIn := func(g *ssa.Function) bool {
			rec, sto := false, false
			for _, b := range g.Blocks {
				for _, in := range b.Instrs {
					if call, ok := in.(*ssa.Call); ok {
						if bi, ok := call.Call.Value.(*ssa.Builtin); ok && bi.Name() == "recover" {
							if refs := call.Referrers(); refs != nil {
								for _, u := range *refs {
									if _, isDbg := u.(*ssa.DebugRef); !isDbg {
										rec = true
									}
								}
							}
						}
					}
					if st, ok := in.(*ssa.Store); ok {
						switch a := st.Addr.(type) {
						case *ssa.FreeVar:
							sto = true
						case *ssa.Parameter:
							if _, isPtr := a.Type().Underlying().(*types.Pointer); isPtr {
								sto = true
							}
						}
					}
				}
			}
			return rec && sto
		}
		ok := len(runners) > 0
		for _, h := range runners {
			has := false
			core.Calls(h, func(c ssa.CallInstruction) {
				d, isDefer := c.(*ssa.Defer)
				if !isDefer {
					return
				}
				if lit := closureOf(d.Call.Value); lit != nil && lit.Parent() != nil {
					if recoversIn(lit) {
						has = true
					}
					return
				}
				if g := d.Call.StaticCallee(); g != nil && p.InModule(g) && len(g.Blocks) > 0 && recoversIn(g) {
					has = true
				}
			})
			if !has {
				ok = false
			}
		}
		r.Check(ok, rule, p.FuncName(run), "deferred recover", p.Pos(run.Pos()), "a Lua runtime error or a Go panic inside a binding must end this script only: the function that hands the script to the interpreter defers a function that calls recover, looks at the result and records it (defer func(){ if r := recover(); r != nil { err = … } }())")
	}
	process := p.Method("cmd/regbot", "rootOpts", "process")
	if process == nil {
		r.MissingAnchor(rule, "cmd/regbot.(*rootOpts).process")
		return
	}
	toProcess := reachers(p, map[*ssa.Function]bool{process: true})
	for _, fn := range pkgFuncs(p, "cmd/regbot") {
		if fn == process || fn.Parent() != nil {
			continue
		}
		lab := labeler{}
		for _, l := range core.Loops(fn) {
			refs := false
			l.Instrs(func(in ssa.Instruction) {
				if instrRefs(p, in, toProcess) != nil {
					refs = true
				}
			})
			if !refs {
				continue
			}
			fname := p.FuncName(fn)
			label := lab.next("script loop")
			if !strings.HasPrefix(l.Header.Comment, "range") {
				r.Undecided(rule, fname, label, p.Pos(loopPos(l)), "loop over scripts is not a range loop: exit conditions not recognised")
				continue
			}
			ok := true
			detail := "only exit is the exhausted range"
			for _, e := range l.Exits() {
				if e[0] != l.Header {
					ok = false
					detail = "exit from inside the loop body at " + p.Pos(core.LastInstr(e[0]).Pos()) + ": a failing script can keep the remaining scripts from running"
				}
			}
			r.Check(ok, rule, fname, label, p.Pos(loopPos(l)), detail)
		}
	}
}

// c19R4: bindings raise Lua errors by panicking (RaiseError), so a slot of the shared script
// throttle must be released by defer.
func c19R4(p *core.Prog, r *core.Report) {
	const rule = "C19.R4"
	r.Rule(rule, "every throttle slot acquired in the sandbox package is released by a defer registered on the success edge of the Acquire, with no call in between (Lua errors are panics; a non-deferred release leaks the slot shared by all scripts)", 1)
	for _, fn := range pkgFuncs(p, sandboxRel) {
		lab := labeler{}
		for _, c := range core.CallsTo(fn, func(f *types.Func) bool {
			return core.IsModMethod(f, "internal/pqueue", "Queue", "Acquire") || core.IsModMethod(f, "internal/pqueue", "Queue", "TryAcquire")
		}) {
			fname := p.FuncName(fn)
			label := lab.next("Acquire")
			call, ok := c.(*ssa.Call)
			if !ok {
				r.Undecided(rule, fname, label, p.Pos(c.Pos()), "Acquire used in go/defer")
				continue
			}
			// the release value: Extract #0 of the call
			var rel ssa.Value
			for _, ref := range *call.Referrers() {
				if ex, ok := ref.(*ssa.Extract); ok && ex.Index == 0 {
					rel = ex
				}
			}
			if rel == nil {
				r.Violated(rule, fname, label, p.Pos(c.Pos()), "release function of the throttle is discarded")
				continue
			}
			var def *ssa.Defer
			for _, b := range fn.Blocks {
				for _, in := range b.Instrs {
					if d, ok := in.(*ssa.Defer); ok {
						for _, o := range core.Origins(d.Call.Value, core.SliceOpts{}) {
							if o.Kind == core.OCall && o.Call == call {
								def = d
							}
						}
					}
				}
			}
			if def == nil {
				r.Violated(rule, fname, label, p.Pos(c.Pos()), "slot is not released by defer: a Lua error raised (panic) while it is held leaks the slot and blocks every later script on the shared throttle")
				continue
			}
			// between the Acquire and the defer no module call other than the error raise on the failure edge
			bad := ""
			seen := core.Reach{Stop: func(in ssa.Instruction) bool { return in == ssa.Instruction(def) }}.FromInstr(call)
			for in := range seen {
				if in == ssa.Instruction(def) {
					continue
				}
				cc, isCall := in.(ssa.CallInstruction)
				if !isCall || !core.DominatesInstr(call, in) || !reachesInstr(in, def) {
					continue
				}
				cal := core.Callee(cc)
				if cal != nil && (cal.Name() == "RaiseError" || cal.Name() == "Error") {
					continue
				}
				if _, isB := cc.Common().Value.(*ssa.Builtin); isB {
					continue
				}
				bad = p.Pos(in.Pos())
			}
			if bad != "" {
				r.Violated(rule, fname, label, p.Pos(c.Pos()), "a call at "+bad+" runs between the Acquire and the deferred release; if it panics the slot leaks")
				continue
			}
			r.Held(rule, fname, label, p.Pos(c.Pos()), "released by defer at "+p.Pos(def.Pos()))
		}
	}
}

func reachesInstr(from ssa.Instruction, to ssa.Instruction) bool {
	return core.Reach{}.FromInstr(from)[to]
}

// ---------------------------------------------------------------------------------------------
// R5 one script's failure does not cancel the others

func c19R5(p *core.Prog, r *core.Report) {
	const rule = "C19.R5"
	r.Rule(rule, "script isolation: where the runner hands scripts a context derived with a cancel function, no call of that cancel function is reachable from the failure edge of a script run (the context is shared by all scripts; cancelling it on one script's error aborts the others at their next binding)", 1)
	process := p.Method("cmd/regbot", "rootOpts", "process")
	if process == nil {
		r.MissingAnchor(rule, "cmd/regbot.(*rootOpts).process")
		return
	}
	isCtxDerive := func(f *types.Func) bool {
		if f == nil || f.Pkg() == nil || f.Pkg().Path() != "context" {
			return false
		}
		switch f.Name() {
		case "WithCancel", "WithCancelCause", "WithTimeout", "WithDeadline", "WithTimeoutCause", "WithDeadlineCause":
			return true
		}
		return false
	}
	n := 0
	for _, fn := range pkgFuncs(p, "cmd/regbot") {
		lab := labeler{}
		for _, c := range core.CallsTo(fn, func(f *types.Func) bool { return f == process.Object() }) {
			call, ok := c.(*ssa.Call)
			if !ok {
				continue
			}
			n++
			label := lab.next("script run")
			// context derivations the script's context comes from
			var derive []*ssa.Call
			for _, o := range core.Origins(core.CallArg(c, 1), core.SliceOpts{}) {
				if o.Kind == core.OCall && isCtxDerive(o.Callee()) && (o.Res == 0 || o.Res == -1) {
					derive = append(derive, o.Call)
				}
			}
			if len(derive) == 0 {
				r.Held(rule, p.FuncName(fn), label, p.Pos(c.Pos()), "the scripts' context is not derived with a cancel function in the runner")
				continue
			}
			isCancel := func(v ssa.Value) bool {
				for _, o := range core.Origins(v, core.SliceOpts{}) {
					if o.Kind == core.OCall && o.Res == 1 {
						for _, d := range derive {
							if o.Call == d {
								return true
							}
						}
					}
				}
				return false
			}
			bad := ""
			for _, e := range errEdgesOf(fn, call) {
				for in := range (core.Reach{}).FromEdge(e[0], e[1]) {
					if cc, isCall := in.(*ssa.Call); isCall && cc.Call.StaticCallee() == nil && !cc.Call.IsInvoke() && isCancel(cc.Call.Value) {
						bad = p.Pos(cc.Pos())
					}
				}
			}
			if bad != "" {
				r.Violated(rule, p.FuncName(fn), label, p.Pos(c.Pos()), "the cancel function of the context shared by the scripts is called at "+bad+" on the failure edge of this script run: the remaining and the concurrently running scripts are aborted")
			} else {
				r.Held(rule, p.FuncName(fn), label, p.Pos(c.Pos()), "no cancel of the shared context on the failure edge")
			}
		}
	}
	if n == 0 {
		r.Undecided(rule, "cmd/regbot", "script runs", "", "no call of process found")
	}
}

// c19R8: the gate of R1 covers the functions regbot gives its scripts. The interpreter has functions
// of its own: with the default library set a script can `os.remove`, `os.rename` and `io.open(…, "w")`
// any file, a layout's index.json included, and no dry-run flag stands in between. "Whatever functions
// it calls" therefore needs an interpreter that was created without the file-capable libraries (or with
// them closed again). Known finding D28 on the unchanged tree.
func c19R8(p *core.Prog, r *core.Report) {
	const rule = "C19.R8"
	r.Rule(rule, "the scripts' own library cannot touch files: every gopher-lua state created in cmd/regbot/sandbox is created with SkipOpenLibs and opens neither the os nor the io library (lua.NewState() without options opens both)", 1)
	const luaPkg = "github.com/yuin/gopher-lua"
	n := 0
	for _, fn := range pkgFuncs(p, "cmd/regbot/sandbox") {
		lab := labeler{}
		core.Calls(fn, func(c ssa.CallInstruction) {
			cal := core.Callee(c)
			if cal == nil || cal.Pkg() == nil || cal.Pkg().Path() != luaPkg {
				return
			}
			switch cal.Name() {
			case "NewState":
				n++
				skip := false
				for _, a := range c.Common().Args {
					for _, e := range variadicElems(a) {
						// Options{SkipOpenLibs: true}: a constant true stored into that field of the literal
						for _, o := range core.Origins(e, core.SliceOpts{}) {
							al, ok := o.Val.(*ssa.Alloc)
							if !ok {
								continue
							}
							for _, fv := range core.StoresToCellFields(al) {
								if b, isC := core.ConstBool(fv); isC && b {
									skip = true
								}
							}
						}
					}
				}
				r.Check(skip, rule, p.FuncName(fn), lab.next("file-capable Lua libraries"), p.Pos(c.Pos()),
					"the interpreter is created with its default libraries: a script can call os.remove, os.rename and io.open on any file, a layout's index.json included, and the dry-run flag is not consulted")
			case "OpenLibs", "OpenOs", "OpenIo":
				n++
				r.Violated(rule, p.FuncName(fn), lab.next("file-capable Lua libraries"), p.Pos(c.Pos()),
					"the "+cal.Name()+" call gives scripts the os / io functions of the interpreter, which change files without consulting the dry-run flag")
			}
		})
	}
	if n == 0 {
		r.MissingAnchor(rule, "creation of the Lua state in cmd/regbot/sandbox")
	}
}

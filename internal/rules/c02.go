package rules

import (
	"fmt"
	"go/token"
	"go/types"
	"strings"

	"golang.org/x/tools/go/ssa"

	"verif/internal/core"
)

func init() {
	register(&Spec{
		ID: "C02",
		Decides: "every method of a manifest implementation that changes its content re-synchronises raw body and descriptor (updateDesc, or stores to both) before any success return, and every success return of a setter passes the re-synchronisation; each re-synchronisation stores the marshalled bytes, their digest and their length from one value; " +
			"the constructors compute the digest from the raw bytes, check the media type and return no manifest from the digest-mismatch edge; MarshalJSON returns the stored raw bytes when present; the registry put sends MarshalJSON of its parameter, the layout put writes RawBody under GetDescriptor of the same parameter; the fetch paths pass reference, headers/raw body and the index descriptor to manifest.New; " +
			"the manifest cache must not share mutable manifests with callers (known finding D13).",
		NotCovered: "that json.Marshal output parses back to the getters' values; byte-for-byte fidelity of arbitrary bodies beyond 'the stored bytes are sent'; edits made by callers through slices returned by getters (seeded change C02-1 is only detected through its setter fast path).",
		Run:        runC02,
	})
}

// manifestImpls returns the implementation types of package types/manifest: named struct types that
// embed `common`, with the name of the embedded content field.
type manImpl struct {
	t       *types.Named
	content string
}

func manifestImpls(p *core.Prog) []manImpl {
	pkg := p.Pkg("types/manifest")
	if pkg == nil {
		return nil
	}
	var out []manImpl
	sc := pkg.Types.Scope()
	for _, name := range sc.Names() {
		tn, ok := sc.Lookup(name).(*types.TypeName)
		if !ok {
			continue
		}
		n, ok := tn.Type().(*types.Named)
		if !ok {
			continue
		}
		st, ok := n.Underlying().(*types.Struct)
		if !ok {
			continue
		}
		hasCommon, content := false, ""
		for i := 0; i < st.NumFields(); i++ {
			f := st.Field(i)
			if !f.Embedded() {
				continue
			}
			if f.Name() == "common" {
				hasCommon = true
			} else {
				content = f.Name()
			}
		}
		if hasCommon && content != "" {
			out = append(out, manImpl{n, content})
		}
	}
	return out
}

func runC02(p *core.Prog, r *core.Report) {
	c02R1R2(p, r)
	c02R3(p, r)
	c02R4(p, r)
	c02R5(p, r)
	c02R6(p, r)
	c02R7(p, r)
	c02R8(p, r)
	c02R9(p, r)
	c02R10(p, r)
	c02R11(p, r)
	c02R12(p, r)
	// what the getters of a fetched index return is not rewritten behind its back: list filters build fresh lists (shared with C03.R6)
	c03R6(p, r, "C02.R13")
	c02R14(p, r)
}

// c02R14: a signed schema1 manifest is digested over its canonical payload. The values the getters
// return have to be decoded from those same bytes: decoding the whole received document instead lets
// keys outside the signed payload (a second fsLayers after the formatLength prefix) decide what the
// manifest says while the digest says something else.
func c02R14(p *core.Prog, r *core.Report) {
	const rule = "C02.R14"
	r.Rule(rule, "parsed bytes = digested bytes (signed schema1): in (*SignedManifest).UnmarshalJSON every json.Unmarshal into the manifest fields takes the signature payload (the value stored as Canonical), never the function's parameter", 1)
	sm := p.Named("types/docker/schema1", "SignedManifest")
	var fn *ssa.Function
	if sm != nil {
		fn = p.MethodOf(sm, "UnmarshalJSON")
	}
	if fn == nil {
		r.MissingAnchor(rule, "types/docker/schema1.(*SignedManifest).UnmarshalJSON")
		return
	}
	n := 0
	lab := labeler{}
	for _, g := range sortedFuncs(core.Helpers(fn, 2)) {
		core.Calls(g, func(c ssa.CallInstruction) {
			cal := core.Callee(c)
			if cal == nil || !(core.IsFunc(cal, "encoding/json", "Unmarshal")) || len(c.Common().Args) != 2 {
				return
			}
			dst := underIface(c.Common().Args[1])
			pt, ok := dst.Type().Underlying().(*types.Pointer)
			if !ok || !core.IsModNamed(pt.Elem(), "types/docker/schema1", "Manifest") {
				return
			}
			n++
			fromParam := core.HasOrigin(core.Origins(c.Common().Args[0], core.SliceOpts{Helpers: core.Helpers(fn, 2)}), func(o core.Origin) bool {
				return o.Kind == core.OParam && o.Param.Parent() == fn
			})
			r.Check(!fromParam, rule, p.FuncName(g), lab.next("manifest fields decoded from"), p.Pos(c.Pos()),
				"the manifest fields are decoded from the received document, the digest is computed over the signature payload: keys outside the payload change what the getters return without changing the digest")
		})
	}
	if n == 0 {
		r.Undecided(rule, p.FuncName(fn), "manifest fields decoded from", p.Pos(fn.Pos()), "no json.Unmarshal into the manifest fields found")
	}
}

// rootedAt reports whether address a is (a field/element chain of) field `field` of receiver recv.
func rootedAt(a ssa.Value, recv *ssa.Parameter, field string) bool {
	for d := 0; d < 12 && a != nil; d++ {
		switch x := a.(type) {
		case *ssa.FieldAddr:
			if x.X == ssa.Value(recv) && core.FieldName(x.X.Type(), x.Field) == field {
				return true
			}
			a = x.X
		case *ssa.IndexAddr:
			a = x.X
		case *ssa.UnOp:
			a = x.X
		default:
			return false
		}
	}
	return false
}

func c02R1R2(p *core.Prog, r *core.Report) {
	const rule = "C02.R1"
	r.Rule(rule, "setter funnel: after a method of a manifest implementation changed the content, and on every success return of a Set* method, raw body and descriptor have been re-synchronised", 22)
	r.Rule("C02.R2", "resync coherence: each re-synchronisation stores the marshalled bytes as raw body and derives digest and size from that same value", 6)
	impls := manifestImpls(p)
	if len(impls) < 7 {
		r.Undecided(rule, "types/manifest", "implementation types", "-", fmt.Sprintf("found %d implementation types embedding common, 7 confirmed by hand", len(impls)))
	}
	for _, im := range impls {
		ptr := types.NewPointer(im.t)
		ms := p.SSA.MethodSets.MethodSet(ptr)
		for i := 0; i < ms.Len(); i++ {
			obj := ms.At(i).Obj().(*types.Func)
			fn := p.SSA.FuncValue(obj)
			if fn == nil || fn.Synthetic != "" || len(fn.Params) == 0 || len(fn.Blocks) == 0 {
				continue
			}
			if core.NamedOf(fn.Signature.Recv().Type()) != im.t {
				continue // promoted from common
			}
			recv := fn.Params[0]
			fname := p.FuncName(fn)
			isResync := func(in ssa.Instruction) bool {
				if c, ok := in.(ssa.CallInstruction); ok {
					if g := core.CalleeFn(c); g != nil && canon(g) == "updateDesc" && g.Signature.Recv() != nil && core.NamedOf(g.Signature.Recv().Type()) == im.t {
						return true
					}
				}
				if st, ok := in.(*ssa.Store); ok {
					// store to rawBody of common
					if fa, ok := st.Addr.(*ssa.FieldAddr); ok && core.FieldName(fa.X.Type(), fa.Field) == "rawBody" {
						return true
					}
				}
				return false
			}
			// mutation sites
			var muts []ssa.Instruction
			for _, b := range fn.Blocks {
				for _, in := range b.Instrs {
					switch x := in.(type) {
					case *ssa.Store:
						if rootedAt(x.Addr, recv, im.content) {
							muts = append(muts, in)
						}
					case *ssa.MapUpdate:
						if rootedAt(x.Map, recv, im.content) {
							muts = append(muts, in)
						}
					case *ssa.Call:
						if b, ok := x.Call.Value.(*ssa.Builtin); ok && b.Name() == "delete" && rootedAt(x.Call.Args[0], recv, im.content) {
							muts = append(muts, in)
						}
					}
				}
			}
			isSetter := strings.HasPrefix(fn.Name(), "Set") && fn.Signature.Results().Len() == 1
			if len(muts) == 0 && !isSetter {
				continue
			}
			if canon(fn) == "updateDesc" {
				continue
			}
			bad := ""
			check := func(from func() map[ssa.Instruction]bool, what string) {
				for in := range from() {
					ret, ok := in.(*ssa.Return)
					if !ok || len(ret.Results) == 0 {
						continue
					}
					v := core.ReturnOperand(ret, len(ret.Results)-1)
					if core.IsNilConst(v) {
						bad = what + " reaches `return nil` at " + p.Pos(ret.Pos()) + " without re-synchronising raw body and descriptor"
					}
				}
			}
			// a method that re-serialises inline (stores rawBody itself, from the value it installs) may do so
			// before or after installing the content; one that relies on updateDesc must call it afterwards
			inline := false
			for _, b := range fn.Blocks {
				for _, in := range b.Instrs {
					if st, ok := in.(*ssa.Store); ok {
						if fa, ok := st.Addr.(*ssa.FieldAddr); ok && core.FieldName(fa.X.Type(), fa.Field) == "rawBody" {
							inline = true
						}
					}
				}
			}
			for _, m := range muts {
				m := m
				if inline {
					check(func() map[ssa.Instruction]bool { return core.Reach{Stop: isResync}.FromEntry(fn) }, "a path to the content change at "+p.Pos(m.Pos()))
					continue
				}
				check(func() map[ssa.Instruction]bool { return core.Reach{Stop: isResync}.FromInstr(m) }, "the content change at "+p.Pos(m.Pos()))
			}
			if isSetter {
				// every success return of a setter passes the resync (no "nothing changed" fast path: callers
				// edit the slices returned by the getters in place before calling the setter)
				check(func() map[ssa.Instruction]bool { return core.Reach{Stop: isResync}.FromEntry(fn) }, "a path from the entry")
			}
			if bad != "" {
				r.Violated(rule, fname, "resync before success", p.Pos(fn.Pos()), bad+": the reported digest and the bytes that will be pushed no longer describe the content the getters return")
			} else {
				r.Held(rule, fname, "resync before success", p.Pos(fn.Pos()), fmt.Sprintf("%d content changes, all followed by a re-synchronisation", len(muts)))
			}
		}
		// R2: resync points of this type
		for i := 0; i < ms.Len(); i++ {
			obj := ms.At(i).Obj().(*types.Func)
			fn := p.SSA.FuncValue(obj)
			if fn == nil || len(fn.Blocks) == 0 || core.NamedOf(fn.Signature.Recv().Type()) != im.t {
				continue
			}
			var rawStore *ssa.Store
			storeFn := fn
			scope := map[*ssa.Function]bool{fn: true}
			if canon(fn) == "updateDesc" {
				scope = core.Helpers(fn, 2) // the store may live in a helper shared by the implementations
			}
			for _, sf := range sortedFuncs(scope) {
				for _, b := range sf.Blocks {
					for _, in := range b.Instrs {
						if st, ok := in.(*ssa.Store); ok {
							if fa, ok := st.Addr.(*ssa.FieldAddr); ok && core.FieldName(fa.X.Type(), fa.Field) == "rawBody" {
								rawStore, storeFn = st, sf
							}
						}
					}
				}
			}
			if rawStore == nil {
				if canon(fn) == "updateDesc" {
					r.Violated("C02.R2", p.FuncName(fn), "coherent resync", p.Pos(fn.Pos()), "the re-synchronisation no longer stores the raw body: after an edit the manifest keeps pushing its old bytes under a new digest")
				}
				continue
			}
			fname := p.FuncName(fn)
			raw := rawStore.Val
			// raw comes from json.Marshal
			fromMarshal := false
			for _, o := range core.Origins(raw, core.SliceOpts{Helpers: scope}) {
				if o.Kind == core.OCall && o.Callee() != nil && core.IsFunc(o.Callee(), "encoding/json", "Marshal") {
					fromMarshal = true
				}
			}
			// digest from FromBytes(x), size from len(y): x and y are raw, or (signed schema1) the canonical payload
			digOK, sizeOK := false, false
			signed := strings.Contains(im.t.Obj().Name(), "Signed")
			core.Calls(storeFn, func(c ssa.CallInstruction) {
				cal := core.Callee(c)
				if cal != nil && cal.Name() == "FromBytes" {
					arg := c.Common().Args[len(c.Common().Args)-1]
					if sameOrigin(arg, raw) || (signed && strings.Contains(accessPath(arg), "Canonical")) {
						digOK = true
					}
				}
				if b, ok := c.Common().Value.(*ssa.Builtin); ok && b.Name() == "len" {
					arg := c.Common().Args[0]
					if sameOrigin(arg, raw) || (signed && strings.Contains(accessPath(arg), "Canonical")) {
						sizeOK = true
					}
				}
			})
			ok := fromMarshal && digOK && sizeOK
			r.Check(ok, "C02.R2", fname, "coherent resync", p.Pos(rawStore.Pos()),
				fmt.Sprintf("raw body from json.Marshal: %v; digest of the same bytes: %v; size of the same bytes: %v (signed schema1 uses its canonical payload for digest and size)", fromMarshal, digOK, sizeOK))
		}
	}
}

func sameOrigin(a, b ssa.Value) bool {
	if a == b {
		return true
	}
	ca, cb := originCalls(a), originCalls(b)
	if len(ca) == 0 || len(ca) != len(cb) {
		return false
	}
	for i := range ca {
		if ca[i] != cb[i] {
			return false
		}
	}
	return true
}

func c02R3(p *core.Prog, r *core.Report) {
	const rule = "C02.R3"
	r.Rule(rule, "constructors compare: no manifest is returned from the edge on which the expected digest differs from the digest recomputed from the raw bytes; the media type check precedes every success return", 4)
	for _, name := range []string{"fromCommon", "fromOrig"} {
		fn := p.Func("types/manifest", name)
		if fn == nil {
			r.MissingAnchor(rule, "types/manifest."+name)
			continue
		}
		fname := p.FuncName(fn)
		var okRets []*ssa.Return
		for _, ret := range core.Returns(fn) {
			if core.IsNilConst(core.ReturnOperand(ret, 1)) {
				okRets = append(okRets, ret)
			}
		}
		edges := mismatchEdges(fn, func(bo *ssa.BinOp) bool {
			if !isDigestType(bo.X.Type()) {
				return false
			}
			if s, ok := core.ConstString(bo.Y); ok && s == "" {
				return false
			}
			return true
		})
		ok := len(edges) > 0
		for _, e := range edges {
			seen := core.Reach{}.FromEdge(e[0], e[1])
			for _, ret := range okRets {
				if seen[ret] {
					ok = false
				}
			}
		}
		r.Check(ok, rule, fname, "digest mismatch returns no manifest", p.Pos(fn.Pos()), "the expected digest (reference, descriptor or header) is compared with the recomputed one and the mismatch edge reaches no success return")
		// digest assigned from FromBytes
		fromBytes := false
		for _, fs := range fieldStores([]*ssa.Function{fn}, func(n *types.Named, f string) bool { return f == "Digest" && n.Obj().Name() == "Descriptor" }) {
			for _, oc := range originCalls(fs.Store.Val) {
				if cal := core.Callee(oc); cal != nil && cal.Name() == "FromBytes" {
					fromBytes = true
				}
			}
		}
		// verifyMT on every path to success
		isVerify := func(in ssa.Instruction) bool {
			c, ok := in.(ssa.CallInstruction)
			if !ok {
				return false
			}
			g := core.CalleeFn(c)
			return g != nil && canon(g) == "verifyMT"
		}
		// the check written in place: a comparison of the descriptor's media type with the one the
		// body declares (both strings), whose "differ" edge leaves with an error; passing the
		// comparison on its "agree" edge (or the edge on which the body declares none) is the check
		inlineMT := func(from, to *ssa.BasicBlock) bool {
			return false
		}
		isMTCompare := func(in ssa.Instruction) bool {
			ifi, ok := in.(*ssa.If)
			if !ok {
				return false
			}
			cnd, _ := core.StripNot(ifi.Cond, true)
			bo, ok := cnd.(*ssa.BinOp)
			if !ok || (bo.Op != token.NEQ && bo.Op != token.EQL) || !isStringType(bo.X.Type()) {
				return false
			}
			if _, isK := core.ConstString(bo.Y); isK {
				return false
			}
			if _, isK := core.ConstString(bo.X); isK {
				return false
			}
			descMT := func(v ssa.Value) bool {
				return dependsOnField(v, modPath("types/descriptor"), "Descriptor", "MediaType")
			}
			if !descMT(bo.X) && !descMT(bo.Y) {
				return false
			}
			// one of the successors returns an error
			for _, sc := range in.Block().Succs {
				if ret, isRet := core.LastInstr(sc).(*ssa.Return); isRet && len(ret.Results) > 0 && !core.IsNilConst(core.ReturnOperand(ret, len(ret.Results)-1)) {
					return true
				}
			}
			return false
		}
		_ = inlineMT
		// the declared media types that are compared in place; a body that declares none has nothing to contradict
		declared := map[ssa.Value]bool{}
		for _, b := range fn.Blocks {
			if ifi, ok := core.LastInstr(b).(*ssa.If); ok && isMTCompare(ifi) {
				cnd, _ := core.StripNot(ifi.Cond, true)
				bo := cnd.(*ssa.BinOp)
				for _, side := range []ssa.Value{bo.X, bo.Y} {
					if !dependsOnField(side, modPath("types/descriptor"), "Descriptor", "MediaType") {
						declared[side] = true
					}
				}
			}
		}
		noneDeclared := func(from, to *ssa.BasicBlock) bool {
			ifi, ok := core.LastInstr(from).(*ssa.If)
			if !ok {
				return false
			}
			cnd, pol := core.StripNot(ifi.Cond, true)
			bo, ok := cnd.(*ssa.BinOp)
			if !ok || (bo.Op != token.NEQ && bo.Op != token.EQL) {
				return false
			}
			k, isK := core.ConstString(bo.Y)
			if !isK || k != "" || !declared[bo.X] {
				return false
			}
			emptySucc := from.Succs[0]
			if (bo.Op == token.EQL) != pol {
				emptySucc = from.Succs[1]
			}
			return to == emptySucc
		}
		mtOK := true
		seen := core.Reach{Stop: func(in ssa.Instruction) bool { return isVerify(in) || isMTCompare(in) }, StopEdge: noneDeclared}.FromEntry(fn)
		for _, ret := range okRets {
			if seen[ret] {
				mtOK = false
			}
		}
		r.Check(fromBytes && mtOK, rule, fname, "digest recomputed, media type checked", p.Pos(fn.Pos()), fmt.Sprintf("descriptor digest assigned from FromBytes: %v; verifyMT on every path to a success return: %v", fromBytes, mtOK))
	}
}

func c02R4(p *core.Prog, r *core.Report) {
	const rule = "C02.R4"
	r.Rule(rule, "raw bytes are what is sent: MarshalJSON returns the stored raw body when it is present; the registry put sends m.MarshalJSON() of its parameter; the layout put writes m.RawBody() under m.GetDescriptor() of the same parameter", 8)
	for _, im := range manifestImpls(p) {
		fn := p.MethodOf(im.t, "MarshalJSON")
		if fn == nil || core.NamedOf(fn.Signature.Recv().Type()) != im.t {
			continue
		}
		fname := p.FuncName(fn)
		if strings.Contains(im.t.Obj().Name(), "Signed") {
			// listed exception: the signed schema1 manifest re-attaches its stored signatures
			ok := false
			core.Calls(fn, func(c ssa.CallInstruction) {
				if cal := core.Callee(c); cal != nil && cal.Name() == "MarshalJSON" {
					ok = true
				}
			})
			r.Check(ok, rule, fname, "signed schema1 delegates", p.Pos(fn.Pos()), "listed exception: SignedManifest.MarshalJSON re-attaches the stored signatures to the stored payload")
			continue
		}
		ok := false
		// in the method or in an unexported helper it shares with the other implementations: on the edge
		// on which the stored raw body is not empty (len(rawBody) > 0, != 0, …) the raw body is returned
		isRaw := func(v ssa.Value) bool {
			if u, isU := v.(*ssa.UnOp); isU {
				if fa, isFA := u.X.(*ssa.FieldAddr); isFA && core.FieldName(fa.X.Type(), fa.Field) == "rawBody" {
					return true
				}
			}
			return false
		}
		for _, f := range sortedFuncs(core.Helpers(fn, 1)) {
			for _, b := range f.Blocks {
				ifi, isIf := core.LastInstr(b).(*ssa.If)
				if !isIf {
					continue
				}
				cnd, pol := core.StripNot(ifi.Cond, true)
				bo, isB := cnd.(*ssa.BinOp)
				if !isB {
					continue
				}
				// len(rawBody) compared with zero
				lenOfRaw := func(v ssa.Value) bool {
					c, isC := v.(*ssa.Call)
					if !isC {
						return false
					}
					bi, isBi := c.Call.Value.(*ssa.Builtin)
					return isBi && bi.Name() == "len" && isRaw(c.Call.Args[0])
				}
				nonEmpty := -1 // successor taken when the raw body is not empty
				switch {
				case lenOfRaw(bo.X) && isConstZero(bo.Y):
					switch bo.Op {
					case token.GTR, token.NEQ:
						nonEmpty = 0
					case token.EQL, token.LEQ:
						nonEmpty = 1
					}
				case lenOfRaw(bo.Y) && isConstZero(bo.X):
					switch bo.Op {
					case token.LSS, token.NEQ:
						nonEmpty = 0
					case token.EQL, token.GEQ:
						nonEmpty = 1
					}
				}
				if nonEmpty < 0 {
					continue
				}
				if !pol {
					nonEmpty = 1 - nonEmpty
				}
				if ret, isRet := core.LastInstr(b.Succs[nonEmpty]).(*ssa.Return); isRet && isRaw(core.ReturnOperand(ret, 0)) {
					// a helper's result must be what the method returns
					if f == fn {
						ok = true
					} else {
						for _, mr := range core.Returns(fn) {
							for _, oc := range originCalls(core.ReturnOperand(mr, 0)) {
								if oc.Call.StaticCallee() == f {
									ok = true
								}
							}
						}
					}
				}
			}
		}
		r.Check(ok, rule, fname, "returns stored raw body", p.Pos(fn.Pos()), "when raw bytes are stored they are returned unchanged (a fetched manifest is re-pushed byte for byte)")
	}
	// registry put
	if fn := p.Method("scheme/reg", "Reg", "ManifestPut"); fn != nil {
		var mParam *ssa.Parameter
		for _, pr := range fn.Params {
			if core.IsModNamed(pr.Type(), "types/manifest", "Manifest") {
				mParam = pr
			}
		}
		ok := false
		for _, lit := range reqLiterals(p) {
			if lit.Fn != fn {
				continue
			}
			body := lit.Fields["BodyBytes"]
			for _, oc := range originCalls(body) {
				if isInvoke(oc, "MarshalJSON") && oc.Call.Value == ssa.Value(mParam) {
					ok = true
				}
			}
		}
		r.Check(ok, rule, p.FuncName(fn), "request body is m.MarshalJSON()", p.Pos(fn.Pos()), "the bytes sent are the manifest's own serialisation")
	} else {
		r.MissingAnchor(rule, "scheme/reg.(*Reg).ManifestPut")
	}
	// layout put
	if fn := p.Method(ocidirRel, "OCIDir", "manifestPut"); fn != nil {
		var mParam *ssa.Parameter
		for _, pr := range fn.Params {
			if core.IsModNamed(pr.Type(), "types/manifest", "Manifest") {
				mParam = pr
			}
		}
		fromM := func(v ssa.Value, method string) bool {
			for _, oc := range originCalls(v) {
				if isInvoke(oc, method) {
					for _, o := range core.Origins(oc.Call.Value, core.SliceOpts{}) {
						if o.Kind == core.OParam && o.Param == mParam {
							return true
						}
					}
				}
			}
			return false
		}
		bytesOK, nameOK := false, false
		// the write may live in an unexported helper of the package: values inside it are mapped back
		// to the arguments of the call
		expand := func(v ssa.Value, h *ssa.Function, call ssa.CallInstruction) []ssa.Value {
			if call == nil {
				return []ssa.Value{v}
			}
			var out []ssa.Value
			for _, o := range core.Origins(v, core.SliceOpts{FieldsThrough: true}) {
				if o.Kind != core.OParam {
					continue
				}
				for i, q := range h.Params {
					if q == o.Param {
						out = append(out, core.CallArg(call, i))
					}
				}
			}
			return out
		}
		scan := func(h *ssa.Function, call ssa.CallInstruction) {
			core.Calls(h, func(c ssa.CallInstruction) {
				cal := core.Callee(c)
				if cal == nil {
					return
				}
				if core.IsMethod(cal, "os", "File", "Write") {
					for _, v := range expand(core.CallArg(c, 1), h, call) {
						if fromM(v, "RawBody") {
							bytesOK = true
						}
					}
				}
				if isOS(cal, "Rename") {
					leaves := pathLeaves(core.CallArg(c, 1))
					if call != nil {
						// a leaf that is a parameter of the helper: the leaves of the caller's argument
						for _, l := range pathLeaves(core.CallArg(c, 1)) {
							if par, ok := l.(*ssa.Parameter); ok {
								for i, q := range h.Params {
									if q == par {
										for _, l2 := range pathLeaves(core.CallArg(call, i)) {
											if lc, ok := l2.(*ssa.Call); ok {
												if f := core.Callee(lc); f != nil && f.Name() == "Encoded" {
													for _, o := range core.Origins(core.CallArg(lc, 0), core.SliceOpts{FieldsThrough: true}) {
														if o.Kind == core.OCall && isInvoke(o.Call, "GetDescriptor") {
															nameOK = true
														}
													}
												}
											}
										}
									}
								}
							}
						}
					}
					for _, l := range leaves {
						if lc, ok := l.(*ssa.Call); ok {
							if f := core.Callee(lc); f != nil && f.Name() == "Encoded" {
								for _, v := range expand(core.CallArg(lc, 0), h, call) {
									for _, o := range core.Origins(v, core.SliceOpts{FieldsThrough: true}) {
										if o.Kind == core.OCall && isInvoke(o.Call, "GetDescriptor") {
											nameOK = true
										}
									}
								}
							}
						}
					}
				}
			})
		}
		scan(fn, nil)
		core.Calls(fn, func(c ssa.CallInstruction) {
			h := core.CalleeFn(c)
			if h == nil || h == fn || core.FuncPkg(h) == nil || core.FuncPkg(h).Path() != modPath(ocidirRel) || h.Object() == nil || h.Object().Exported() {
				return
			}
			scan(h, c)
		})
		r.Check(bytesOK && nameOK, rule, p.FuncName(fn), "file content and name from one manifest", p.Pos(fn.Pos()), fmt.Sprintf("bytes written = m.RawBody(): %v; file name = Encoded() of m.GetDescriptor().Digest: %v", bytesOK, nameOK))
	} else {
		r.MissingAnchor(rule, ocidirRel+".(*OCIDir).manifestPut")
	}
}

func c02R5(p *core.Prog, r *core.Report) {
	const rule = "C02.R5"
	r.Rule(rule, "fetch paths verify: what the schemes return from a get is built by manifest.New with the caller's reference and the body (registry: plus headers; layout: plus the descriptor found in the index), so the expected digest reaches the constructor's comparison", 2)
	type want struct {
		rel, typ, name string
		opts           []string
	}
	for _, w := range []want{
		{"scheme/reg", "Reg", "ManifestGet", []string{"WithRef", "WithHeader", "WithRaw"}},
		{ocidirRel, "OCIDir", "manifestGet", []string{"WithRef", "WithDesc", "WithRaw"}},
	} {
		fn := p.Method(w.rel, w.typ, w.name)
		if fn == nil {
			r.MissingAnchor(rule, w.rel+"."+w.name)
			continue
		}
		fname := p.FuncName(fn)
		found := false
		var news []ssa.CallInstruction
		for _, g := range sortedFuncs(core.Helpers(fn, 2)) {
			// (the body may be read and parsed in an unexported helper of the fetch function)
			news = append(news, core.CallsTo(g, func(f *types.Func) bool { return core.IsModFunc(f, "types/manifest", "New") })...)
		}
		for _, c := range news {
			call, ok := c.(*ssa.Call)
			if !ok {
				continue
			}
			have := map[string]*ssa.Call{}
			for _, oc := range optCalls(call.Call.Args[0]) {
				if cal := core.Callee(oc); cal != nil {
					have[cal.Name()] = oc
				}
			}
			if have["WithRaw"] == nil {
				continue
			}
			found = true
			var missing []string
			for _, o := range w.opts {
				if have[o] == nil {
					missing = append(missing, o)
				}
			}
			detail := "options " + strings.Join(w.opts, ", ")
			ok = len(missing) == 0
			if !ok {
				detail = "manifest.New is called without " + strings.Join(missing, ", ")
			}
			// the reference passed is the function's own reference parameter
			if oc := have["WithRef"]; oc != nil {
				refOK := false
				hs := core.Helpers(fn, 2)
				for _, o := range core.Origins(oc.Call.Args[0], core.SliceOpts{Through: refThroughAll, Helpers: hs, Callers: map[*ssa.Function]bool{fn: true}}) {
					if o.Kind == core.OParam && o.Param.Parent() == fn && core.IsModNamed(o.Param.Type(), "types/ref", "Ref") {
						refOK = true
					}
				}
				if !refOK {
					ok = false
					detail = "WithRef does not carry the caller's reference (a digest in the reference would not be checked)"
				}
			}
			// layout: the descriptor is the one found in the index (or built from the reference digest), not a fresh literal
			if oc := have["WithDesc"]; oc != nil && w.rel == ocidirRel {
				fromIndex := false
				isLookup := func(f *ssa.Function) bool { return canon(f) == "indexGet" }
				for _, o := range core.Origins(oc.Call.Args[0], core.SliceOpts{Helpers: core.HelpersExcept(fn, 2, isLookup)}) {
					if o.Kind == core.OCall && o.Callee() != nil && canonObj(o.Callee()) == "indexGet" {
						fromIndex = true
					}
				}
				if !fromIndex {
					ok = false
					detail = "WithDesc does not carry the descriptor found in index.json: for a reference by tag the index digest is the only expected digest, without it the file content is returned unverified"
				}
			}
			r.Check(ok, rule, fname, "manifest.New options", p.Pos(c.Pos()), detail)
		}
		if !found {
			r.Violated(rule, fname, "manifest.New options", p.Pos(fn.Pos()), "no manifest.New(… WithRaw(body) …) found on the fetch path")
		}
	}
}

func refThroughAll(c *ssa.Call) []int {
	cal := core.Callee(c)
	if cal == nil {
		return nil
	}
	sig, ok := cal.Type().(*types.Signature)
	if !ok || sig.Recv() == nil || !core.IsModNamed(sig.Recv().Type(), "types/ref", "Ref") {
		return nil
	}
	switch cal.Name() {
	case "SetDigest", "AddDigest", "SetTag":
		return []int{0}
	}
	return nil
}

func c02R6(p *core.Prog, r *core.Report) {
	const rule = "C02.R6"
	r.Rule(rule, "no aliasing through the cache: a mutable manifest stored in or taken from the registry scheme's manifest cache is not also handed to the caller", 3)
	for _, cc := range regCacheCalls(p) {
		if cc.method == "Delete" {
			continue
		}
		fname := p.FuncName(cc.fn)
		switch cc.method {
		case "Get":
			call, ok := cc.c.(*ssa.Call)
			if !ok || !core.IsModNamed(call.Type().(*types.Tuple).At(0).Type(), "types/manifest", "Manifest") {
				continue
			}
			returned := false
			for _, ret := range core.Returns(cc.fn) {
				for i := range ret.Results {
					for _, o := range core.Origins(core.ReturnOperand(ret, i), core.SliceOpts{}) {
						if o.Kind == core.OCall && o.Call == call {
							returned = true
						}
					}
				}
			}
			r.Check(!returned, rule, fname, "cached manifest returned", p.Pos(cc.c.Pos()), "the manifest object held by the cache is returned to the caller: an edit through the setter API changes what later gets of the same digest return")
		case "Set":
			val := core.CallArg(cc.c, 2)
			if !core.IsModNamed(val.Type(), "types/manifest", "Manifest") {
				continue
			}
			shared := false
			for _, o := range core.Origins(val, core.SliceOpts{}) {
				if o.Kind == core.OParam {
					shared = true // the caller keeps its own reference to the parameter
				}
			}
			for _, ret := range core.Returns(cc.fn) {
				for i := range ret.Results {
					if sameOrigin(core.ReturnOperand(ret, i), val) {
						shared = true
					}
				}
			}
			r.Check(!shared, rule, fname, "stored manifest shared", p.Pos(cc.c.Pos()), "the manifest object put into the cache stays reachable by the caller (parameter or return value): editing it poisons the cache entry of its old digest")
		}
	}
}

// ---------------------------------------------------------------------------------------------
// R7 the constructors describe the stored raw bytes

func c02R7(p *core.Prog, r *core.Report) {
	const rule = "C02.R7"
	r.Rule(rule, "constructors describe the raw bytes: the digest stored into the descriptor is FromBytes of the stored raw body (signed schema1: its canonical payload), and from that store every path to a success return passes a store of len(raw body) into the descriptor size (no 'keep the size that was supplied' path)", 2)
	for _, name := range []string{"fromCommon", "fromOrig"} {
		fn := p.Func("types/manifest", name)
		if fn == nil {
			r.MissingAnchor(rule, "types/manifest."+name)
			continue
		}
		fname := p.FuncName(fn)
		var okRets []*ssa.Return
		for _, ret := range core.Returns(fn) {
			if core.IsNilConst(core.ReturnOperand(ret, 1)) {
				okRets = append(okRets, ret)
			}
		}
		isRawLen := func(in ssa.Instruction) bool {
			st, ok := in.(*ssa.Store)
			if !ok {
				return false
			}
			fa, ok := st.Addr.(*ssa.FieldAddr)
			if !ok {
				return false
			}
			n, f := core.FieldAddrInfo(fa)
			if n == nil || f != "Size" || n.Obj().Name() != "Descriptor" {
				return false
			}
			v := st.Val
			if cv, ok := v.(*ssa.Convert); ok {
				v = cv.X
			}
			c, ok := v.(*ssa.Call)
			if !ok {
				return false
			}
			if b, ok := c.Call.Value.(*ssa.Builtin); !ok || b.Name() != "len" {
				return false
			}
			return strings.HasSuffix(accessPath(c.Call.Args[0]), ".rawBody")
		}
		lab := labeler{}
		n := 0
		for _, fs := range fieldStores([]*ssa.Function{fn}, func(nn *types.Named, f string) bool { return f == "Digest" && nn.Obj().Name() == "Descriptor" }) {
			for _, oc := range originCalls(fs.Store.Val) {
				cal := core.Callee(oc)
				if cal == nil || cal.Name() != "FromBytes" {
					continue
				}
				n++
				arg := core.CallArg(oc, 1)
				ap := accessPath(arg)
				label := lab.next("descriptor digest")
				// the bytes may be chosen first (`hashed := c.rawBody; if signed { hashed = signed.Canonical }`)
				if _, isPhi := arg.(*ssa.Phi); isPhi {
					var leaves func(v ssa.Value, d int) []ssa.Value
					leaves = func(v ssa.Value, d int) []ssa.Value {
						if ph, ok := v.(*ssa.Phi); ok && d < 4 {
							var out []ssa.Value
							for _, e := range ph.Edges {
								out = append(out, leaves(e, d+1)...)
							}
							return out
						}
						return []ssa.Value{v}
					}
					raw, other := false, ""
					for _, l := range leaves(arg, 0) {
						lp := accessPath(l)
						switch {
						case strings.HasSuffix(lp, ".rawBody"):
							raw = true
						case strings.HasSuffix(lp, ".Canonical"):
						default:
							other = quoteOr(lp, "a value that is not the raw body field")
						}
					}
					if other == "" && raw {
						ap = ".rawBody"
					} else if other == "" {
						ap = ".Canonical"
					}
				}
				switch {
				case strings.HasSuffix(ap, ".Canonical"):
					r.Held(rule, fname, label+" (signed schema1)", p.Pos(fs.Store.Pos()), "listed exception: the digest of a signed schema1 manifest is that of its canonical payload; its size is not checked here")
				case strings.HasSuffix(ap, ".rawBody"):
					seen := core.Reach{Stop: isRawLen}.FromInstr(fs.Store)
					bad := ""
					for _, ret := range okRets {
						if seen[ret] {
							bad = p.Pos(ret.Pos())
						}
					}
					if bad != "" {
						r.Violated(rule, fname, label, p.Pos(fs.Store.Pos()), "the success return at "+bad+" is reachable from the digest store without the descriptor size being set to len(raw body): a size supplied with the descriptor or a header survives although it is not the length of the bytes")
					} else {
						r.Held(rule, fname, label, p.Pos(fs.Store.Pos()), "digest of the stored raw body; the size is set to its length on every path to a success return")
					}
				default:
					r.Violated(rule, fname, label, p.Pos(fs.Store.Pos()), "the digest is computed from "+quoteOr(ap, "a value that is not the raw body field")+" and not from the stored raw body: when raw bytes were supplied the descriptor names other bytes than RawBody returns")
				}
			}
		}
		if n == 0 {
			r.Violated(rule, fname, "descriptor digest", p.Pos(fn.Pos()), "no store of a recomputed digest into the descriptor")
		}
	}
}

func quoteOr(s, alt string) string {
	if s == "" || strings.HasPrefix(s, "call@") || strings.HasPrefix(s, "phi@") {
		return alt
	}
	return s
}

// ---------------------------------------------------------------------------------------------
// R8 nobody re-encodes a manifest

// isManifestValue: the static type of v (before boxing) is the Manifest interface or a type whose
// method set implements it.
func isManifestValue(p *core.Prog, v ssa.Value) bool {
	pkg := p.Pkg("types/manifest")
	if pkg == nil {
		return false
	}
	tn, _ := pkg.Types.Scope().Lookup("Manifest").(*types.TypeName)
	if tn == nil {
		return false
	}
	iface, _ := tn.Type().Underlying().(*types.Interface)
	if iface == nil {
		return false
	}
	for i := 0; i < 4; i++ {
		switch x := v.(type) {
		case *ssa.MakeInterface:
			v = x.X
			continue
		case *ssa.ChangeInterface:
			v = x.X
			continue
		}
		break
	}
	t := v.Type()
	if types.Identical(t, tn.Type()) {
		return true
	}
	if _, isI := t.Underlying().(*types.Interface); isI {
		return types.Implements(t, iface) && t.Underlying().(*types.Interface).NumMethods() > 0
	}
	return types.Implements(t, iface) || types.Implements(types.NewPointer(t), iface)
}

func c02R8(p *core.Prog, r *core.Report) {
	const rule = "C02.R8"
	r.Rule(rule, "raw bytes are preserved: in the packages that store or send content no manifest value is handed to encoding/json (json.Marshal compacts and HTML-escapes what MarshalJSON returns, so the bytes written would no longer hash to the digest); helpers that encode an `any` parameter are followed to their callers", 3)
	scope := map[string]bool{modPath("."): true, modPath("scheme/reg"): true, modPath("scheme/ocidir"): true, modPath("mod"): true, modPath("pkg/archive"): true}
	isEnc := func(f *types.Func) bool {
		if f == nil || f.Pkg() == nil || f.Pkg().Path() != "encoding/json" {
			return false
		}
		return f.Name() == "Marshal" || f.Name() == "MarshalIndent" || f.Name() == "Encode"
	}
	var check func(fn *ssa.Function, v ssa.Value, site ssa.Instruction, via string, depth int)
	seenParam := map[*ssa.Parameter]bool{}
	lab := map[*ssa.Function]labeler{}
	check = func(fn *ssa.Function, v ssa.Value, site ssa.Instruction, via string, depth int) {
		if lab[fn] == nil {
			lab[fn] = labeler{}
		}
		label := lab[fn].next("JSON encoding" + via)
		if isManifestValue(p, v) {
			r.Violated(rule, p.FuncName(fn), label, p.Pos(site.Pos()), "a manifest is re-encoded with encoding/json; the output is the compacted, HTML-escaped form of its raw body and does not hash to its digest unless the body happened to be in that form")
			return
		}
		// an `any` parameter: follow to the callers
		inner := v
		if mi, ok := inner.(*ssa.MakeInterface); ok {
			inner = mi.X
		}
		if pr, ok := inner.(*ssa.Parameter); ok && depth < 3 {
			if _, isI := pr.Type().Underlying().(*types.Interface); isI && !seenParam[pr] {
				seenParam[pr] = true
				idx := -1
				for i, q := range fn.Params {
					if q == pr {
						idx = i
					}
				}
				for _, st := range p.Callers(fn) {
					c, ok := st.Site.(ssa.CallInstruction)
					if !ok || core.CalleeFn(c) != fn || idx < 0 {
						continue
					}
					check(st.From, core.CallArg(c, idx), st.Site, " through "+fn.Name(), depth+1)
				}
			}
		}
		r.Held(rule, p.FuncName(fn), label, p.Pos(site.Pos()), "the encoded value is not a manifest")
	}
	for _, fn := range p.ModFuncs {
		pk := core.FuncPkg(fn)
		if pk == nil || !scope[pk.Path()] || fn.Synthetic != "" {
			continue
		}
		core.Calls(fn, func(c ssa.CallInstruction) {
			if !isEnc(core.Callee(c)) {
				return
			}
			args := c.Common().Args
			if len(args) == 0 {
				return
			}
			v := args[0]
			if core.Callee(c).Name() == "Encode" && len(args) > 1 {
				v = args[1]
			}
			check(fn, v, c, "", 0)
		})
	}
}

// c02R9: what is handed to the manifest constructor as raw body is what was read. A caller that trims,
// replaces or re-encodes the bytes first stores a manifest under a digest the sender never saw.
func c02R9(p *core.Prog, r *core.Report) {
	const rule = "C02.R9"
	r.Rule(rule, "raw bodies reach the constructor unchanged: the argument of every manifest.WithRaw in the module has no origin that is the result of a byte- or string-rewriting function (bytes.*, strings.*, encoding/json, unicode)", 5)
	n := 0
	for _, fn := range p.ModFuncs {
		if len(fn.Blocks) == 0 || fn.Synthetic != "" {
			continue
		}
		if pk := core.FuncPkg(fn); pk == nil || pk.Path() == modPath("types/manifest") {
			continue
		}
		lab := labeler{}
		for _, c := range core.CallsTo(fn, func(f *types.Func) bool { return core.IsModFunc(f, "types/manifest", "WithRaw") }) {
			call, ok := c.(*ssa.Call)
			if !ok || len(call.Call.Args) != 1 {
				continue
			}
			n++
			label := lab.next("raw body")
			bad := ""
			for _, o := range core.Origins(call.Call.Args[0], core.SliceOpts{Helpers: core.Helpers(fn, 2)}) {
				if o.Kind != core.OCall || o.Callee() == nil || o.Callee().Pkg() == nil {
					continue
				}
				switch o.Callee().Pkg().Path() {
				case "bytes", "strings", "encoding/json", "unicode", "unicode/utf8", "regexp":
					// bytes.Buffer.Bytes() and the like hand back what was written into them: not a rewrite
					if sig, ok := o.Callee().Type().(*types.Signature); ok && sig.Recv() != nil && (core.IsNamed(sig.Recv().Type(), "bytes", "Buffer") || core.IsNamed(sig.Recv().Type(), "strings", "Builder")) {
						// … as long as the buffer is the function's own: the slice returned by Bytes() is
						// a view that the next write into a buffer shared with the caller overwrites
						if o.Call != nil && len(o.Call.Call.Args) > 0 && o.Callee().Name() == "Bytes" {
							for _, bo := range core.Origins(o.Call.Call.Args[0], core.SliceOpts{}) {
								if bo.Kind == core.OParam || bo.Kind == core.OField || bo.Kind == core.OFree || bo.Kind == core.OGlobal {
									bad = "Bytes() of a buffer that outlives the call (" + bo.Describe() + "): the manifest keeps a view into storage that the next use of the buffer overwrites"
								}
							}
						}
						continue
					}
					if o.Callee().Name() == "Clone" {
						continue // a copy of the same bytes
					}
					bad = o.Callee().Pkg().Path() + "." + o.Callee().Name()
				}
			}
			if bad == "" {
				r.Held(rule, p.FuncName(fn), label, p.Pos(call.Pos()), "the bytes come from a read or a stored body, not from a rewriting function")
			} else {
				r.Violated(rule, p.FuncName(fn), label, p.Pos(call.Pos()), "the raw body handed to the manifest constructor is the result of "+bad+": the manifest is stored with other bytes, under another digest, than the ones that were supplied")
			}
		}
	}
	if n == 0 {
		r.MissingAnchor(rule, "calls of manifest.WithRaw outside types/manifest")
	}
}

// c02R10: a body the constructor refused (its digest does not match the expected one) is not offered
// to the constructor again with fewer expectations.
func c02R10(p *core.Prog, r *core.Report) {
	const rule = "C02.R10"
	r.Rule(rule, "a refused body stays refused: from the error edge of a manifest.New that was given raw bytes, no other manifest.New with the same raw bytes is reachable (dropping the digest header or the reference digest and building the manifest anyway accepts content that does not hash to what was announced)", 3)
	isNew := func(f *types.Func) bool { return core.IsModFunc(f, "types/manifest", "New") }
	rawOf := func(c *ssa.Call) ssa.Value {
		if len(c.Call.Args) == 0 {
			return nil
		}
		for _, oc := range optCalls(c.Call.Args[0]) {
			if cal := core.Callee(oc); cal != nil && cal.Name() == "WithRaw" && len(oc.Call.Args) == 1 {
				return oc.Call.Args[0]
			}
		}
		return nil
	}
	n := 0
	for _, fn := range p.ModFuncs {
		if len(fn.Blocks) == 0 {
			continue
		}
		if pk := core.FuncPkg(fn); pk == nil || pk.Path() == modPath("types/manifest") {
			continue
		}
		lab := labeler{}
		for _, c := range core.CallsTo(fn, isNew) {
			call, ok := c.(*ssa.Call)
			if !ok {
				continue
			}
			raw := rawOf(call)
			if raw == nil {
				continue
			}
			n++
			label := lab.next("manifest.New(raw)")
			again := ""
			for _, e := range errEdgesOf(fn, call) {
				for in := range (core.Reach{StopEdge: func(from, to *ssa.BasicBlock) bool { return to.Dominates(from) }}).FromEdge(e[0], e[1]) {
					c2, ok := in.(*ssa.Call)
					if !ok || c2 == call || !isNew(core.Callee(c2)) {
						continue
					}
					if r2 := rawOf(c2); r2 != nil && (r2 == raw || (accessPath(r2) != "" && accessPath(r2) == accessPath(raw))) {
						again = p.Pos(c2.Pos())
					}
				}
			}
			r.Check(again == "", rule, p.FuncName(fn), label, p.Pos(call.Pos()), "after the constructor refused these bytes they are handed to it again at "+again+": whatever check made it refuse them (digest header, reference digest, descriptor) is gone the second time")
		}
	}
	if n == 0 {
		r.MissingAnchor(rule, "manifest.New calls with WithRaw")
	}
}

// c02R11: what sits in the client's manifest cache under a digest is the manifest that was pushed or
// fetched under that digest. A manifest rebuilt from the parsed structure (WithOrig) is a fresh
// serialisation with its own bytes and digest.
func c02R11(p *core.Prog, r *core.Report) {
	const rule = "C02.R11"
	r.Rule(rule, "the cache holds the bytes it is keyed by: no manifest stored into a cache of scheme/reg originates from a manifest.New that was given WithOrig (a re-serialisation), looked at through the package's helpers", 1)
	n := 0
	lab := map[*ssa.Function]labeler{}
	for _, cc := range regCacheCalls(p) {
		if cc.method != "Set" {
			continue
		}
		val := core.CallArg(cc.c, 2)
		if !isManifestValue(p, val) {
			continue
		}
		n++
		fn := cc.c.Parent()
		if lab[fn] == nil {
			lab[fn] = labeler{}
		}
		bad := false
		for _, o := range core.Origins(val, core.SliceOpts{Helpers: core.Helpers(fn, 2)}) {
			if o.Kind != core.OCall || !core.IsModFunc(o.Callee(), "types/manifest", "New") || len(o.Call.Call.Args) == 0 {
				continue
			}
			for _, oc := range optCalls(o.Call.Call.Args[0]) {
				if cal := core.Callee(oc); cal != nil && cal.Name() == "WithOrig" {
					bad = true
				}
			}
		}
		r.Check(!bad, rule, p.FuncName(fn), lab[fn].next("manifest cached"), p.Pos(cc.c.Pos()), "the cached manifest is rebuilt from the parsed structure: its bytes are a new serialisation with another digest and size than the digest it is stored under, and a get or head by that digest answers from the cache without verification")
	}
	if n == 0 {
		r.MissingAnchor(rule, "manifests stored into the caches of scheme/reg")
	}
}

// c02R12: the digest a caller pins (in the descriptor or in the reference) is the expected digest. The
// registry's own announcement (Docker-Content-Digest) is used only when the caller pinned nothing.
func c02R12(p *core.Prog, r *core.Report) {
	const rule = "C02.R12"
	r.Rule(rule, "the pinned digest outranks the announced one: in manifest.New the store of the reference's digest into the expected descriptor cannot be reached after the store of the digest header (both are taken only when nothing is expected yet, so whichever comes first wins)", 1)
	fn := p.Func("types/manifest", "New")
	if fn == nil {
		r.MissingAnchor(rule, "types/manifest.New")
		return
	}
	var refStores, hdrStores []*ssa.Store
	for _, f := range sortedFuncs(core.Helpers(fn, 1)) {
		for _, fs := range fieldStores([]*ssa.Function{f}, func(n *types.Named, fld string) bool { return fld == "Digest" && n.Obj().Name() == "Descriptor" }) {
			for _, o := range core.Origins(fs.Store.Val, core.SliceOpts{Through: func(c *ssa.Call) []int {
				if cal := core.Callee(c); cal != nil && (cal.Name() == "Parse" || cal.Name() == "Digest") && cal.Pkg() != nil && strings.Contains(cal.Pkg().Path(), "go-digest") {
					return []int{0}
				}
				return nil
			}}) {
				switch {
				case o.Kind == core.OField && o.Field == "Digest" && !isDigestType(o.Val.Type()):
					refStores = append(refStores, fs.Store) // the string field Ref.Digest
				case o.Kind == core.OCall && o.Callee() != nil && o.Callee().Name() == "Get":
					for _, a := range o.Call.Call.Args {
						if sv, ok := core.ConstString(a); ok && strings.EqualFold(sv, "Docker-Content-Digest") {
							hdrStores = append(hdrStores, fs.Store)
						}
					}
				}
			}
		}
	}
	if len(refStores) == 0 || len(hdrStores) == 0 {
		r.Undecided(rule, p.FuncName(fn), "expected digest sources", p.Pos(fn.Pos()), fmt.Sprintf("%d store(s) from the reference digest, %d from the digest header found", len(refStores), len(hdrStores)))
		return
	}
	bad := false
	for _, h := range hdrStores {
		after := (core.Reach{}).FromInstr(h)
		for _, rs := range refStores {
			if rs.Parent() == h.Parent() && after[rs] {
				bad = true
			}
		}
	}
	r.Check(!bad, rule, p.FuncName(fn), "reference digest before header digest", p.Pos(hdrStores[0].Pos()), "the digest header is taken before the reference's digest: a pull of repo@A that is answered with a self-consistent body B announced as B is accepted, the caller gets bytes that do not hash to the digest it asked for")
}

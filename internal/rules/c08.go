package rules

import (
	"slices"
	"sort"
	"fmt"
	"go/token"
	"go/types"
	"strings"

	"golang.org/x/tools/go/ssa"

	"verif/internal/core"
)

func init() {
	register(&Spec{
		ID: "C08",
		Decides: "ImageCopy registers the deferred GC unlock (same locker, same ref) before any return after taking the GC lock, and the copy traversal is only reachable with the lock taken (or for a scheme without GC); " +
			"every file removal of the layout sweep is behind the 'modified and not locked' test and runs under the layout mutex; lock/dirty bookkeeping is only touched under the mutex; entries of the bookkeeping map are only dropped behind the not-locked test; " +
			"only functions that write to the layout mark it dirty; the mark phase consults index entries, config and layers, marks each and recurses into every entry regardless of its media type; the referrers fallback index is pushed as a tagged (non-child) manifest.",
		NotCovered: "reachability for every concrete graph (the mark rule is the necessary structural part); writers other than ImageCopy racing with Close; that unreachable content is eventually removed.",
		Run:        runC08,
	})
}

func runC08(p *core.Prog, r *core.Report) {
	c08R1(p, r, "C08.R1")
	c08R2(p, r, "C08.R2")
	c08R6(p, r)
	c08R3(p, r)
	c08R4(p, r, "C08.R4")
	c08R5(p, r)
	c07R5(p, r, "C08.R7")
	c08R8(p, r, "C08.R8")
	c08R9(p, r, "C08.R9")
	// referrers pushed as children are reachable for the mark phase only through the fallback index:
	// its read-modify-write must not lose an entry (shared with C10.R3)
	c10R3(p, r, "C08.R10")
	whoMayRemoveRule(p, r, "C08.R11")
	c08R12(p, r, "C08.R12")
	c08R13(p, r)
}

// c08R8: an index entry is marked because the index lists it, not because it could be loaded. Before
// the mark phase tries to load an entry it has stored the entry's digest in the mark set (a blob-typed
// entry, or a manifest the loader refuses, is still content the index refers to).
func c08R8(p *core.Prog, r *core.Report, rule string) {
	r.Rule(rule, "listed means kept: in the mark phase every load of an index entry is accompanied by the store of that entry's digest into the mark set, before the load or after it but independent of its error (the mark does not depend on the load succeeding)", 1)
	walkers, first, _ := gcMarkWalkers(p)
	if first == nil {
		r.MissingAnchor(rule, "mark phase of the layout GC")
		return
	}
	n := 0
	for _, f := range sortedFuncs(walkers) {
		// the entries: results of GetManifestList in this walker
		var lists []ssa.Value
		core.Calls(f, func(c ssa.CallInstruction) {
			if isInvoke(c, "GetManifestList") {
				if v, ok := c.(ssa.Value); ok {
					lists = append(lists, v)
				}
			}
		})
		if len(lists) == 0 {
			continue
		}
		fromList := func(v ssa.Value) bool {
			for _, o := range core.Origins(v, core.SliceOpts{FieldsThrough: true, Through: func(c *ssa.Call) []int {
				if cal := core.Callee(c); cal != nil && cal.Name() == "String" {
					return []int{0}
				}
				if cal := core.Callee(c); cal != nil && (cal.Name() == "SetDigest" || cal.Name() == "AddDigest") && len(c.Call.Args) == 2 {
					return []int{1}
				}
				return nil
			}}) {
				if o.Kind == core.OCall && o.Call != nil {
					for _, l := range lists {
						if ssa.Value(o.Call) == l {
							return true
						}
					}
				}
			}
			return false
		}
		var marks []ssa.Instruction
		// a helper that stores its string parameter as key of a map (`g.add(digest)`)
		storesParam := func(h *ssa.Function, idx int) bool {
			if h == nil || len(h.Blocks) == 0 || len(h.Blocks) > 8 || idx >= len(h.Params) {
				return false
			}
			found := false
			for _, hb := range h.Blocks {
				for _, hin := range hb.Instrs {
					if mu, ok := hin.(*ssa.MapUpdate); ok {
						for _, o := range core.Origins(mu.Key, core.SliceOpts{}) {
							if o.Kind == core.OParam && o.Param == h.Params[idx] {
								found = true
							}
						}
					}
				}
			}
			return found
		}
		for _, b := range f.Blocks {
			for _, in := range b.Instrs {
				switch x := in.(type) {
				case *ssa.MapUpdate:
					if m, isMap := x.Map.Type().Underlying().(*types.Map); isMap && isStringType(m.Key()) && fromList(x.Key) {
						marks = append(marks, x)
					}
				case *ssa.Call:
					if h := core.CalleeFn(x); h != nil && p.InModule(h) {
						for i, a := range x.Call.Args {
							if isStringType(a.Type()) && fromList(a) && storesParam(h, i) {
								marks = append(marks, x)
							}
						}
					}
					// the marks are collected in a list of digests (returned to the caller, which fills the set)
					if bi, isB := x.Call.Value.(*ssa.Builtin); isB && bi.Name() == "append" && len(x.Call.Args) == 2 {
						if sl, isSl := x.Type().Underlying().(*types.Slice); isSl && isStringType(sl.Elem()) {
							for _, el := range variadicElems(x.Call.Args[1]) {
								if fromList(el) {
									marks = append(marks, x)
								}
							}
						}
					}
				}
			}
		}
		lab := labeler{}
		core.Calls(f, func(c ssa.CallInstruction) {
			call, ok := c.(*ssa.Call)
			g := core.CalleeFn(c)
			if !ok || g == nil || !p.InModule(g) {
				return
			}
			// not the recursion itself
			walks := false
			core.Calls(g, func(gc ssa.CallInstruction) {
				walks = walks || isInvoke(gc, "GetManifestList") || isInvoke(gc, "GetLayers")
			})
			if walks {
				return
			}
			res := g.Signature.Results()
			if res.Len() == 0 {
				return
			}
			// a loader answers with an error, or with the manifest and whether it could be loaded
			lastT := res.At(res.Len() - 1).Type()
			if !isErrType(lastT) && !(res.Len() == 2 && core.IsModNamed(res.At(0).Type(), "types/manifest", "Manifest") && types.Identical(lastT, types.Typ[types.Bool])) {
				return
			}
			loads := false
			for _, a := range call.Call.Args {
				if core.IsModNamed(a.Type(), "types/ref", "Ref") && fromList(a) {
					loads = true
				}
			}
			if !loads {
				return
			}
			n++
			marked := false
			for _, mu := range marks {
				if core.DominatesInstr(mu, call) {
					marked = true
					continue
				}
				// marked after the load, whatever the load answered
				if core.DominatesInstr(call, mu) {
					dep := false
					for _, ifi := range core.ControlDeps(mu) {
						cnd, _ := core.StripNot(ifi.Cond, true)
						if x, _, isNil := errCmpNil(cnd); isNil {
							cnd = x
						}
						for _, oc := range originCalls(cnd) {
							dep = dep || oc == call
						}
					}
					if !dep {
						marked = true
					}
				}
			}
			r.Check(marked, rule, p.FuncName(f), lab.next("index entry loaded by "+canon(g)), p.Pos(call.Pos()),
				"the entry's digest is not in the mark set before "+g.Name()+" is asked for it: an entry the index lists but the loader cannot read as a manifest (a blob-typed entry, a signed schema1 body, a manifest whose size differs) is swept although the image refers to it")
		})
	}
	if n == 0 {
		r.MissingAnchor(rule, "loads of index entries in the mark phase")
	}
}

func isInvoke(c ssa.CallInstruction, method string) bool {
	return c.Common().IsInvoke() && c.Common().Method.Name() == method
}

func c08R1(p *core.Prog, r *core.Report, rule string) {
	r.Rule(rule, "GC lock pairing around the whole copy: GCLock is followed on every path by `defer GCUnlock` of the same locker and ref before a return; the traversal is reachable only past the lock (or the not-a-GCLocker edge)", 2)
	trav := copyTraversal(p)
	if trav == nil {
		r.MissingAnchor(rule, "copy traversal")
		return
	}
	n := 0
	for _, fn := range pkgFuncs(p, ".") {
		var locks []ssa.CallInstruction
		core.Calls(fn, func(c ssa.CallInstruction) {
			if isInvoke(c, "GCLock") {
				locks = append(locks, c)
			}
		})
		if len(locks) == 0 {
			continue
		}
		fname := p.FuncName(fn)
		for _, lk := range locks {
			n++
			lki := lk.(ssa.Instruction)
			// ownership transfer: the function hands back a release closure that unlocks the same locker
			// and ref; the pairing is then checked at its callers
			if rel := releaseClosureFor(fn, lk); rel {
				sites := p.Callers(fn)
				okAll := len(sites) > 0
				for _, st := range sites {
					cs, isCall := st.Site.(*ssa.Call)
					if !isCall || core.CalleeFn(cs) != fn {
						okAll = false
						continue
					}
					caller := st.From
					fromRel := func(v ssa.Value) bool {
						for _, o := range core.Origins(v, core.SliceOpts{}) {
							if o.Kind == core.OCall && o.Call == cs && (o.Res == 0 || o.Res == -1) {
								return true
							}
						}
						return false
					}
					isRelease := func(in ssa.Instruction) bool {
						d, ok := in.(*ssa.Defer)
						return ok && !d.Call.IsInvoke() && fromRel(d.Call.Value)
					}
					failed := map[[2]*ssa.BasicBlock]bool{}
					for _, e := range errEdgesOf(caller, cs) {
						failed[e] = true
					}
					seen := core.Reach{Stop: isRelease, StopEdge: func(a, b *ssa.BasicBlock) bool { return failed[[2]*ssa.BasicBlock{a, b}] }}.FromInstr(cs)
					bad := ""
					for in := range seen {
						if _, isRet := in.(*ssa.Return); isRet {
							bad = "a return at " + p.Pos(in.Pos()) + " is reachable after the lock was taken without the release function being deferred"
						}
						if c, isCall := in.(ssa.CallInstruction); isCall && core.CalleeFn(c) == trav {
							bad = "the copy starts at " + p.Pos(in.Pos()) + " before the release function is deferred"
						}
					}
					before := core.Reach{Stop: func(in ssa.Instruction) bool { return in == ssa.Instruction(cs) }}.FromEntry(caller)
					for in := range before {
						if c, isCall := in.(ssa.CallInstruction); isCall && core.CalleeFn(c) == trav {
							bad = "the copy traversal is reachable without taking the GC lock"
						}
					}
					if bad != "" {
						r.Violated(rule, p.FuncName(caller), "GC lock held through "+fn.Name(), p.Pos(cs.Pos()), bad)
						okAll = false
					} else {
						r.Held(rule, p.FuncName(caller), "GC lock held through "+fn.Name(), p.Pos(cs.Pos()), "the release function returned by "+fn.Name()+" is deferred before any return or the copy")
					}
				}
				r.Check(okAll, rule, fname, "GCLock handed over to the caller", p.Pos(lk.Pos()), "the lock is released by the closure this function returns; every caller defers it")
				continue
			}
			// matching deferred unlock
			isUnlock := func(in ssa.Instruction) bool {
				d, ok := in.(*ssa.Defer)
				if !ok || !isInvoke(d, "GCUnlock") {
					return false
				}
				return d.Call.Value == lk.Common().Value && len(d.Call.Args) == 1 && sameValue(d.Call.Args[0], lk.Common().Args[0])
			}
			seen := core.Reach{Stop: isUnlock}.FromInstr(lki)
			bad := ""
			for in := range seen {
				if _, isRet := in.(*ssa.Return); isRet {
					bad = "a return at " + p.Pos(in.Pos()) + " is reachable after GCLock without the deferred GCUnlock of the same ref: the layout stays locked and is never collected, or (if unlocked early) is collected under a running copy"
				}
				if c, isCall := in.(ssa.CallInstruction); isCall && core.CalleeFn(c) == trav {
					bad = "the copy starts at " + p.Pos(in.Pos()) + " before the deferred GCUnlock is registered"
				}
			}
			if bad == "" {
				r.Held(rule, fname, "GCLock paired with defer GCUnlock", p.Pos(lk.Pos()), "deferred unlock of the same locker and ref registered before any return or the copy")
			} else {
				r.Violated(rule, fname, "GCLock paired with defer GCUnlock", p.Pos(lk.Pos()), bad)
			}
			// the traversal (and the finalFn loop after it) is only reachable past the lock or the not-a-locker edge
			notLocker := func(from, to *ssa.BasicBlock) bool {
				ifi, ok := core.LastInstr(from).(*ssa.If)
				if !ok {
					return false
				}
				ex, ok := ifi.Cond.(*ssa.Extract)
				if !ok || ex.Index != 1 {
					return false
				}
				ta, ok := ex.Tuple.(*ssa.TypeAssert)
				if !ok || !core.IsModNamed(ta.AssertedType, "scheme", "GCLocker") {
					return false
				}
				return to == from.Succs[1]
			}
			reach := core.Reach{Stop: func(in ssa.Instruction) bool { return in == lki }, StopEdge: notLocker}.FromEntry(fn)
			ok := true
			for in := range reach {
				if c, isCall := in.(ssa.CallInstruction); isCall && core.CalleeFn(c) == trav {
					ok = false
				}
			}
			r.Check(ok, rule, fname, "copy only under the GC lock", p.Pos(lk.Pos()), "every path from the entry to the copy traversal must take the GC lock of the target (or find that the target scheme has no GC)")
		}
	}
	if n == 0 {
		r.MissingAnchor(rule, "call of scheme.GCLocker.GCLock in package regclient")
	}
}

// releaseClosureFor: every return reachable after the lock call lk hands back (as its first result) a
// function literal that calls GCUnlock on the same locker with the same argument.
func releaseClosureFor(fn *ssa.Function, lk ssa.CallInstruction) bool {
	found := false
	for in := range (core.Reach{}).FromInstr(lk.(ssa.Instruction)) {
		ret, ok := in.(*ssa.Return)
		if !ok {
			continue
		}
		if len(ret.Results) == 0 {
			return false
		}
		mc, ok := core.ReturnOperand(ret, 0).(*ssa.MakeClosure)
		if !ok {
			return false
		}
		lit, _ := mc.Fn.(*ssa.Function)
		if lit == nil {
			return false
		}
		unlocks := false
		core.Calls(lit, func(c ssa.CallInstruction) {
			if !isInvoke(c, "GCUnlock") || len(c.Common().Args) != 1 {
				return
			}
			// receiver and argument are the captured locker and ref
			recvOK, argOK := false, false
			for i, fv := range lit.FreeVars {
				if i >= len(mc.Bindings) {
					continue
				}
				b := mc.Bindings[i]
				if refersTo(c.Common().Value, fv) && (b == lk.Common().Value || sameValue(b, lk.Common().Value) || cellHolds(b, lk.Common().Value)) {
					recvOK = true
				}
				if refersTo(c.Common().Args[0], fv) && (b == lk.Common().Args[0] || sameValue(b, lk.Common().Args[0]) || cellHolds(b, lk.Common().Args[0])) {
					argOK = true
				}
			}
			if recvOK && argOK {
				unlocks = true
			}
		})
		if !unlocks {
			return false
		}
		found = true
	}
	return found
}

// refersTo: v is the free variable fv or a load of it.
func refersTo(v ssa.Value, fv *ssa.FreeVar) bool {
	if v == ssa.Value(fv) {
		return true
	}
	if u, ok := v.(*ssa.UnOp); ok && u.Op == token.MUL && u.X == ssa.Value(fv) {
		return true
	}
	return false
}

// cellHolds: binding is a cell whose stored value is v, or v is a load of that cell.
func cellHolds(binding, v ssa.Value) bool {
	al, ok := binding.(*ssa.Alloc)
	if !ok {
		return false
	}
	if u, ok := v.(*ssa.UnOp); ok && u.Op == token.MUL && u.X == ssa.Value(al) {
		return true
	}
	for _, st := range core.StoresToCell(al) {
		if st.Val == v {
			return true
		}
	}
	return false
}

func sameValue(a, b ssa.Value) bool {
	if a == b {
		return true
	}
	// loads of the same cell / parameter copies
	ua, ok1 := a.(*ssa.UnOp)
	ub, ok2 := b.(*ssa.UnOp)
	if ok1 && ok2 && ua.Op == token.MUL && ub.Op == token.MUL && ua.X == ub.X {
		return true
	}
	return false
}

// gcFields identifies the bookkeeping struct and its fields semantically: the int field incremented
// by the GCLock method (lock count) and the bool field set to true elsewhere (dirty flag), plus the
// map field of OCIDir that holds the entries.
type gcFields struct {
	st       *types.Named
	lockF    string
	modF     string
	mapOwner *types.Named
	mapF     string
	marker   *ssa.Function // function that sets the dirty flag
}

func findGCFields(p *core.Prog) *gcFields {
	g := &gcFields{}
	lock := p.Method(ocidirRel, "OCIDir", "GCLock")
	if lock == nil {
		return nil
	}
	// in GCLock itself or in an unexported helper it delegates to (a method of a named bookkeeping type)
	for _, fs := range fieldStores(sortedFuncs(core.Helpers(lock, 2)), func(n *types.Named, f string) bool { return true }) {
		if bo, ok := fs.Store.Val.(*ssa.BinOp); ok && bo.Op == token.ADD {
			g.st, g.lockF = core.FieldAddrInfo(fs.Addr)
		}
	}
	if g.st == nil {
		return nil
	}
	for _, fs := range fieldStores(pkgFuncs(p, ocidirRel), func(n *types.Named, f string) bool { return n == g.st }) {
		if b, ok := core.ConstBool(fs.Store.Val); ok && b {
			_, g.modF = core.FieldAddrInfo(fs.Addr)
			g.marker = fs.Fn
		}
	}
	// the map field: field of OCIDir whose element type is *st
	if o := p.Named(ocidirRel, "OCIDir"); o != nil {
		if s, ok := o.Underlying().(*types.Struct); ok {
			for i := 0; i < s.NumFields(); i++ {
				if m, ok := s.Field(i).Type().Underlying().(*types.Map); ok && core.NamedOf(m.Elem()) == g.st {
					// (Underlying also sees through a named map type such as `type gcRefs map[string]*ociGC`)
					g.mapOwner, g.mapF = o, s.Field(i).Name()
				}
			}
		}
	}
	if g.modF == "" || g.mapF == "" {
		return nil
	}
	return g
}

// sweepSite is a file removal of the sweep: rm is the os.Remove call, at the instruction of Close
// that stands for it (rm itself, or the call of the helper the removal lives in).
type sweepSite struct {
	at ssa.Instruction
	rm ssa.CallInstruction
}

func sweepSites(closeFn *ssa.Function) []sweepSite {
	var out []sweepSite
	isRm := func(f *types.Func) bool { return isOS(f, "Remove") || isOS(f, "RemoveAll") }
	for _, c := range core.CallsTo(closeFn, isRm) {
		out = append(out, sweepSite{c.(ssa.Instruction), c})
	}
	helpers := core.Helpers(closeFn, 2)
	core.Calls(closeFn, func(c ssa.CallInstruction) {
		g := core.CalleeFn(c)
		if g == nil || g == closeFn || !helpers[g] {
			return
		}
		for h := range core.Helpers(g, 2) {
			for _, rm := range core.CallsTo(h, isRm) {
				out = append(out, sweepSite{c.(ssa.Instruction), rm})
			}
		}
	})
	return out
}

func c08R2(p *core.Prog, r *core.Report, rule string) {
	r.Rule(rule, "sweep guard: every removal reachable in Close is dominated by the 'modified' and 'not locked' edges and runs with the layout mutex held; bookkeeping entries are dropped only behind the not-locked edge and never overwritten; the bookkeeping is touched only under the mutex", 3)
	g := findGCFields(p)
	closeFn := p.Method(ocidirRel, "OCIDir", "Close")
	if g == nil || closeFn == nil {
		r.MissingAnchor(rule, ocidirRel+".(*OCIDir).GCLock / Close (GC bookkeeping fields)")
		return
	}
	li, _ := ocidirLockInfo(p)
	if li == nil {
		r.MissingAnchor(rule, ocidirRel+".OCIDir mutex")
		return
	}
	notLocked := func(b *ssa.BasicBlock) bool {
		return anyGuard(b, func(c ssa.Value, pol bool) bool {
			bo, ok := c.(*ssa.BinOp)
			if !ok {
				return false
			}
			isLocks := func(v ssa.Value) bool { return fieldLoadSame(v, g.st, g.lockF) }
			zero := func(v ssa.Value) bool { k, ok := core.ConstInt(v); return ok && k == 0 }
			switch {
			case bo.Op == token.GTR && isLocks(bo.X) && zero(bo.Y):
				return !pol
			case bo.Op == token.LEQ && isLocks(bo.X) && zero(bo.Y):
				return pol
			case bo.Op == token.EQL && isLocks(bo.X) && zero(bo.Y):
				return pol
			case bo.Op == token.NEQ && isLocks(bo.X) && zero(bo.Y):
				return !pol
			case bo.Op == token.LSS && zero(bo.X) && isLocks(bo.Y):
				return !pol
			}
			return false
		})
	}
	modified := func(b *ssa.BasicBlock) bool {
		return guardedBy(b, true, func(v ssa.Value) bool { return fieldLoadSame(v, g.st, g.modF) })
	}
	fname := p.FuncName(closeFn)
	lab := labeler{}
	nRem := 0
	for _, site := range sweepSites(closeFn) {
		nRem++
		in := site.at
		c := site.rm
		var why []string
		if !notLocked(in.Block()) {
			why = append(why, "not behind the 'lock count is zero' edge: the sweep can run while a copy into this layout is in progress and delete its not-yet-referenced blobs")
		}
		if !modified(in.Block()) {
			why = append(why, "not behind the 'modified by this client' edge")
		}
		if s := li.StateAt(in); s != core.LHeld {
			why = append(why, "runs with the layout mutex "+s.String())
		}
		label := lab.next("sweep removal")
		if len(why) == 0 {
			r.Held(rule, fname, label, p.Pos(c.Pos()), "behind modified && locks == 0, under the mutex")
		} else {
			r.Violated(rule, fname, label, p.Pos(c.Pos()), strings.Join(why, "; "))
		}
	}
	if nRem == 0 {
		r.Undecided(rule, fname, "sweep removal", p.Pos(closeFn.Pos()), "no file removal found in Close")
	}
	// entries of the bookkeeping map are deleted only behind the not-locked edge
	for _, fn := range pkgFuncs(p, ocidirRel) {
		lab := labeler{}
		core.Calls(fn, func(c ssa.CallInstruction) {
			b, ok := c.Common().Value.(*ssa.Builtin)
			if !ok || b.Name() != "delete" {
				return
			}
			m := c.Common().Args[0]
			if !fieldLoadSame(m, g.mapOwner, g.mapF) {
				return
			}
			in := c.(ssa.Instruction)
			r.Check(notLocked(in.Block()), rule, p.FuncName(fn), lab.next("delete("+g.mapF+")"), p.Pos(c.Pos()),
				"a bookkeeping entry may only be dropped where the lock count is known to be zero; dropping it under a running copy loses that copy's GC lock")
		})
	}
	// an existing entry is never overwritten: a whole-entry store is on the miss (or nil) edge of a
	// lookup in the same map, or stores back the looked-up entry
	var fromLookup func(v ssa.Value, d int) bool
	fromLookup = func(v ssa.Value, d int) bool {
		if v == nil || d > 8 {
			return false
		}
		switch x := v.(type) {
		case *ssa.Lookup:
			return fieldLoadSame(x.X, g.mapOwner, g.mapF)
		case *ssa.Extract:
			return fromLookup(x.Tuple, d+1)
		case *ssa.BinOp:
			return fromLookup(x.X, d+1) || fromLookup(x.Y, d+1)
		case *ssa.UnOp:
			if x.Op == token.MUL {
				if al, ok := x.X.(*ssa.Alloc); ok {
					for _, st := range core.StoresToCell(al) {
						if fromLookup(st.Val, d+1) {
							return true
						}
					}
					return false
				}
			}
			return fromLookup(x.X, d+1)
		case *ssa.Phi:
			for _, e := range x.Edges {
				if fromLookup(e, d+1) {
					return true
				}
			}
		}
		return false
	}
	for _, fn := range pkgFuncs(p, ocidirRel) {
		lab := labeler{}
		for _, b := range fn.Blocks {
			for _, in := range b.Instrs {
				mu, ok := in.(*ssa.MapUpdate)
				if !ok || !fieldLoadSame(mu.Map, g.mapOwner, g.mapF) {
					continue
				}
				okStore := fromLookup(mu.Value, 0)
				if !okStore {
					for _, cd := range core.ControlDeps(mu) {
						if fromLookup(cd.Cond, 0) {
							okStore = true
						}
					}
				}
				r.Check(okStore, rule, p.FuncName(fn), lab.next("store into "+g.mapF), p.Pos(mu.Pos()),
					"a fresh entry is stored only where a lookup in the same map found none (or the looked-up entry itself is stored back); overwriting an existing entry resets the lock count a running copy holds")
			}
		}
	}
	// lock count writes: only ±1 in the two lock methods
	for _, fs := range fieldStores(pkgFuncs(p, ocidirRel), func(n *types.Named, f string) bool { return n == g.st && f == g.lockF }) {
		fname := p.FuncName(fs.Fn)
		ok := false
		if bo, isBin := fs.Store.Val.(*ssa.BinOp); isBin && fieldLoadSame(bo.X, g.st, g.lockF) {
			if k, isK := core.ConstInt(bo.Y); isK && k == 1 {
				switch {
				case bo.Op == token.ADD && inHelpersOf(p, fs.Fn, "GCLock"):
					ok = true
				case bo.Op == token.SUB && inHelpersOf(p, fs.Fn, "GCUnlock"):
					// must be guarded by locks > 0
					ok = anyGuard(fs.Store.Block(), func(c ssa.Value, pol bool) bool {
						b2, isB := c.(*ssa.BinOp)
						if !isB {
							return false
						}
						// `locks > 0` in any of its spellings, on the edge where it holds
						x, y, op := b2.X, b2.Y, b2.Op
						if _, xConst := x.(*ssa.Const); xConst {
							x, y = y, x
							switch op {
							case token.LSS:
								op = token.GTR
							case token.GTR:
								op = token.LSS
							case token.LEQ:
								op = token.GEQ
							case token.GEQ:
								op = token.LEQ
							}
						}
						k, isK := core.ConstInt(y)
						if !isK || !fieldLoadSame(x, g.st, g.lockF) {
							return false
						}
						switch {
						case op == token.GTR && k == 0, op == token.GEQ && k == 1:
							return pol
						case op == token.LEQ && k == 0, op == token.LSS && k == 1:
							return !pol
						}
						return false
					})
				}
			}
		}
		if k, isK := core.ConstInt(fs.Store.Val); isK && k == 1 && inHelpersOf(p, fs.Fn, "GCLock") {
			ok = true // new entry created with locks: 1
		}
		r.Check(ok, rule, fname, "lock count write", p.Pos(fs.Store.Pos()), "the lock count is only incremented by GCLock and decremented (when positive) by GCUnlock")
	}
}

// inHelpersOf: fn is the named method of OCIDir or one of the unexported helpers it delegates to.
func inHelpersOf(p *core.Prog, fn *ssa.Function, method string) bool {
	m := p.Method(ocidirRel, "OCIDir", method)
	if m == nil {
		return false
	}
	return core.Helpers(m, 2)[fn]
}

func c08R3(p *core.Prog, r *core.Report) {
	const rule = "C08.R3"
	r.Rule(rule, "only functions that write to the layout mark it modified (so Close is inert for a client that has not written)", 3)
	g := findGCFields(p)
	if g == nil || g.marker == nil {
		r.MissingAnchor(rule, "dirty-flag setter in "+ocidirRel)
		return
	}
	writes := func(fn *ssa.Function) bool {
		w := false
		core.Calls(fn, func(c ssa.CallInstruction) {
			cal := core.Callee(c)
			if isFSMutator(cal) {
				w = true
			}
			if gfn := core.CalleeFn(c); gfn != nil && (canon(gfn) == "writeIndex" || canon(gfn) == "updateIndex") {
				w = true
			}
		})
		return w
	}
	// the marker and the thin unexported wrappers around it (a wrapper writes nothing itself and only passes the mark on)
	markers := map[*ssa.Function]bool{g.marker: true}
	for changed := true; changed; {
		changed = false
		for m := range markers {
			for _, st := range p.Callers(m) {
				f := st.From
				if markers[f] || f.Object() == nil || f.Object().Exported() || writes(f) {
					continue
				}
				if pk := core.FuncPkg(f); pk == nil || pk.Path() != modPath(ocidirRel) {
					continue
				}
				markers[f] = true
				changed = true
			}
		}
	}
	for _, m := range sortedFuncs(markers) {
		for _, st := range p.Callers(m) {
			if markers[st.From] {
				continue
			}
			fname := p.FuncName(st.From)
			r.Check(writes(st.From), rule, fname, "marks the layout modified", p.Pos(st.Site.Pos()), "a function that marks the layout dirty must itself change a file of the layout or rewrite the index (read-only operations must not enable the sweep)")
		}
	}
}

// gcMarkWalkers finds the mark phase of the layout GC by role: the functions of scheme/ocidir below
// Close that lie on a call cycle (the recursive walk over the image graph) and what they call inside
// the package. first is the recursive function itself (the smallest by name when there are several).
func gcMarkWalkers(p *core.Prog) (walkers map[*ssa.Function]bool, first *ssa.Function, reaches func(from, to *ssa.Function) bool) {
	closeFn := p.Method(ocidirRel, "OCIDir", "Close")
	if closeFn == nil {
		return nil, nil, nil
	}
	unit := map[*ssa.Function]bool{}
	for f := range unitFuncs(closeFn, 4, nil) {
		if pk := core.FuncPkg(f); pk != nil && pk.Path() == modPath(ocidirRel) && f != closeFn {
			unit[f] = true
		}
	}
	// reachability inside the unit (static calls)
	callees := func(f *ssa.Function) []*ssa.Function {
		var out []*ssa.Function
		core.Calls(f, func(c ssa.CallInstruction) {
			g := core.CalleeFn(c)
			if g != nil && !unit[g] {
				if obj := core.Callee(c); obj != nil {
					if og := p.SSA.FuncValue(obj.Origin()); og != nil {
						g = og
					}
				}
			}
			if g != nil && unit[g] {
				out = append(out, g)
			}
		})
		return out
	}
	reaches = func(from, to *ssa.Function) bool {
		seen := map[*ssa.Function]bool{}
		stack := callees(from)
		for len(stack) > 0 {
			x := stack[len(stack)-1]
			stack = stack[:len(stack)-1]
			if x == to {
				return true
			}
			if seen[x] {
				continue
			}
			seen[x] = true
			stack = append(stack, callees(x)...)
		}
		return false
	}
	// the walkers: functions of the unit on a cycle, and what they call inside the unit
	walkers = map[*ssa.Function]bool{}
	for f := range unit {
		if reaches(f, f) {
			walkers[f] = true
		}
	}
	for changed := true; changed; {
		changed = false
		for f := range walkers {
			for _, g := range callees(f) {
				if !walkers[g] && len(g.Blocks) < 60 {
					walkers[g] = true
					changed = true
				}
			}
		}
	}
	for _, f := range sortedFuncs(walkers) {
		if first == nil && reaches(f, f) {
			first = f
		}
	}
	if first == nil {
		for _, f := range sortedFuncs(walkers) {
			first = f
			break
		}
	}
	return walkers, first, reaches
}

func c08R4(p *core.Prog, r *core.Report, rule string) {
	r.Rule(rule, "mark phase edge kinds: index entries, config and layers are each consulted, marked in the digest set, and every index entry is loaded and recursed into regardless of its media type and of whether its digest is already in the mark set", 4)
	walkers, first, reaches := gcMarkWalkers(p)
	if walkers == nil {
		r.MissingAnchor(rule, ocidirRel+".(*OCIDir).Close")
		return
	}
	hasGetter := func(name string) bool {
		for f := range walkers {
			found := false
			core.Calls(f, func(c ssa.CallInstruction) {
				if isInvoke(c, name) {
					found = true
				}
			})
			if found {
				return true
			}
		}
		return false
	}
	if len(walkers) == 0 || !hasGetter("GetManifestList") || !hasGetter("GetLayers") {
		r.MissingAnchor(rule, "mark phase of the layout GC (recursive walk below Close consulting GetManifestList and GetLayers)")
		return
	}
	fname := p.FuncName(first)
	for _, getter := range []string{"GetManifestList", "GetConfig", "GetLayers"} {
		called, marked := false, false
		fname := fname
		for _, f := range sortedFuncs(walkers) {
			f := f
			core.Calls(f, func(c ssa.CallInstruction) {
				if !isInvoke(c, getter) {
					return
				}
				called = true
				fname = p.FuncName(f)
				v, ok := c.(ssa.Value)
				if !ok {
					return
				}
				// the result flows into the key of a store into the mark set (a string-keyed map)
				if forwardFlow(p, v, func(c2 ssa.CallInstruction, i int) bool { return false }, func(user ssa.Instruction, x ssa.Value) bool {
					mu, isMU := user.(*ssa.MapUpdate)
					if !isMU || mu.Key != x {
						return false
					}
					m, isMap := mu.Map.Type().Underlying().(*types.Map)
					return isMap && isStringType(m.Key())
				}) {
					marked = true
				}
			})
		}
		detail := "digests returned by " + getter + " are stored in the mark set"
		if !called {
			detail = getter + " is not consulted: content only reachable through this edge kind is swept"
		} else if !marked {
			detail = "the digests returned by " + getter + " never reach the mark set"
		}
		r.Check(called && marked, rule, fname, "edge kind "+getter, p.Pos(first.Pos()), detail)
	}
	// recursion: the nested manifest is fetched and recursed into independent of the entry's media type
	lab := labeler{}
	nRec := 0
	for _, f := range sortedFuncs(walkers) {
		f := f
		core.Calls(f, func(c ssa.CallInstruction) {
			g := core.CalleeFn(c)
			if g != nil && !walkers[g] {
				if obj := core.Callee(c); obj != nil {
					if og := p.SSA.FuncValue(obj.Origin()); og != nil {
						g = og
					}
				}
			}
			// a call that closes a cycle of the walk
			if g == nil || !walkers[g] || !(g == f || reaches(g, f)) {
				return
			}
			nRec++
			in := c.(ssa.Instruction)
			bad := ""
			for _, ifi := range core.ControlDeps(in) {
				if dependsOnField(ifi.Cond, modPath("types/descriptor"), "Descriptor", "MediaType") {
					bad = p.Pos(ifi.Pos())
					if bad == "-" {
						bad = p.Pos(ifi.Cond.Pos())
					}
				}
			}
			// nor on membership in the mark set: that set also holds digests that were only marked
			// (config, layers, entries met as a layer of an artifact), never walked
			if bad == "" {
				markParams := map[*ssa.Parameter]bool{}
				mapParam := func(m ssa.Value) *ssa.Parameter {
					for _, o := range core.Origins(m, core.SliceOpts{FieldsThrough: true}) {
						if o.Kind == core.OParam {
							return o.Param
						}
					}
					return nil
				}
				for _, b := range f.Blocks {
					for _, in2 := range b.Instrs {
						if mu, ok := in2.(*ssa.MapUpdate); ok {
							if pr := mapParam(mu.Map); pr != nil {
								markParams[pr] = true
							}
						}
					}
				}
				var member func(v ssa.Value, d int) bool
				seenV := map[ssa.Value]bool{}
				member = func(v ssa.Value, d int) bool {
					if v == nil || d > 6 || seenV[v] {
						return false
					}
					seenV[v] = true
					if lk, ok := v.(*ssa.Lookup); ok {
						if _, isMap := lk.X.Type().Underlying().(*types.Map); isMap {
							if pr := mapParam(lk.X); pr != nil && markParams[pr] {
								return true
							}
						}
					}
					if in3, ok := v.(ssa.Instruction); ok {
						if _, isCall := v.(*ssa.Call); isCall {
							return false
						}
						for _, op := range in3.Operands(nil) {
							if op != nil && *op != nil && member(*op, d+1) {
								return true
							}
						}
					}
					return false
				}
				for _, ifi := range core.ControlDeps(in) {
					if member(ifi.Cond, 0) {
						r.Violated(rule, p.FuncName(f), lab.next("recursion into index entry"), p.Pos(c.Pos()), "the recursion is skipped for entries whose digest is already in the mark set (test at "+p.Pos(ifi.Cond.Pos())+"): the set also holds digests that were marked without being walked (a manifest stored as a layer of an artifact, an entry of another list), so the config and layers of such a manifest are swept")
						return
					}
				}
			}
			if bad == "" {
				r.Held(rule, p.FuncName(f), lab.next("recursion into index entry"), p.Pos(c.Pos()), "not control-dependent on the entry's media type or on membership in the mark set")
			} else {
				r.Violated(rule, p.FuncName(f), lab.next("recursion into index entry"), p.Pos(c.Pos()), "the recursion is guarded by a test of the entry's media type at "+bad+": manifests of a type missing from that list (schema1, artifact, future types) are marked but their blobs are swept")
			}
		})
	}
	if nRec == 0 {
		r.Undecided(rule, fname, "recursion into index entry", p.Pos(first.Pos()), "no recursive call found in the mark phase")
	}
}

// dependsOnField reports whether the value (within a few steps) is computed from a load of the
// given struct field.
func dependsOnField(v ssa.Value, pkgPath, typ, field string) bool {
	seen := map[ssa.Value]bool{}
	var walk func(x ssa.Value, d int) bool
	walk = func(x ssa.Value, d int) bool {
		if x == nil || seen[x] || d > 12 {
			return false
		}
		seen[x] = true
		if fieldLoadOf(x, pkgPath, typ, field) {
			return true
		}
		in, ok := x.(ssa.Instruction)
		if !ok {
			return false
		}
		for _, op := range in.Operands(nil) {
			if op != nil && *op != nil && walk(*op, d+1) {
				return true
			}
		}
		// loads of cells: look at the stores
		if u, ok := x.(*ssa.UnOp); ok && u.Op == token.MUL {
			if al, ok := u.X.(*ssa.Alloc); ok {
				for _, st := range core.StoresToCell(al) {
					if walk(st.Val, d+1) {
						return true
					}
				}
			}
		}
		return false
	}
	return walk(v, 0)
}

func c08R5(p *core.Prog, r *core.Report) {
	const rule = "C08.R5"
	r.Rule(rule, "referrers stay rooted: the layout's referrers index is pushed to the fallback tag as a tagged, non-child manifest (an index entry the mark phase starts from)", 1)
	put := p.Method(ocidirRel, "OCIDir", "manifestPut")
	if put == nil {
		r.MissingAnchor(rule, ocidirRel+".(*OCIDir).manifestPut")
		return
	}
	n := 0
	for _, fn := range pkgFuncs(p, ocidirRel) {
		// the referrer helpers: functions that derive the fallback tag of a subject
		if !callsWhere(fn, func(f *types.Func) bool { return core.IsModFunc(f, "types/referrer", "FallbackTag") }) {
			continue
		}
		core.Calls(fn, func(c ssa.CallInstruction) {
			if core.CalleeFn(c) != put {
				return
			}
			n++
			refArg := core.CallArg(c, 2)
			fromFallback := false
			for _, oc := range originCalls(refArg) {
				if cal := core.Callee(oc); cal != nil && core.IsModFunc(cal, "types/referrer", "FallbackTag") {
					fromFallback = true
				}
			}
			// variadic options must be empty (nil slice constant)
			opts := core.CallArg(c, 4)
			noOpts := opts == nil || core.IsNilConst(opts)
			detail := fmt.Sprintf("ref from FallbackTag: %v, no child option: %v", fromFallback, noOpts)
			r.Check(fromFallback && noOpts, rule, p.FuncName(fn), "fallback index pushed as tagged manifest", p.Pos(c.Pos()), detail)
		})
	}
	if n == 0 {
		r.Undecided(rule, "-", "fallback push", "-", "no manifestPut of the referrers index found")
	}
}

// ---------------------------------------------------------------------------------------------
// R6 the sweep takes everything that is not marked

// callsInSlice collects the calls in the backward slice of v (through every operand).
func callsInSlice(v ssa.Value) []*ssa.Call {
	var out []*ssa.Call
	seen := map[ssa.Value]bool{}
	var walk func(x ssa.Value, d int)
	walk = func(x ssa.Value, d int) {
		if x == nil || seen[x] || d > 10 {
			return
		}
		seen[x] = true
		if c, ok := x.(*ssa.Call); ok {
			out = append(out, c)
		}
		in, ok := x.(ssa.Instruction)
		if !ok {
			return
		}
		for _, op := range in.Operands(nil) {
			if op != nil && *op != nil {
				walk(*op, d+1)
			}
		}
	}
	walk(v, 0)
	return out
}

func c08R6(p *core.Prog, r *core.Report) {
	const rule = "C08.R6"
	r.Rule(rule, "the sweep removes every unmarked entry below blobs/: whether an entry is removed does not depend on a test of the shape of its name (digest validation, algorithm availability, pattern or suffix match); the temporary files the layout's own writers leave behind have names that are not digests and must go too", 1)
	closeFn := p.Method(ocidirRel, "OCIDir", "Close")
	if closeFn == nil {
		r.MissingAnchor(rule, ocidirRel+".(*OCIDir).Close")
		return
	}
	shape := map[string]bool{"Validate": true, "Parse": true, "Available": true, "MatchString": true, "Match": true, "HasSuffix": true, "HasPrefix": true, "Contains": true, "Ext": true}
	lab := labeler{}
	n := 0
	for _, site := range sweepSites(closeFn) {
		c := site.rm
		n++
		label := lab.next("sweep removal independent of the name's shape")
		bad := ""
		for _, cd := range core.ControlDeps(c.(ssa.Instruction)) {
			fromName, shapeCall := false, ""
			for _, cc := range callsInSlice(cd.Cond) {
				cal := core.Callee(cc)
				if cal == nil {
					continue
				}
				if cal.Name() == "Name" && len(cc.Call.Args) == 0 {
					fromName = true
				}
				if shape[cal.Name()] {
					shapeCall = cal.Name()
				}
			}
			if fromName && shapeCall != "" {
				bad = "the removal depends on " + shapeCall + "() of the entry's name (test at " + p.Pos(cd.Pos()) + ")"
			}
		}
		if bad != "" {
			r.Violated(rule, p.FuncName(closeFn), label, p.Pos(c.Pos()), bad+": files whose names are not digests (leftover *.tmp files of interrupted or failed writes) are never collected")
		} else {
			r.Held(rule, p.FuncName(closeFn), label, p.Pos(c.Pos()), "removal depends only on the mark set, the bookkeeping and errors")
		}
	}
	if n == 0 {
		r.Undecided(rule, p.FuncName(closeFn), "sweep removal", p.Pos(closeFn.Pos()), "no file removal found in Close")
	}
}

// c08R9: the mark phase carries on when an entry cannot be loaded (a deleted manifest, a sparse
// copy), which turns every load failure into "this manifest has no children". That is only safe
// while loading fails for reasons found in the layout itself. A loader that also fails because the
// caller's context has ended (the commands close the layout with the context their signal handler
// has just cancelled) makes the walk mark nothing below the index and the sweep delete the children
// of every tag.
func c08R9(p *core.Prog, r *core.Report, rule string) {
	r.Rule(rule, "a load failure the mark phase ignores says something about the layout: while the walk continues past an entry it could not load, nothing the loader calls (three levels of module calls) consults the context (Err, Done): a cancelled context must not make every manifest look like a leaf", 1)
	walkers, first, _ := gcMarkWalkers(p)
	if first == nil {
		r.MissingAnchor(rule, "mark phase of the layout GC")
		return
	}
	errT := types.Universe.Lookup("error").Type()
	type site struct {
		fn   *ssa.Function
		call *ssa.Call
		g    *ssa.Function
	}
	var ignored []site
	for _, f := range sortedFuncs(walkers) {
		core.Calls(f, func(c ssa.CallInstruction) {
			call, ok := c.(*ssa.Call)
			g := core.CalleeFn(c)
			if !ok || g == nil || walkers[g] && g == f {
				return
			}
			pk := core.FuncPkg(g)
			if pk == nil || pk.Path() != modPath(ocidirRel) {
				return
			}
			res := g.Signature.Results()
			if res.Len() < 2 || !types.Identical(res.At(res.Len()-1).Type(), errT) {
				return
			}
			for _, e := range errEdgesOf(f, call) {
				for in := range (core.Reach{}).FromEdge(e[0], e[1]) {
					if ret, isRet := in.(*ssa.Return); isRet && !failureReturn(f, ret) {
						ignored = append(ignored, site{f, call, g})
						return
					}
				}
			}
		})
	}
	if len(ignored) == 0 {
		r.Held(rule, p.FuncName(first), "load failures end the walk", p.Pos(first.Pos()), "no loader error is passed over in the mark phase")
		return
	}
	isCtx := func(t types.Type) bool { return core.IsNamed(t, "context", "Context") }
	lab := labeler{}
	for _, s := range ignored {
		bad := ""
		n := 0
		for _, h := range sortedFuncs(unitFuncs(s.g, 3, nil)) {
			if !p.InModule(h) {
				continue
			}
			n++
			core.Calls(h, func(c ssa.CallInstruction) {
				cc := c.Common()
				if cc.IsInvoke() && isCtx(cc.Value.Type()) && (cc.Method.Name() == "Err" || cc.Method.Name() == "Done") && bad == "" {
					bad = p.FuncName(h) + " at " + p.Pos(c.Pos())
				}
				if f := core.Callee(c); f != nil && f.Pkg() != nil && f.Pkg().Path() == "context" && f.Name() == "Cause" && bad == "" {
					bad = p.FuncName(h) + " at " + p.Pos(c.Pos())
				}
			})
		}
		r.Check(bad == "", rule, p.FuncName(s.fn), lab.next("ignored load failure of "+s.g.Name()), p.Pos(s.call.Pos()),
			fmt.Sprintf("the walk continues when %s fails, and %s fails when the context has ended (%s): closing a layout with a cancelled context sweeps the children of every tag (%d functions examined)", s.g.Name(), s.g.Name(), bad, n))
	}
}

// ---------------------------------------------------------------------------------------------
// who may remove content

// whoMayRemoveRule: a file under a layout's blob directory is removed by an operation that names
// that content (BlobDelete, ManifestDelete) or by the sweep, which has computed what is reachable.
// No other operation knows whether something else still refers to the file: a tag delete that also
// removes "its" manifest breaks every index, referrers list and other tag that shares it.
func whoMayRemoveRule(p *core.Prog, r *core.Report, rule string) {
	r.Rule(rule, "content is removed only by an explicit delete or by the sweep: every os.Remove / RemoveAll in scheme/ocidir (temp-file clean-up aside) sits in a function that, among the exported methods of the layout scheme, is reachable only from BlobDelete, ManifestDelete or Close", 2)
	n := p.Named(ocidirRel, "OCIDir")
	if n == nil {
		r.MissingAnchor(rule, ocidirRel+".OCIDir")
		return
	}
	allowed := map[string]bool{"BlobDelete": true, "ManifestDelete": true, "Close": true}
	// exported entry points and what each reaches
	type entry struct {
		fn    *ssa.Function
		reach map[*ssa.Function]bool
	}
	var entries []entry
	for _, fn := range pkgFuncs(p, ocidirRel) {
		if fn.Parent() != nil || fn.Object() == nil || !fn.Object().Exported() || recvNamed(fn) != n {
			continue
		}
		entries = append(entries, entry{fn, p.ReachSet(fn, core.ReachQuery{})})
	}
	cnt := 0
	for _, fn := range pkgFuncs(p, ocidirRel) {
		lab := labeler{}
		core.Calls(fn, func(c ssa.CallInstruction) {
			cal := core.Callee(c)
			if cal == nil || !(core.IsFunc(cal, "os", "Remove") || core.IsFunc(cal, "os", "RemoveAll")) {
				return
			}
			// clean-up of a temp file the function made itself
			for _, oc := range originCallsDeep(p, core.CallArg(c, 0), 2) {
				if f := core.Callee(oc); f != nil && (core.IsMethod(f, "os", "File", "Name") || core.IsFunc(f, "os", "CreateTemp")) {
					return
				}
			}
			cnt++
			root := fn
			for root.Parent() != nil {
				root = root.Parent()
			}
			var bad []string
			for _, e := range entries {
				if (e.reach[fn] || e.reach[root]) && !allowed[e.fn.Name()] {
					bad = append(bad, e.fn.Name())
				}
			}
			sort.Strings(bad)
			r.Check(len(bad) == 0, rule, p.FuncName(fn), lab.next(cal.Name()), p.Pos(c.Pos()),
				"this removal runs under "+strings.Join(bad, ", ")+", which does not decide whether anything else (a tagged index, a referrers list, another tag) still refers to the file")
		})
	}
	if cnt == 0 {
		r.MissingAnchor(rule, "os.Remove calls in "+ocidirRel)
	}
}

// ---------------------------------------------------------------------------------------------
// one key per layout

// c08R12: the lock count, the dirty flag and the sweep decision of a layout live in one map entry.
// They only meet when every access builds the key in the same way: a lock taken under a cleaned-up
// spelling of the path and looked for under the raw one is not found by Close, and the collection
// runs under the copy.
func c08R12(p *core.Prog, r *core.Report, rule string) {
	r.Rule(rule, "one key per layout: every lookup, update and delete on the GC bookkeeping map of scheme/ocidir builds its key the same way (all from the reference's path field directly, or all through the same function) — sibling agreement between GCLock, GCUnlock, the dirty marker and Close", 1)
	gf := findGCFields(p)
	if gf == nil {
		r.MissingAnchor(rule, ocidirRel+" GC bookkeeping map")
		return
	}
	isMap := func(v ssa.Value) bool {
		u, ok := v.(*ssa.UnOp)
		if !ok || u.Op != token.MUL {
			return false
		}
		fa, ok := u.X.(*ssa.FieldAddr)
		if !ok {
			return false
		}
		n, f := core.FieldAddrInfo(fa)
		return n == gf.mapOwner && f == gf.mapF
	}
	type site struct {
		fn  *ssa.Function
		pos token.Pos
		sig string
	}
	var sites []site
	sigOf := func(fn *ssa.Function, key ssa.Value) string {
		root := fn
		for root.Parent() != nil {
			root = root.Parent()
		}
		var parts []string
		// (a helper that is handed the key: the key is what its callers in the package pass)
		all, unexp := map[*ssa.Function]bool{}, map[*ssa.Function]bool{root: true}
		for _, f := range pkgFuncs(p, ocidirRel) {
			all[f] = true
			if f.Object() != nil && !f.Object().Exported() {
				unexp[f] = true
			}
		}
		for _, o := range core.Origins(key, core.SliceOpts{Helpers: unexp, Callers: all}) {
			switch o.Kind {
			case core.OField:
				parts = append(parts, "field "+o.Field)
			case core.OCall:
				if f := o.Callee(); f != nil {
					parts = append(parts, "call "+core.ShortFunc(f))
				} else {
					parts = append(parts, "call")
				}
			case core.OParam:
				parts = append(parts, "param")
			default:
				parts = append(parts, o.Kind)
			}
		}
		sort.Strings(parts)
		parts = slices.Compact(parts)
		return strings.Join(parts, " + ")
	}
	for _, fn := range pkgFuncs(p, ocidirRel) {
		for _, b := range fn.Blocks {
			for _, in := range b.Instrs {
				switch x := in.(type) {
				case *ssa.Lookup:
					if isMap(x.X) {
						sites = append(sites, site{fn, x.Pos(), sigOf(fn, x.Index)})
					}
				case *ssa.MapUpdate:
					if isMap(x.Map) {
						sites = append(sites, site{fn, x.Pos(), sigOf(fn, x.Key)})
					}
				case *ssa.Call:
					if bi, ok := x.Call.Value.(*ssa.Builtin); ok && bi.Name() == "delete" && len(x.Call.Args) == 2 && isMap(x.Call.Args[0]) {
						sites = append(sites, site{fn, x.Pos(), sigOf(fn, x.Call.Args[1])})
					}
				}
			}
		}
	}
	if len(sites) == 0 {
		r.MissingAnchor(rule, "accesses to the GC bookkeeping map")
		return
	}
	// the majority signature is the reference
	count := map[string]int{}
	for _, s := range sites {
		count[s.sig]++
	}
	best := ""
	for sg, c := range count {
		if c > count[best] || (c == count[best] && sg < best) || best == "" {
			best = sg
		}
	}
	lab := map[*ssa.Function]*labeler{}
	for _, s := range sites {
		if lab[s.fn] == nil {
			lab[s.fn] = &labeler{}
		}
		r.Check(s.sig == best, rule, p.FuncName(s.fn), lab[s.fn].next("bookkeeping key"), p.Pos(s.pos),
			fmt.Sprintf("this access builds its key from [%s], the other accesses from [%s]: the two spellings of one layout get separate entries, and the lock taken under one is not seen by the sweep that looks under the other", s.sig, best))
	}
}

// ---------------------------------------------------------------------------------------------
// every directory a temp file is made in is swept

// c08R13: "when a collection does run … leftover temporary files are removed". The scheme makes its
// temp files next to their final names: under blobs/<algorithm>/ for content, and in the top directory
// of the layout for index.json and oci-layout. A sweep that only walks the blob directories leaves the
// temp files of an interrupted index write behind for good (found D27).
func c08R13(p *core.Prog, r *core.Report) {
	const rule = "C08.R13"
	r.Rule(rule, "every directory a temp file is made in is swept: for each os.CreateTemp of scheme/ocidir the class of its directory (under blobs/, or the layout's top directory) is one in which the sweep of Close removes files", 2)
	closeFn := p.Method(ocidirRel, "OCIDir", "Close")
	if closeFn == nil {
		r.MissingAnchor(rule, ocidirRel+".(*OCIDir).Close")
		return
	}
	var hasBlobs func(v ssa.Value, depth int) bool
	hasBlobs = func(v ssa.Value, depth int) bool {
		for _, l := range pathLeaves(v) {
			if s, ok := core.ConstString(l); ok && s == "blobs" {
				return true
			}
			// a directory handed to a helper as a parameter: what its callers in the package pass
			if pr, ok := l.(*ssa.Parameter); ok && depth < 3 && pr.Parent() != nil {
				idx := -1
				for i, q := range pr.Parent().Params {
					if q == pr {
						idx = i
					}
				}
				for _, caller := range pkgFuncs(p, ocidirRel) {
					found := false
					core.Calls(caller, func(c ssa.CallInstruction) {
						if core.CalleeFn(c) == pr.Parent() && idx >= 0 && idx < len(c.Common().Args) && hasBlobs(c.Common().Args[idx], depth+1) {
							found = true
						}
					})
					if found {
						return true
					}
				}
			}
		}
		return false
	}
	class := func(v ssa.Value) string {
		if hasBlobs(v, 0) {
			return "blobs"
		}
		return "top"
	}
	swept := map[string]bool{}
	for _, ss := range sweepSites(closeFn) {
		swept[class(core.CallArg(ss.rm, 0))] = true
	}
	n := 0
	for _, fn := range pkgFuncs(p, ocidirRel) {
		lab := labeler{}
		for _, c := range core.CallsTo(fn, func(f *types.Func) bool { return isOS(f, "CreateTemp") }) {
			n++
			cl := class(core.CallArg(c, 0))
			where := map[string]string{"blobs": "under blobs/", "top": "in the layout's top directory"}[cl]
			r.Check(swept[cl], rule, p.FuncName(fn), lab.next("temp file "+where), p.Pos(c.Pos()),
				"temp files are made "+where+", where the sweep of Close removes nothing: what an interrupted write leaves there is never collected")
		}
	}
	if n == 0 {
		r.MissingAnchor(rule, "os.CreateTemp calls in "+ocidirRel)
	}
}

package rules

import (
	"go/types"
	"strings"

	"golang.org/x/tools/go/ssa"

	"verif/internal/core"
)

// fsMutatorNames are the os functions that change the file system.
var fsMutatorNames = map[string]bool{
	"Create": true, "CreateTemp": true, "Mkdir": true, "MkdirAll": true, "MkdirTemp": true, "OpenFile": true,
	"WriteFile": true, "Rename": true, "Remove": true, "RemoveAll": true, "Symlink": true, "Link": true,
	"Chmod": true, "Chown": true, "Chtimes": true, "Truncate": true,
}

// isFSMutator reports whether cal is a file-system mutating function of package os.
func isFSMutator(cal *types.Func) bool {
	if cal == nil || cal.Pkg() == nil || cal.Pkg().Path() != "os" {
		return false
	}
	sig := cal.Type().(*types.Signature)
	if sig.Recv() != nil {
		// (*os.File).Truncate / Chmod / Write are handled by the rules that need them
		return false
	}
	return fsMutatorNames[cal.Name()]
}

// primitiveMutators returns the module functions that directly change external state:
//   - functions of scheme/reg (or anywhere) that build a reghttp.Req literal with a method other than GET/HEAD,
//   - functions of scheme/ocidir that call a file-system mutator of package os.
//
// Every state-changing request of the client library and every write to an OCI layout goes through
// one of them. The value is a short description used in reports.
func primitiveMutators(p *core.Prog) map[*ssa.Function]string {
	out := map[*ssa.Function]string{}
	for _, lit := range reqLiterals(p) {
		if !lit.MethodOK {
			out[lit.Fn] = "registry request with non-constant method"
			continue
		}
		if !readMethod(lit.Method) {
			out[lit.Fn] = "registry " + lit.Method + " request"
		}
	}
	for _, fn := range pkgFuncs(p, "scheme/ocidir") {
		core.Calls(fn, func(c ssa.CallInstruction) {
			if cal := core.Callee(c); isFSMutator(cal) {
				if _, ok := out[fn]; !ok {
					out[fn] = "layout write os." + cal.Name()
				}
			}
		})
	}
	return out
}

// gcInert lists functions whose file-system effect is excluded from the mutator set, each with the
// reason (one named symbol per entry).
var gcInert = map[string]string{
	"scheme/ocidir.(*OCIDir).Close": "garbage collection only runs for a layout this client has modified (C08.R3: only mutators set the dirty flag), so Close is inert for a client that has not written",
}

// mutatingClientMethods computes the exported methods of *RegClient from which a primitive mutator
// is reachable in the reference graph (the "mutating set" M of DESIGN.md C18.R1).
func mutatingClientMethods(p *core.Prog) (map[*ssa.Function]bool, map[*ssa.Function]string) {
	prim := primitiveMutators(p)
	sinks := map[*ssa.Function]bool{}
	for f := range prim {
		if _, inert := gcInert[p.FuncName(f)]; inert {
			continue
		}
		sinks[f] = true
	}
	out := map[*ssa.Function]bool{}
	rc := p.Named(".", "RegClient")
	if rc == nil {
		return out, prim
	}
	ms := p.SSA.MethodSets.MethodSet(types.NewPointer(rc))
	for i := 0; i < ms.Len(); i++ {
		fn := p.SSA.MethodValue(ms.At(i))
		if fn == nil || !ms.At(i).Obj().Exported() {
			continue
		}
		hits, _ := p.Reachable(fn, core.ReachQuery{
			IsSink: func(f *ssa.Function) bool { return sinks[f] },
			Prune:  func(f *ssa.Function) bool { _, inert := gcInert[p.FuncName(f)]; return inert },
		})
		if len(hits) > 0 || sinks[fn] {
			out[fn] = true
		}
	}
	return out, prim
}

func funcNames(p *core.Prog, m map[*ssa.Function]bool) string {
	var s []string
	for _, f := range sortedFuncs(m) {
		s = append(s, f.Name())
	}
	return strings.Join(s, ",")
}

// chain renders a call chain for a report.
func chain(p *core.Prog, path []core.PathStep) string {
	var sb strings.Builder
	for i, st := range path {
		if i == 0 {
			sb.WriteString(p.FuncName(st.From))
		}
		sb.WriteString(" -> ")
		sb.WriteString(p.FuncName(st.To))
		sb.WriteString(" [" + p.Pos(st.Site.Pos()) + "]")
	}
	return sb.String()
}
